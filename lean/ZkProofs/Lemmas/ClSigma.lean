/-
CL03 sigma protocols: monad plumbing, arithmetic bridge (`ArithOK` → `Int.ModEq`), specifications of the
product loops, completeness of `nisp2sec`, `nispMultiSecrets`, `nisp2`, special soundness (representation
extraction) and the Euler-inverse lemma used by blind issuance (C14).

Also: `TapeFree` (verification consumes no randomness), the unit-group bridge for negative exponents,
`zkpokVerify_true_iff`, `hashInts_collision`.

Self-contained (imports only `ClSetting` and Mathlib): the shared files `ClMonad.lean` / `ClAlgebra.lean` did
not exist when this file was started, so local versions of the monad / `pw` / Euler / `TapeFree` lemmas are
proved here, in the namespace `Zk.ClSigma` (the same short names exist in `Zk.Cl` in `ClMonad.lean`; qualify
them when both are imported, as `Props/C14.lean` does).
-/
import ZkProofs.ClSetting
import Mathlib.Data.Int.ModEq
import Mathlib.Data.Int.GCD
import Mathlib.Data.ZMod.Basic
import Mathlib.FieldTheory.Finite.Basic
import Mathlib.Data.Nat.Totient
import Mathlib.Algebra.BigOperators.Group.List.Basic
import Mathlib.Tactic.Ring
import Mathlib.Tactic.Linarith

set_option linter.unusedSectionVars false
set_option linter.unusedVariables false

namespace Zk.ClSigma
open Zk.IA Zk.Cl

/-! ## 1. The tape monad -/

theorem pure_run {α} (a : α) (t : List Draw) : (pure a : M α) t = .ok (a, t) := rfl

theorem bind_run {α β} (x : M α) (f : α → M β) (t : List Draw) :
    (x >>= f) t = match x t with
      | .ok (a, t') => f a t'
      | .panic => .panic
      | .tape m => .tape m := rfl

theorem bind_of_ok {α β} {x : M α} {f : α → M β} {t t' : List Draw} {a : α}
    (h : x t = .ok (a, t')) : (x >>= f) t = f a t' := by
  rw [bind_run, h]

theorem bind_ok_iff {α β} (x : M α) (f : α → M β) (t t'' : List Draw) (b : β) :
    (x >>= f) t = .ok (b, t'') ↔ ∃ a t', x t = .ok (a, t') ∧ f a t' = .ok (b, t'') := by
  rw [bind_run]
  cases h : x t with
  | ok p => obtain ⟨a, t'⟩ := p; simp
  | panic => simp
  | tape m => simp

theorem bind_panic_iff {α β} (x : M α) (f : α → M β) (t : List Draw) :
    (x >>= f) t = .panic ↔ x t = .panic ∨ ∃ a t', x t = .ok (a, t') ∧ f a t' = .panic := by
  rw [bind_run]
  cases h : x t with
  | ok p => obtain ⟨a, t'⟩ := p; simp
  | panic => simp
  | tape m => simp

theorem pure_ok_iff {α} (a b : α) (t t' : List Draw) :
    (pure a : M α) t = .ok (b, t') ↔ a = b ∧ t = t' := by
  rw [pure_run]; simp

theorem panic_run {α} (t : List Draw) : (Zk.Cl.panic : M α) t = .panic := rfl

theorem ite_run {α} (c : Prop) [Decidable c] (x y : M α) (t : List Draw) :
    (if c then x else y) t = if c then x t else y t := by
  split <;> rfl

instance : LawfulMonad M := LawfulMonad.mk'
  (id_map := by
    intro α x; funext t
    show (x >>= fun a => pure a) t = x t
    rw [bind_run]; cases h : x t with
    | ok p => obtain ⟨a, t'⟩ := p; rfl
    | panic => rfl
    | tape m => rfl)
  (pure_bind := by intro α β a f; rfl)
  (bind_assoc := by
    intro α β γ x f g; funext t
    simp only [bind_run]
    cases h : x t with
    | ok p => obtain ⟨a, t'⟩ := p; rfl
    | panic => rfl
    | tape m => rfl)

/-! ## 2. Draws, `pw`, `tmod`, `idx` -/

theorem randomBits_elim {n : Nat} {t t' : List Draw} {v : Int} (h : randomBits n t = .ok (v, t')) :
    0 ≤ v ∧ bitLen v = n ∧ ∃ d, t = d :: t' := by
  unfold randomBits at h
  cases t with
  | nil => cases h
  | cons d rest =>
    simp only at h
    split at h
    · cases h
    · split at h
      · cases h
      · rename_i h1 h2
        simp only [CRes.ok.injEq, Prod.mk.injEq] at h
        obtain ⟨rfl, rfl⟩ := h
        refine ⟨by omega, ?_, d, rfl⟩
        by_contra hne; exact h2 (Or.inr hne)

theorem randomBits_ne_panic (n : Nat) (t : List Draw) : randomBits n t ≠ .panic := by
  unfold randomBits
  cases t with
  | nil => simp
  | cons d rest => simp only; split <;> [simp; (split <;> simp)]

theorem powMod_pos {b e n x : Int} (h : powMod b e n = some x) : 0 < n := by
  unfold powMod at h
  split at h
  · cases h
  · omega

theorem ofOpt_ok_iff {α} (o : Option α) (a : α) (t t' : List Draw) :
    ofOpt o t = .ok (a, t') ↔ o = some a ∧ t' = t := by
  cases o with
  | none => simp [ofOpt, panic_run]
  | some b => simp [ofOpt, pure_run]; tauto

theorem ofOpt_run {α} {o : Option α} {a : α} (h : o = some a) (t : List Draw) :
    ofOpt o t = .ok (a, t) := by subst h; rfl

theorem pw_ok_iff (b e n x : Int) (t t' : List Draw) :
    pw b e n t = .ok (x, t') ↔ powMod b e n = some x ∧ t' = t := ofOpt_ok_iff _ _ _ _

theorem pw_run {b e n x : Int} (h : powMod b e n = some x) (t : List Draw) :
    pw b e n t = .ok (x, t) := ofOpt_run h t

theorem pw_run_nonneg (hA : ArithOK) {b e n : Int} (hn : 0 < n) (he : 0 ≤ e) (t : List Draw) :
    pw b e n t = .ok (b ^ e.toNat % n, t) := pw_run (hA.powMod_nonneg b e n hn he) t

theorem pw_elim_nonneg (hA : ArithOK) {b e n x : Int} {t t' : List Draw} (he : 0 ≤ e)
    (h : pw b e n t = .ok (x, t')) : t' = t ∧ 0 < n ∧ x = b ^ e.toNat % n := by
  obtain ⟨h1, h2⟩ := (pw_ok_iff _ _ _ _ _ _).1 h
  have hn := powMod_pos h1
  rw [hA.powMod_nonneg b e n hn he] at h1
  exact ⟨h2, hn, (Option.some.inj h1).symm⟩

theorem tmod_nonneg {a : Int} (n : Int) (ha : 0 ≤ a) : tmod a n = a % n :=
  Int.tmod_eq_emod_of_nonneg ha

theorem idx_ok_iff {α} (l : List α) (i : Nat) (a : α) (t t' : List Draw) :
    idx l i t = .ok (a, t') ↔ l[i]? = some a ∧ t' = t := ofOpt_ok_iff _ _ _ _

theorem idx_run {α} {l : List α} {i : Nat} {a : α} (h : l[i]? = some a) (t : List Draw) :
    idx l i t = .ok (a, t) := ofOpt_run h t

theorem idx_run_lt {l : List Int} {i : Nat} (h : i < l.length) (d : Int) (t : List Draw) :
    idx l i t = .ok (l.getD i d, t) := by
  apply idx_run
  rw [List.getD_eq_getElem?_getD, List.getElem?_eq_getElem h]; rfl

theorem getElem?_getD {l : List Int} {i : Nat} {a : Int} (h : l[i]? = some a) (d : Int) :
    l.getD i d = a ∧ i < l.length := by
  rw [List.getD_eq_getElem?_getD, h]
  exact ⟨rfl, (List.getElem?_eq_some_iff.1 h).1⟩

theorem pow_toNat_add (a : Int) {e f : Int} (he : 0 ≤ e) (hf : 0 ≤ f) :
    a ^ (e + f).toNat = a ^ e.toNat * a ^ f.toNat := by
  rw [Int.toNat_add he hf, pow_add]

theorem pow_toNat_mul (a : Int) {c m : Int} (hc : 0 ≤ c) (hm : 0 ≤ m) :
    a ^ (c * m).toNat = (a ^ m.toNat) ^ c.toNat := by
  rw [Int.toNat_mul hc hm, mul_comm, pow_mul]

theorem hashInts_nonneg (l : List Int) : 0 ≤ hashInts l := by
  unfold hashInts; exact Int.natCast_nonneg _

/-! ## 3. Specification-level products and the product loops -/

/-- `Π_{i ∈ ix} bases[i]^{msgs[i]}` over `ℤ`. -/
def rep (bases msgs : List Int) (ix : List Nat) : Int :=
  (ix.map fun i => bases.getD i 1 ^ (msgs.getD i 0).toNat).prod

/-- `Π_j bases[ix[j]]^{es[j]}` over `ℤ`. -/
def repZip (bases : List Int) (ix : List Nat) (es : List Int) : Int :=
  (List.zipWith (fun i e => bases.getD i 1 ^ e.toNat) ix es).prod

@[simp] theorem rep_nil (bases msgs : List Int) : rep bases msgs [] = 1 := rfl
@[simp] theorem rep_cons (bases msgs : List Int) (i : Nat) (is : List Nat) :
    rep bases msgs (i :: is) = bases.getD i 1 ^ (msgs.getD i 0).toNat * rep bases msgs is := by
  simp [rep]
theorem rep_append (bases msgs : List Int) (l₁ l₂ : List Nat) :
    rep bases msgs (l₁ ++ l₂) = rep bases msgs l₁ * rep bases msgs l₂ := by
  simp [rep]
theorem rep_perm (bases msgs : List Int) {l₁ l₂ : List Nat} (h : l₁.Perm l₂) :
    rep bases msgs l₁ = rep bases msgs l₂ := (h.map _).prod_eq

@[simp] theorem repZip_nil_left (bases : List Int) (es : List Int) : repZip bases [] es = 1 := rfl
@[simp] theorem repZip_nil_right (bases : List Int) (ix : List Nat) : repZip bases ix [] = 1 := by
  simp [repZip]
@[simp] theorem repZip_cons (bases : List Int) (i : Nat) (is : List Nat) (e : Int) (es : List Int) :
    repZip bases (i :: is) (e :: es) = bases.getD i 1 ^ e.toNat * repZip bases is es := by
  simp [repZip]

/-- the revealed messages at the positions `R`. -/
def pick (msgs : List Int) (R : List Nat) : List Int := R.map fun i => msgs.getD i 0

theorem repZip_pick (bases msgs : List Int) (R : List Nat) :
    repZip bases R (pick msgs R) = rep bases msgs R := by
  induction R with
  | nil => rfl
  | cons i is ih =>
    show repZip bases (i :: is) (msgs.getD i 0 :: pick msgs is) = _
    rw [repZip_cons, rep_cons, ih]

theorem prodPowIdx_elim (hA : ArithOK) {N : Int} {bases msgs : List Int} :
    ∀ (ix : List Nat) (acc x : Int) (t t' : List Draw),
      (∀ i ∈ ix, 0 ≤ msgs.getD i 0) →
      prodPowIdx N bases msgs ix acc t = .ok (x, t') →
      t' = t ∧ (∀ i ∈ ix, i < bases.length ∧ i < msgs.length) ∧
        x ≡ acc * rep bases msgs ix [ZMOD N] ∧ (0 ≤ acc → 0 ≤ x) := by
  intro ix
  induction ix with
  | nil =>
    intro acc x t t' _ h
    simp only [prodPowIdx, pure_ok_iff] at h
    obtain ⟨rfl, rfl⟩ := h
    simp [Int.ModEq]
  | cons i is ih =>
    intro acc x t t' hm h
    simp only [prodPowIdx, bind_ok_iff, idx_ok_iff] at h
    obtain ⟨a, t1, ⟨ha, rfl⟩, m, t2, ⟨hmi, rfl⟩, y, t3, hy, hrest⟩ := h
    obtain ⟨ha1, ha2⟩ := getElem?_getD ha 1
    obtain ⟨hm1, hm2⟩ := getElem?_getD hmi 0
    have hm0 : 0 ≤ m := by rw [← hm1]; exact hm i (List.mem_cons_self)
    obtain ⟨rfl, hN, rfl⟩ := pw_elim_nonneg hA hm0 hy
    obtain ⟨rfl, hr, hx, hpos⟩ := ih _ _ _ _ (fun j hj => hm j (List.mem_cons_of_mem _ hj)) hrest
    refine ⟨rfl, ?_, ?_, ?_⟩
    · intro j hj
      rcases List.mem_cons.1 hj with rfl | hj
      · exact ⟨ha2, hm2⟩
      · exact hr j hj
    · rw [rep_cons, ha1, hm1]
      refine hx.trans ?_
      rw [← mul_assoc]
      exact ((Int.mod_modEq _ _).mul_left acc).mul_right _
    · intro h0
      exact hpos (mul_nonneg h0 (Int.emod_nonneg _ (ne_of_gt hN)))

theorem prodPowZip_elim (hA : ArithOK) {N : Int} {bases : List Int} :
    ∀ (ix : List Nat) (es : List Int) (acc x : Int) (t t' : List Draw),
      (∀ e ∈ es, 0 ≤ e) →
      prodPowZip N bases ix es acc t = .ok (x, t') →
      t' = t ∧ (∀ i ∈ ix, i < bases.length) ∧ ix.length ≤ es.length ∧
        x ≡ acc * repZip bases ix es [ZMOD N] ∧ (0 ≤ acc → 0 ≤ x) := by
  intro ix
  induction ix with
  | nil =>
    intro es acc x t t' _ h
    simp only [prodPowZip, pure_ok_iff] at h
    obtain ⟨rfl, rfl⟩ := h
    simp [Int.ModEq]
  | cons i is ih =>
    intro es acc x t t' hes h
    simp only [prodPowZip, bind_ok_iff, idx_ok_iff] at h
    obtain ⟨a, t1, ⟨ha, rfl⟩, e, t2, ⟨he, rfl⟩, y, t3, hy, hrest⟩ := h
    obtain ⟨ha1, ha2⟩ := getElem?_getD ha 1
    cases es with
    | nil => simp at he
    | cons e' es' =>
      simp only [List.getElem?_cons_zero, Option.some.injEq] at he
      subst he
      have he0 : 0 ≤ e' := hes e' List.mem_cons_self
      obtain ⟨rfl, hN, rfl⟩ := pw_elim_nonneg hA he0 hy
      obtain ⟨rfl, hr, hlen, hx, hpos⟩ :=
        ih _ _ _ _ _ (fun j hj => hes j (List.mem_cons_of_mem _ hj)) hrest
      refine ⟨rfl, ?_, ?_, ?_, ?_⟩
      · intro j hj
        rcases List.mem_cons.1 hj with rfl | hj
        · exact ha2
        · exact hr j hj
      · simp only [List.length_cons]; omega
      · rw [repZip_cons, ha1]
        refine hx.trans ?_
        rw [← mul_assoc]
        exact ((Int.mod_modEq _ _).mul_left acc).mul_right _
      · intro h0
        exact hpos (mul_nonneg h0 (Int.emod_nonneg _ (ne_of_gt hN)))

theorem prodPowZip_run (hA : ArithOK) {N : Int} {bases : List Int} (hN : 0 < N) :
    ∀ (ix : List Nat) (es : List Int) (acc : Int) (t : List Draw),
      (∀ i ∈ ix, i < bases.length) → ix.length ≤ es.length → (∀ e ∈ es, 0 ≤ e) →
      ∃ x, prodPowZip N bases ix es acc t = .ok (x, t) := by
  intro ix
  induction ix with
  | nil => intro es acc t _ _ _; exact ⟨acc, rfl⟩
  | cons i is ih =>
    intro es acc t hix hlen hes
    cases es with
    | nil => simp at hlen
    | cons e es' =>
      have hi : i < bases.length := hix i List.mem_cons_self
      have he0 : 0 ≤ e := hes e List.mem_cons_self
      obtain ⟨x, hx⟩ := ih es' (acc * (bases.getD i 1 ^ e.toNat % N)) t
        (fun j hj => hix j (List.mem_cons_of_mem _ hj))
        (by simp only [List.length_cons] at hlen; omega)
        (fun j hj => hes j (List.mem_cons_of_mem _ hj))
      refine ⟨x, ?_⟩
      simp only [prodPowZip]
      rw [bind_of_ok (idx_run_lt hi 1 t), bind_of_ok (idx_run (l := e :: es') (i := 0) (a := e) rfl t),
        bind_of_ok (pw_run_nonneg hA hN he0 t)]
      exact hx

/-- `r[j] + c * msgs[ix[j]]`. -/
def respList (c : Int) (msgs : List Int) (ix : List Nat) (rs : List Int) : List Int :=
  List.zipWith (fun i r => r + c * msgs.getD i 0) ix rs

theorem responses_elim {c : Int} {msgs : List Int} :
    ∀ (ix : List Nat) (rs s : List Int) (t t' : List Draw),
      responses c msgs ix rs t = .ok (s, t') →
      t' = t ∧ ix.length ≤ rs.length ∧ (∀ i ∈ ix, i < msgs.length) ∧ s = respList c msgs ix rs := by
  intro ix
  induction ix with
  | nil =>
    intro rs s t t' h
    simp only [responses, pure_ok_iff] at h
    obtain ⟨rfl, rfl⟩ := h
    simp [respList]
  | cons i is ih =>
    intro rs s t t' h
    simp only [responses, bind_ok_iff, idx_ok_iff, pure_ok_iff] at h
    obtain ⟨r, t1, ⟨hr, rfl⟩, m, t2, ⟨hm, rfl⟩, rest, t3, hrest, rfl, rfl⟩ := h
    obtain ⟨hm1, hm2⟩ := getElem?_getD hm 0
    cases rs with
    | nil => simp at hr
    | cons r' rs' =>
      simp only [List.getElem?_cons_zero, Option.some.injEq] at hr
      subst hr
      obtain ⟨rfl, hlen, hin, rfl⟩ := ih _ _ _ _ hrest
      refine ⟨rfl, by simpa using hlen, ?_, ?_⟩
      · intro j hj
        rcases List.mem_cons.1 hj with rfl | hj
        · exact hm2
        · exact hin j hj
      · show _ = (r' + c * msgs.getD i 0) :: respList c msgs is rs'
        rw [hm1]; rfl

theorem respList_length {c : Int} {msgs : List Int} {ix : List Nat} {rs : List Int}
    (h : ix.length ≤ rs.length) : (respList c msgs ix rs).length = ix.length := by
  simp [respList]; omega

theorem respList_nonneg {c : Int} {msgs : List Int} (hc : 0 ≤ c) :
    ∀ (ix : List Nat) (rs : List Int), (∀ r ∈ rs, 0 ≤ r) → (∀ i ∈ ix, 0 ≤ msgs.getD i 0) →
      ∀ s ∈ respList c msgs ix rs, 0 ≤ s := by
  intro ix
  induction ix with
  | nil => intro rs _ _ s hs; simp [respList] at hs
  | cons i is ih =>
    intro rs hrs hm s hs
    cases rs with
    | nil => simp [respList] at hs
    | cons r rs' =>
      simp only [respList, List.zipWith_cons_cons, List.mem_cons] at hs
      rcases hs with rfl | hs
      · exact add_nonneg (hrs r List.mem_cons_self) (mul_nonneg hc (hm i List.mem_cons_self))
      · exact ih rs' (fun j hj => hrs j (List.mem_cons_of_mem _ hj))
          (fun j hj => hm j (List.mem_cons_of_mem _ hj)) s hs

/-- the algebraic heart of multi-secret completeness. -/
theorem repZip_resp (bases msgs : List Int) {c : Int} (hc : 0 ≤ c) :
    ∀ (ix : List Nat) (rs : List Int), ix.length ≤ rs.length → (∀ r ∈ rs, 0 ≤ r) →
      (∀ i ∈ ix, 0 ≤ msgs.getD i 0) →
      repZip bases ix (respList c msgs ix rs) = repZip bases ix rs * rep bases msgs ix ^ c.toNat := by
  intro ix
  induction ix with
  | nil => intro rs _ _ _; simp [respList]
  | cons i is ih =>
    intro rs hlen hrs hm
    cases rs with
    | nil => simp at hlen
    | cons r rs' =>
      have hr0 : 0 ≤ r := hrs r List.mem_cons_self
      have hm0 : 0 ≤ msgs.getD i 0 := hm i List.mem_cons_self
      have := ih rs' (by simp only [List.length_cons] at hlen; omega)
        (fun j hj => hrs j (List.mem_cons_of_mem _ hj))
        (fun j hj => hm j (List.mem_cons_of_mem _ hj))
      simp only [respList, List.zipWith_cons_cons] at this ⊢
      rw [repZip_cons, repZip_cons, rep_cons, this,
        pow_toNat_add _ hr0 (mul_nonneg hc hm0), pow_toNat_mul _ hc hm0]
      ring

theorem drawBitsList_elim {n : Nat} :
    ∀ (k : Nat) (xs : List Int) (t t' : List Draw), drawBitsList n k t = .ok (xs, t') →
      xs.length = k ∧ ∀ x ∈ xs, 0 ≤ x := by
  intro k
  induction k with
  | zero =>
    intro xs t t' h
    simp only [drawBitsList, pure_ok_iff] at h
    obtain ⟨rfl, rfl⟩ := h
    simp
  | succ k ih =>
    intro xs t t' h
    simp only [drawBitsList, bind_ok_iff, pure_ok_iff] at h
    obtain ⟨x, t1, hx, rest, t2, hrest, rfl, rfl⟩ := h
    obtain ⟨hl, hp⟩ := ih _ _ _ hrest
    refine ⟨by simp [hl], ?_⟩
    intro y hy
    rcases List.mem_cons.1 hy with rfl | hy
    · exact (randomBits_elim hx).1
    · exact hp y hy

theorem mapM_idx_elim {bases : List Int} :
    ∀ (ix : List Nat) (as : List Int) (t t' : List Draw), ix.mapM (idx bases) t = .ok (as, t') →
      t' = t ∧ as = ix.map (fun i => bases.getD i 1) ∧ ∀ i ∈ ix, i < bases.length := by
  intro ix
  induction ix with
  | nil =>
    intro as t t' h
    simp only [List.mapM_nil, pure_ok_iff] at h
    obtain ⟨rfl, rfl⟩ := h
    simp
  | cons i is ih =>
    intro as t t' h
    simp only [List.mapM_cons, bind_ok_iff, idx_ok_iff, pure_ok_iff] at h
    obtain ⟨a, t1, ⟨ha, rfl⟩, rest, t2, hrest, rfl, rfl⟩ := h
    obtain ⟨ha1, ha2⟩ := getElem?_getD ha 1
    obtain ⟨rfl, rfl, hin⟩ := ih _ _ _ hrest
    refine ⟨rfl, by rw [List.map_cons, ha1], ?_⟩
    intro j hj
    rcases List.mem_cons.1 hj with rfl | hj
    · exact ha2
    · exact hin j hj

theorem mapM_idx_run {bases : List Int} :
    ∀ (ix : List Nat) (t : List Draw), (∀ i ∈ ix, i < bases.length) →
      ix.mapM (idx bases) t = .ok (ix.map (fun i => bases.getD i 1), t) := by
  intro ix
  induction ix with
  | nil => intro t _; rfl
  | cons i is ih =>
    intro t h
    rw [List.mapM_cons, bind_of_ok (idx_run_lt (h i List.mem_cons_self) 1 t),
      bind_of_ok (ih t (fun j hj => h j (List.mem_cons_of_mem _ hj)))]
    rfl

/-! ## 4. `nisp2sec`: proof of knowledge of a two-base representation -/

/-- What `nisp2sec_verify_proof` computes when the responses are non-negative (always the case for honest
provers with non-negative secrets): the comparison of two canonical residues. -/
theorem nisp2secVerify_run (hA : ArithOK) (π : NISPSecrets) (cv g h n : Int) (hn : 0 < n)
    (h1 : 0 ≤ π.s1) (h2 : 0 ≤ π.s2) (s : List Draw) :
    nisp2secVerify π cv g h n s =
      .ok (tmod (g ^ π.s1.toNat % n * (h ^ π.s2.toNat % n)) n ==
            tmod (π.t * (cv ^ (hashInts [g, h, cv, π.t]).toNat % n)) n, s) := by
  unfold nisp2secVerify
  rw [bind_of_ok (pw_run_nonneg hA hn h1 s), bind_of_ok (pw_run_nonneg hA hn h2 s)]
  dsimp only
  rw [bind_of_ok (pw_run_nonneg hA hn (hashInts_nonneg _) s)]
  rfl

/-- **Completeness of `nisp2sec`**, for every tape on which the prover terminates normally: if `c` is a
commitment `g^m · h^r (mod n)` to a non-negative `m` with non-negative randomness `r = c.randomness`, the
verifier accepts (on any tape, consuming nothing). No assumption on `g`, `h` (not even invertibility). -/
theorem nisp2sec_complete (hA : ArithOK) (cs : Suite) (m : Int) (c : Commitment) (g h n : Int)
    (t t' : List Draw) (π : NISPSecrets) (hm : 0 ≤ m) (hr : 0 ≤ c.randomness)
    (hC : c.value ≡ g ^ m.toNat * h ^ c.randomness.toNat [ZMOD n])
    (hgen : nisp2secGen cs m c g h n t = .ok (π, t')) (s : List Draw) :
    nisp2secVerify π c.value g h n s = .ok (true, s) := by
  unfold nisp2secGen at hgen
  simp only [bind_ok_iff, pure_ok_iff] at hgen
  obtain ⟨r1, t1, hr1, r2, t2, hr2, a, t3, ha, b, t4, hb, rfl, rfl⟩ := hgen
  have hr1' := (randomBits_elim hr1).1
  have hr2' := (randomBits_elim hr2).1
  obtain ⟨rfl, hn, rfl⟩ := pw_elim_nonneg hA hr1' ha
  obtain ⟨rfl, -, rfl⟩ := pw_elim_nonneg hA hr2' hb
  have hn' : n ≠ 0 := ne_of_gt hn
  have hab : 0 ≤ g ^ r1.toNat % n * (h ^ r2.toNat % n) :=
    mul_nonneg (Int.emod_nonneg _ hn') (Int.emod_nonneg _ hn')
  set T := tmod (g ^ r1.toNat % n * (h ^ r2.toNat % n)) n with hT
  have hTv : T = g ^ r1.toNat % n * (h ^ r2.toNat % n) % n := tmod_nonneg n hab
  have hT0 : 0 ≤ T := by rw [hTv]; exact Int.emod_nonneg _ hn'
  set ch := hashInts [g, h, c.value, T] with hch
  have hc0 : 0 ≤ ch := hashInts_nonneg _
  have hs1 : 0 ≤ r1 + ch * m := add_nonneg hr1' (mul_nonneg hc0 hm)
  have hs2 : 0 ≤ r2 + ch * c.randomness := add_nonneg hr2' (mul_nonneg hc0 hr)
  rw [nisp2secVerify_run hA _ _ _ _ _ hn hs1 hs2]
  dsimp only
  rw [← hch]
  congr 2
  rw [beq_iff_eq, tmod_nonneg n (mul_nonneg (Int.emod_nonneg _ hn') (Int.emod_nonneg _ hn')),
    tmod_nonneg n (mul_nonneg hT0 (Int.emod_nonneg _ hn'))]
  show _ ≡ _ [ZMOD n]
  have e1 : g ^ (r1 + ch * m).toNat % n * (h ^ (r2 + ch * c.randomness).toNat % n) ≡
      g ^ r1.toNat * (g ^ m.toNat) ^ ch.toNat * (h ^ r2.toNat * (h ^ c.randomness.toNat) ^ ch.toNat)
        [ZMOD n] := by
    rw [← pow_toNat_mul _ hc0 hm, ← pow_toNat_mul _ hc0 hr, ← pow_toNat_add _ hr1' (mul_nonneg hc0 hm),
      ← pow_toNat_add _ hr2' (mul_nonneg hc0 hr)]
    exact (Int.mod_modEq _ _).mul (Int.mod_modEq _ _)
  have e2 : T * (c.value ^ ch.toNat % n) ≡
      g ^ r1.toNat * h ^ r2.toNat * (g ^ m.toNat * h ^ c.randomness.toNat) ^ ch.toNat [ZMOD n] := by
    refine Int.ModEq.mul ?_ ((Int.mod_modEq _ _).trans (hC.pow _))
    rw [hTv]
    exact (Int.mod_modEq _ _).trans ((Int.mod_modEq _ _).mul (Int.mod_modEq _ _))
  refine e1.trans (Int.ModEq.trans ?_ e2.symm)
  rw [mul_pow]
  have : g ^ r1.toNat * (g ^ m.toNat) ^ ch.toNat * (h ^ r2.toNat * (h ^ c.randomness.toNat) ^ ch.toNat) =
      g ^ r1.toNat * h ^ r2.toNat * ((g ^ m.toNat) ^ ch.toNat * (h ^ c.randomness.toNat) ^ ch.toNat) := by
    ring
  rw [this]

/-! ## 5. `nispMultiSecrets`: proof of knowledge of a multi-base representation -/

/-- What `nispMultiSecrets_verify_proof` computes when the responses are non-negative. -/
theorem nispMultiSecretsVerify_run (hA : ArithOK) (π : NISPMultiSecrets) (cv : Int) (pk : PublicKey)
    (bases : List Int) (uo : Option (List Nat)) (hN : 0 < pk.N)
    (hin : ∀ i ∈ uo.getD [0], i < bases.length) (hlen : (uo.getD [0]).length = π.s1.length)
    (h1 : ∀ e ∈ π.s1, 0 ≤ e) (h2 : 0 ≤ π.s2) (s : List Draw) :
    ∃ x, x ≡ repZip bases (uo.getD [0]) π.s1 [ZMOD pk.N] ∧ 0 ≤ x ∧
      nispMultiSecretsVerify π cv pk bases uo s =
        .ok (tmod (x * (pk.b ^ π.s2.toNat % pk.N)) pk.N ==
              tmod (π.t * (cv ^ (hashInts ((uo.getD [0]).map (fun i => bases.getD i 1) ++
                [pk.b, cv, π.t])).toNat % pk.N)) pk.N, s) := by
  obtain ⟨x, hx⟩ := prodPowZip_run hA hN (uo.getD [0]) π.s1 1 s hin (le_of_eq hlen) h1
  obtain ⟨-, -, -, hxe, hx0⟩ := prodPowZip_elim hA _ _ _ _ _ _ h1 hx
  refine ⟨x, by simpa using hxe, hx0 (by norm_num), ?_⟩
  unfold nispMultiSecretsVerify
  dsimp only
  rw [if_neg (not_not.2 hlen), bind_of_ok hx, bind_of_ok (mapM_idx_run _ s hin),
    bind_of_ok (pw_run_nonneg hA hN h2 s), bind_of_ok (pw_run_nonneg hA hN (hashInts_nonneg _) s)]
  rfl

/-- **Completeness of `nispMultiSecrets`** for every hidden index list (any positions, any order, repeats
allowed), for every tape on which the prover terminates normally.

The prover replaces the index list by `[0]` when there is exactly one message, the verifier does not:
the theorem therefore needs `msgs.length ≠ 1 ∨ the list is [0]`; see `nispMultiSecrets_single_mismatch`
for the other case. `uo = none` means `[0]` for both sides. -/
theorem nispMultiSecrets_complete (hA : ArithOK) (cs : Suite) (msgs : List Int) (c : Commitment)
    (pk : PublicKey) (bases : List Int) (uo : Option (List Nat)) (t t' : List Draw)
    (π : NISPMultiSecrets) (hU : msgs.length ≠ 1 ∨ uo.getD [0] = [0])
    (hm : ∀ i ∈ uo.getD [0], 0 ≤ msgs.getD i 0) (hr : 0 ≤ c.randomness)
    (hC : c.value ≡ rep bases msgs (uo.getD [0]) * pk.b ^ c.randomness.toNat [ZMOD pk.N])
    (hgen : nispMultiSecretsGen cs msgs c pk bases uo t = .ok (π, t')) (s : List Draw) :
    nispMultiSecretsVerify π c.value pk bases uo s = .ok (true, s) := by
  have hix : (if msgs.length = 1 then [0] else uo.getD [0]) = uo.getD [0] := by
    rcases hU with h | h
    · rw [if_neg h]
    · split
      · exact h.symm
      · rfl
  unfold nispMultiSecretsGen at hgen
  simp only [hix, bind_ok_iff, pure_ok_iff] at hgen
  obtain ⟨r1, t1, hr1, r2, t2, hr2, x, t3, hx, as, t4, has, hb, t5, hhb, s1, t6, hs1, rfl, rfl⟩ := hgen
  set ix := uo.getD [0] with hixd
  obtain ⟨hr1l, hr1p⟩ := drawBitsList_elim _ _ _ _ hr1
  have hr2' := (randomBits_elim hr2).1
  obtain ⟨rfl, hin, -, hxe, hx0⟩ := prodPowZip_elim hA _ _ _ _ _ _ hr1p hx
  obtain ⟨rfl, rfl, -⟩ := mapM_idx_elim _ _ _ _ has
  obtain ⟨rfl, hN, rfl⟩ := pw_elim_nonneg hA hr2' hhb
  have hN' : pk.N ≠ 0 := ne_of_gt hN
  have hx0' : 0 ≤ x := hx0 (by norm_num)
  set T := tmod (x * (pk.b ^ r2.toNat % pk.N)) pk.N with hT
  have hTv : T = x * (pk.b ^ r2.toNat % pk.N) % pk.N :=
    tmod_nonneg _ (mul_nonneg hx0' (Int.emod_nonneg _ hN'))
  have hT0 : 0 ≤ T := by rw [hTv]; exact Int.emod_nonneg _ hN'
  set ch := hashInts (List.map (fun i => bases.getD i 1) ix ++ [pk.b, c.value, T]) with hch
  have hc0 : 0 ≤ ch := hashInts_nonneg _
  obtain ⟨rfl, hlen, -, rfl⟩ := responses_elim _ _ _ _ _ hs1
  have hs2 : 0 ≤ r2 + ch * c.randomness := add_nonneg hr2' (mul_nonneg hc0 hr)
  obtain ⟨y, hye, hy0, hrun⟩ := nispMultiSecretsVerify_run hA
    ⟨T, respList ch msgs ix r1, r2 + ch * c.randomness⟩ c.value pk bases uo hN hin
    (by rw [← hixd]; exact (respList_length hlen).symm) (respList_nonneg hc0 _ _ hr1p hm) hs2 s
  rw [hrun]
  dsimp only
  rw [← hixd, ← hch]
  congr 2
  rw [beq_iff_eq, tmod_nonneg _ (mul_nonneg hy0 (Int.emod_nonneg _ hN')),
    tmod_nonneg _ (mul_nonneg hT0 (Int.emod_nonneg _ hN'))]
  show _ ≡ _ [ZMOD pk.N]
  rw [← hixd] at hye
  dsimp only at hye
  rw [repZip_resp bases msgs hc0 ix r1 hlen hr1p hm] at hye
  have e1 : y * (pk.b ^ (r2 + ch * c.randomness).toNat % pk.N) ≡
      repZip bases ix r1 * rep bases msgs ix ^ ch.toNat *
        (pk.b ^ r2.toNat * (pk.b ^ c.randomness.toNat) ^ ch.toNat) [ZMOD pk.N] := by
    rw [← pow_toNat_mul _ hc0 hr, ← pow_toNat_add _ hr2' (mul_nonneg hc0 hr)]
    exact hye.mul (Int.mod_modEq _ _)
  have e2 : T * (c.value ^ ch.toNat % pk.N) ≡
      repZip bases ix r1 * pk.b ^ r2.toNat *
        (rep bases msgs ix * pk.b ^ c.randomness.toNat) ^ ch.toNat [ZMOD pk.N] := by
    refine Int.ModEq.mul ?_ ((Int.mod_modEq _ _).trans (hC.pow _))
    rw [hTv]
    refine (Int.mod_modEq _ _).trans (Int.ModEq.mul ?_ (Int.mod_modEq _ _))
    simpa using hxe
  refine e1.trans (Int.ModEq.trans ?_ e2.symm)
  rw [mul_pow]
  have : repZip bases ix r1 * rep bases msgs ix ^ ch.toNat *
        (pk.b ^ r2.toNat * (pk.b ^ c.randomness.toNat) ^ ch.toNat) =
      repZip bases ix r1 * pk.b ^ r2.toNat *
        (rep bases msgs ix ^ ch.toNat * (pk.b ^ c.randomness.toNat) ^ ch.toNat) := by ring
  rw [this]

/-- The other case: one message and an index list of another length: the prover answers for `[0]`, the
verifier's length check fails and `nispMultiSecrets_verify_proof` PANICS (Rust: `panic!`). For a
one-element list `[k]`, `k ≠ 0`, the verifier instead uses base `a_k` where the prover used `a_0`:
no completeness claim can be made (acceptance would need `a_k^{s} ≡ a_0^{s}`). -/
theorem nispMultiSecrets_single_mismatch (cs : Suite) (msgs : List Int) (c : Commitment)
    (pk : PublicKey) (bases : List Int) (U : List Nat) (t t' : List Draw) (π : NISPMultiSecrets)
    (h1 : msgs.length = 1) (hU : U.length ≠ 1)
    (hgen : nispMultiSecretsGen cs msgs c pk bases (some U) t = .ok (π, t')) (cv : Int) (s : List Draw) :
    nispMultiSecretsVerify π cv pk bases (some U) s = .panic := by
  unfold nispMultiSecretsGen at hgen
  simp only [h1, if_true, bind_ok_iff, pure_ok_iff] at hgen
  obtain ⟨r1, t1, hr1, r2, t2, hr2, x, t3, hx, as, t4, has, hb, t5, hhb, s1, t6, hs1, rfl, rfl⟩ := hgen
  obtain ⟨hr1l, -⟩ := drawBitsList_elim _ _ _ _ hr1
  obtain ⟨-, hlen, -, rfl⟩ := responses_elim _ _ _ _ _ hs1
  unfold nispMultiSecretsVerify
  dsimp only
  rw [if_pos]
  · rfl
  · rw [Option.getD_some, respList_length hlen]; simpa using hU

/-! ## 6. Units modulo `N`, Euler, `tmod`, bit lengths -/

theorem tmod_modEq (a n : Int) : tmod a n ≡ a [ZMOD n] := by
  apply Int.modEq_iff_dvd.2
  refine ⟨a.tdiv n, ?_⟩
  have := Int.tmod_add_mul_tdiv a n
  unfold tmod; linarith

theorem cop_iff {a n : Int} : Int.gcd a n = 1 ↔ IsCoprime a n := Int.isCoprime_iff_gcd_eq_one.symm

theorem cop_of_modEq {a b n : Int} (h : a ≡ b [ZMOD n]) (hb : IsCoprime b n) : IsCoprime a n := by
  rw [← cop_iff] at hb ⊢
  rw [← Int.gcd_emod, h.eq, Int.gcd_emod]; exact hb

theorem cop_emod {a n : Int} (h : IsCoprime a n) : IsCoprime (a % n) n :=
  cop_of_modEq (Int.mod_modEq a n) h

theorem cop_one (n : Int) : IsCoprime 1 n := isCoprime_one_left

/-- a non-negative unit modulo `n > 1` is positive (`0` is not a unit) -/
theorem pos_of_cop {x n : Int} (hn : 1 < n) (h : IsCoprime x n) (h0 : 0 ≤ x) : 0 < x := by
  rcases h0.lt_or_eq with h1 | h1
  · exact h1
  · subst h1
    rcases Int.isUnit_iff.1 (isCoprime_zero_left.1 h) with h2 | h2 <;> omega

/-- the reduced residue of a unit modulo `n > 1` lies in `(0, n)`: what `pow_mod` returns for a unit base. -/
theorem emod_unit_reduced {x n : Int} (hn : 1 < n) (h : IsCoprime x n) : 0 < x % n ∧ x % n < n :=
  ⟨pos_of_cop hn (cop_emod h) (Int.emod_nonneg _ (by omega)), Int.emod_lt_of_pos _ (by omega)⟩

theorem cop_getD {bases : List Int} {N : Int} (h : ∀ a ∈ bases, Int.gcd a N = 1) (i : Nat) :
    IsCoprime (bases.getD i 1) N := by
  rw [List.getD_eq_getElem?_getD]
  cases hi : bases[i]? with
  | none => exact cop_one N
  | some a => exact cop_iff.1 (h a (List.mem_of_getElem? hi))

theorem cop_rep {bases : List Int} {N : Int} (h : ∀ a ∈ bases, Int.gcd a N = 1) (msgs : List Int)
    (ix : List Nat) : IsCoprime (rep bases msgs ix) N := by
  induction ix with
  | nil => exact cop_one N
  | cons i is ih => rw [rep_cons]; exact ((cop_getD h i).pow_left).mul_left ih

theorem bitLen_lt {v : Int} {n : Nat} (h0 : 0 ≤ v) (h : bitLen v = n) : v < 2 ^ n := by
  unfold bitLen at h
  split at h
  · rename_i hv
    have : v = 0 := by simpa using hv
    subst this; positivity
  · subst h
    have h1 : v.natAbs < 2 ^ (v.natAbs.log2 + 1) := Nat.lt_log2_self
    have h2 : v = (v.natAbs : Int) := by omega
    rw [h2]
    exact_mod_cast h1

/-- Euler: `x^φ(n) ≡ 1 (mod n)` for `x` coprime to `n`. -/
theorem pow_totient_modEq {x : Int} {n : Nat} (hc : IsCoprime x (n : Int)) :
    x ^ Nat.totient n ≡ 1 [ZMOD n] := by
  obtain ⟨u, v, huv⟩ := hc
  have h1 : (u : ZMod n) * (x : ZMod n) = 1 := by
    have := congrArg (Int.cast : ℤ → ZMod n) huv
    simpa using this
  let U : (ZMod n)ˣ := ⟨x, u, by rw [mul_comm]; exact h1, h1⟩
  have h2 : ((U ^ Nat.totient n : (ZMod n)ˣ) : ZMod n) = 1 := by rw [ZMod.pow_totient]; rfl
  rw [Units.val_pow_eq_pow_val] at h2
  have h3 : ((x ^ Nat.totient n : ℤ) : ZMod n) = ((1 : ℤ) : ZMod n) := by
    push_cast
    exact h2
  exact (ZMod.intCast_eq_intCast_iff _ _ _).1 h3

/-- The RSA root: for `N = p·q` (distinct primes), `e·d ≡ 1 (mod (p-1)(q-1))` and `x` coprime to `N`,
`(x^d mod N)^e ≡ x (mod N)`. -/
theorem euler_root {p q N x e d : Int} (hp : Nat.Prime p.toNat) (hq : Nat.Prime q.toNat) (hpq : p ≠ q)
    (hN : N = p * q) (hx : IsCoprime x N) (he : 0 ≤ e) (hd : 0 ≤ d)
    (hed : e * d % ((p - 1) * (q - 1)) = 1) :
    (x ^ d.toNat % N) ^ e.toNat ≡ x [ZMOD N] := by
  have hP2 := hp.two_le
  have hQ2 := hq.two_le
  have hpP : p = (p.toNat : Int) := by omega
  have hqQ : q = (q.toNat : Int) := by omega
  set P := p.toNat
  set Q := q.toNat
  have hne : P ≠ Q := by intro h; apply hpq; rw [hpP, hqQ, h]
  have hcop : Nat.Coprime P Q := (Nat.coprime_primes hp hq).2 hne
  have htot : Nat.totient (P * Q) = (P - 1) * (Q - 1) := by
    rw [Nat.totient_mul hcop, Nat.totient_prime hp, Nat.totient_prime hq]
  have hNn : N = ((P * Q : ℕ) : Int) := by rw [hN, hpP, hqQ]; push_cast; rfl
  have hphi : (p - 1) * (q - 1) = (((P - 1) * (Q - 1) : ℕ) : Int) := by
    have h1 : p - 1 = ((P - 1 : ℕ) : Int) := by omega
    have h2 : q - 1 = ((Q - 1 : ℕ) : Int) := by omega
    rw [h1, h2]; push_cast; rfl
  have hed' : e.toNat * d.toNat % ((P - 1) * (Q - 1)) = 1 := by
    have he' : e = (e.toNat : Int) := by omega
    have hd' : d = (d.toNat : Int) := by omega
    rw [hphi, he', hd'] at hed
    exact_mod_cast hed
  have hE : x ^ ((P - 1) * (Q - 1)) ≡ 1 [ZMOD N] := by
    rw [hNn, ← htot]
    exact pow_totient_modEq (by rw [← hNn]; exact hx)
  have hsplit := Nat.div_add_mod (e.toNat * d.toNat) ((P - 1) * (Q - 1))
  rw [hed'] at hsplit
  calc (x ^ d.toNat % N) ^ e.toNat ≡ (x ^ d.toNat) ^ e.toNat [ZMOD N] := (Int.mod_modEq _ _).pow _
    _ = x ^ (e.toNat * d.toNat) := by rw [← pow_mul, mul_comm]
    _ = (x ^ ((P - 1) * (Q - 1))) ^ (e.toNat * d.toNat / ((P - 1) * (Q - 1))) * x := by
        rw [← pow_mul, ← pow_succ, hsplit]
    _ ≡ 1 ^ (e.toNat * d.toNat / ((P - 1) * (Q - 1))) * x [ZMOD N] := (hE.pow _).mul_right _
    _ = x := by rw [one_pow, one_mul]

theorem phi_gt_one {p q : Int} (hp : Nat.Prime p.toNat) (hq : Nat.Prime q.toNat) (hpq : p ≠ q) :
    1 < (p - 1) * (q - 1) := by
  have hP2 := hp.two_le
  have hQ2 := hq.two_le
  have h1 : 1 ≤ p - 1 := by omega
  have h2 : 1 ≤ q - 1 := by omega
  rcases lt_or_gt_of_ne hpq with h | h
  · have : 2 ≤ q - 1 := by omega
    nlinarith
  · have : 2 ≤ p - 1 := by omega
    nlinarith

/-- `invert` succeeds on units and returns the inverse. -/
theorem invMod_of_gcd (hA : ArithOK) {a n : Int} (hn : 1 < n) (hg : Int.gcd a n = 1) :
    ∃ x, invMod a n = some x ∧ 0 ≤ x ∧ x < n ∧ a * x % n = 1 := by
  cases h : invMod a n with
  | none => exact absurd hg (hA.invMod_none a n hn h)
  | some x => exact ⟨x, rfl, hA.invMod_some a n x hn h⟩

/-- `pow_mod` with the exponent `-c` (`c ≥ 0`) on a unit: the inverse of `b^c`. -/
theorem pw_neg_run (hA : ArithOK) {b c n : Int} (hn : 1 < n) (hg : Int.gcd b n = 1) (hc : 0 ≤ c)
    (t : List Draw) :
    ∃ y, pw b (-c) n t = .ok (y, t) ∧ 0 ≤ y ∧ y * b ^ c.toNat ≡ 1 [ZMOD n] := by
  have hn0 : 0 < n := by omega
  rcases eq_or_lt_of_le hc with h0 | hpos
  · subst h0
    refine ⟨1 % n, ?_, Int.emod_nonneg _ (by omega), ?_⟩
    · have := pw_run_nonneg hA (b := b) hn0 (le_refl 0) t
      simpa using this
    · simpa using Int.mod_modEq 1 n
  · obtain ⟨x, hx, hx0, hxn, hxe⟩ := invMod_of_gcd hA hn hg
    refine ⟨x ^ c.toNat % n, ?_, Int.emod_nonneg _ (by omega), ?_⟩
    · apply pw_run
      rw [hA.powMod_neg b (-c) n hn0 (by omega), hx]
      simp
    · have h1 : b * x ≡ 1 [ZMOD n] := by
        show b * x % n = 1 % n
        rw [hxe, Int.emod_eq_of_lt (by norm_num) hn]
      calc x ^ c.toNat % n * b ^ c.toNat ≡ x ^ c.toNat * b ^ c.toNat [ZMOD n] :=
            (Int.mod_modEq _ _).mul_right _
        _ = (b * x) ^ c.toNat := by rw [mul_pow, mul_comm]
        _ ≡ 1 ^ c.toNat [ZMOD n] := h1.pow _
        _ = 1 := one_pow _

/-! ## 7. `nisp2`: the same hidden attributes under two commitments (two moduli) -/

/-- one side of the `nisp2` verification: the verifier recomputes the prover's first message exactly. -/
theorem nisp2_half {N : Int} {B msgs : List Int} {U : List Nat} {om : List Int}
    {hb cv r mu ch w0 l0 inv : Int} (hN : 1 < N) (hlen : U.length ≤ om.length)
    (hom : ∀ e ∈ om, 0 ≤ e) (hm : ∀ i ∈ U, 0 ≤ msgs.getD i 0) (hr : 0 ≤ r) (hmu : 0 ≤ mu) (hch : 0 ≤ ch)
    (hC : cv ≡ rep B msgs U * hb ^ r.toNat [ZMOD N])
    (hw0 : w0 ≡ repZip B U om [ZMOD N]) (hw00 : 0 ≤ w0)
    (hl0 : l0 ≡ repZip B U (respList ch msgs U om) [ZMOD N]) (hl00 : 0 ≤ l0)
    (hinv : inv * cv ^ ch.toNat ≡ 1 [ZMOD N]) (hinv0 : 0 ≤ inv) :
    tmod (l0 * (hb ^ (mu + ch * r).toNat % N) * inv) N = tmod (w0 * (hb ^ mu.toNat % N)) N := by
  have hN' : N ≠ 0 := by omega
  rw [tmod_nonneg _ (mul_nonneg (mul_nonneg hl00 (Int.emod_nonneg _ hN')) hinv0),
    tmod_nonneg _ (mul_nonneg hw00 (Int.emod_nonneg _ hN'))]
  show _ ≡ _ [ZMOD N]
  rw [repZip_resp B msgs hch U om hlen hom hm] at hl0
  have e1 : l0 * (hb ^ (mu + ch * r).toNat % N) * inv ≡
      repZip B U om * rep B msgs U ^ ch.toNat * (hb ^ mu.toNat * (hb ^ r.toNat) ^ ch.toNat) * inv
        [ZMOD N] := by
    rw [← pow_toNat_mul _ hch hr, ← pow_toNat_add _ hmu (mul_nonneg hch hr)]
    exact (hl0.mul (Int.mod_modEq _ _)).mul_right _
  have e2 : repZip B U om * rep B msgs U ^ ch.toNat * (hb ^ mu.toNat * (hb ^ r.toNat) ^ ch.toNat) * inv =
      repZip B U om * hb ^ mu.toNat * (inv * (rep B msgs U * hb ^ r.toNat) ^ ch.toNat) := by
    rw [mul_pow]; ring
  have e3 : inv * (rep B msgs U * hb ^ r.toNat) ^ ch.toNat ≡ 1 [ZMOD N] :=
    (((hC.pow _).symm).mul_left inv).trans hinv
  have e4 : w0 * (hb ^ mu.toNat % N) ≡ repZip B U om * hb ^ mu.toNat [ZMOD N] :=
    hw0.mul (Int.mod_modEq _ _)
  refine e1.trans (Int.ModEq.trans ?_ e4.symm)
  rw [e2]
  simpa using e3.mul_left (repZip B U om * hb ^ mu.toNat)

/-- **Completeness of `nisp2`** (equality of the hidden attributes committed under the signer's key and
under the trusted party's commitment key), for every hidden index list and every tape on which the prover
terminates. The verifier inverts the two commitment values, hence they must be units. -/
theorem nisp2_complete (hA : ArithOK) (cs : Suite) (msgs : List Int) (c1 c2 : Commitment)
    (pk : PublicKey) (bases : List Int) (cpk : CommitmentPK) (U : List Nat) (t t' : List Draw)
    (π : NISP2Commitments) (hN1 : 1 < pk.N) (hN2 : 1 < cpk.N)
    (hm : ∀ i ∈ U, 0 ≤ msgs.getD i 0) (hr1 : 0 ≤ c1.randomness) (hr2 : 0 ≤ c2.randomness)
    (hC1 : c1.value ≡ rep bases msgs U * pk.b ^ c1.randomness.toNat [ZMOD pk.N])
    (hC2 : c2.value ≡ rep cpk.gBases msgs U * cpk.h ^ c2.randomness.toNat [ZMOD cpk.N])
    (hu1 : Int.gcd c1.value pk.N = 1) (hu2 : Int.gcd c2.value cpk.N = 1)
    (hgen : nisp2Gen cs msgs c1 c2 pk bases cpk U t = .ok (π, t')) (s : List Draw) :
    nisp2Verify π c1.value c2.value pk bases cpk U s = .ok (true, s) := by
  unfold nisp2Gen at hgen
  split at hgen
  · cases hgen
  simp only [bind_ok_iff, pure_ok_iff] at hgen
  obtain ⟨om, t1, hom, mu1, t2, hmu1, mu2, t3, hmu2, w1, t4, hw1, w2, t5, hw2, h1, t6, hh1, h2, t7, hh2,
    d, t8, hd, rfl, rfl⟩ := hgen
  obtain ⟨homl, homp⟩ := drawBitsList_elim _ _ _ _ hom
  have hmu1' := (randomBits_elim hmu1).1
  have hmu2' := (randomBits_elim hmu2).1
  obtain ⟨rfl, hin1, hlen, hw1e, hw10⟩ := prodPowZip_elim hA _ _ _ _ _ _ homp hw1
  obtain ⟨rfl, hin2, -, hw2e, hw20⟩ := prodPowZip_elim hA _ _ _ _ _ _ homp hw2
  obtain ⟨rfl, -, rfl⟩ := pw_elim_nonneg hA hmu1' hh1
  obtain ⟨rfl, -, rfl⟩ := pw_elim_nonneg hA hmu2' hh2
  set ch := hashInts [tmod (w1 * (pk.b ^ mu1.toNat % pk.N)) pk.N,
    tmod (w2 * (cpk.h ^ mu2.toNat % cpk.N)) cpk.N] with hch
  have hc0 : 0 ≤ ch := hashInts_nonneg _
  obtain ⟨rfl, -, -, rfl⟩ := responses_elim _ _ _ _ _ hd
  have hn1 : 0 < pk.N := by omega
  have hn2 : 0 < cpk.N := by omega
  have hdl : U.length ≤ (respList ch msgs U om).length := le_of_eq (respList_length hlen).symm
  have hdp := respList_nonneg hc0 U om homp hm
  obtain ⟨i1, hi1, hi10, hi1e⟩ := pw_neg_run hA hN1 hu1 hc0 s
  obtain ⟨i2, hi2, hi20, hi2e⟩ := pw_neg_run hA hN2 hu2 hc0 s
  obtain ⟨l1, hl1⟩ := prodPowZip_run hA hn1 U (respList ch msgs U om) 1 s hin1 hdl hdp
  obtain ⟨l2, hl2⟩ := prodPowZip_run hA hn2 U (respList ch msgs U om) 1 s hin2 hdl hdp
  obtain ⟨-, -, -, hl1e, hl10⟩ := prodPowZip_elim hA _ _ _ _ _ _ hdp hl1
  obtain ⟨-, -, -, hl2e, hl20⟩ := prodPowZip_elim hA _ _ _ _ _ _ hdp hl2
  have hd1 : 0 ≤ mu1 + ch * c1.randomness := add_nonneg hmu1' (mul_nonneg hc0 hr1)
  have hd2 : 0 ≤ mu2 + ch * c2.randomness := add_nonneg hmu2' (mul_nonneg hc0 hr2)
  unfold nisp2Verify
  dsimp only
  rw [bind_of_ok hi1, bind_of_ok hi2, bind_of_ok hl1, bind_of_ok hl2,
    bind_of_ok (pw_run_nonneg hA hn1 hd1 s), bind_of_ok (pw_run_nonneg hA hn2 hd2 s), pure_run]
  rw [nisp2_half hN1 hlen homp hm hr1 hmu1' hc0 hC1 (by simpa using hw1e) (hw10 (by norm_num))
      (by simpa using hl1e) (hl10 (by norm_num)) hi1e hi10,
    nisp2_half hN2 hlen homp hm hr2 hmu2' hc0 hC2 (by simpa using hw2e) (hw20 (by norm_num))
      (by simpa using hl2e) (hl20 (by norm_num)) hi2e hi20]
  rw [← hch]
  simp

/-! ## 8. Commitments, the extension loop, the signature equation -/

theorem commitWithPk_elim (hA : ArithOK) {cs : Suite} {msgs : List Int} {pk : PublicKey}
    {bases : List Int} {uo : Option (List Nat)} {C : Commitment} {t t' : List Draw}
    (hm : ∀ i ∈ uo.getD (List.range msgs.length), 0 ≤ msgs.getD i 0)
    (h : commitWithPk cs msgs pk bases uo t = .ok (C, t')) :
    0 ≤ C.randomness ∧ bitLen C.randomness = cs.ln ∧ 0 < pk.N ∧
      (∀ i ∈ uo.getD (List.range msgs.length), i < bases.length ∧ i < msgs.length) ∧
      C.value ≡ rep bases msgs (uo.getD (List.range msgs.length)) * pk.b ^ C.randomness.toNat
        [ZMOD pk.N] ∧ 0 ≤ C.value ∧ C.value < pk.N := by
  unfold commitWithPk at h
  simp only [bind_ok_iff, pure_ok_iff] at h
  obtain ⟨r, t1, hr, cx, t2, hcx, br, t3, hbr, rfl, rfl⟩ := h
  obtain ⟨hr0, hrl, -⟩ := randomBits_elim hr
  obtain ⟨rfl, hin, hcxe, hcx0⟩ := prodPowIdx_elim hA _ _ _ _ _ hm hcx
  obtain ⟨rfl, hN, rfl⟩ := pw_elim_nonneg hA hr0 hbr
  have hN' : pk.N ≠ 0 := ne_of_gt hN
  have h0 : 0 ≤ cx * (pk.b ^ r.toNat % pk.N) :=
    mul_nonneg (hcx0 (by norm_num)) (Int.emod_nonneg _ hN')
  refine ⟨hr0, hrl, hN, hin, ?_, ?_, ?_⟩
  · dsimp only
    rw [tmod_nonneg _ h0]
    refine (Int.mod_modEq _ _).trans (Int.ModEq.mul ?_ (Int.mod_modEq _ _))
    simpa using hcxe
  · dsimp only; rw [tmod_nonneg _ h0]; exact Int.emod_nonneg _ hN'
  · dsimp only; rw [tmod_nonneg _ h0]; exact Int.emod_lt_of_pos _ hN

theorem commitWithCpk_elim (hA : ArithOK) {cs : Suite} {msgs : List Int} {cpk : CommitmentPK}
    {uo : Option (List Nat)} {C : Commitment} {t t' : List Draw}
    (hm : ∀ i ∈ uo.getD (List.range msgs.length), 0 ≤ msgs.getD i 0)
    (h : commitWithCpk cs msgs cpk uo t = .ok (C, t')) :
    0 ≤ C.randomness ∧ bitLen C.randomness = cs.ln ∧ 0 < cpk.N ∧
      (∀ i ∈ uo.getD (List.range msgs.length), i < cpk.gBases.length ∧ i < msgs.length) ∧
      C.value ≡ rep cpk.gBases msgs (uo.getD (List.range msgs.length)) * cpk.h ^ C.randomness.toNat
        [ZMOD cpk.N] ∧ 0 ≤ C.value ∧ C.value < cpk.N := by
  unfold commitWithCpk at h
  simp only [bind_ok_iff, pure_ok_iff] at h
  obtain ⟨r, t1, hr, cx, t2, hcx, br, t3, hbr, rfl, rfl⟩ := h
  obtain ⟨hr0, hrl, -⟩ := randomBits_elim hr
  obtain ⟨rfl, hin, hcxe, hcx0⟩ := prodPowIdx_elim hA _ _ _ _ _ hm hcx
  obtain ⟨rfl, hN, rfl⟩ := pw_elim_nonneg hA hr0 hbr
  have hN' : cpk.N ≠ 0 := ne_of_gt hN
  have h0 : 0 ≤ cx * (cpk.h ^ r.toNat % cpk.N) :=
    mul_nonneg (hcx0 (by norm_num)) (Int.emod_nonneg _ hN')
  refine ⟨hr0, hrl, hN, hin, ?_, ?_, ?_⟩
  · dsimp only
    rw [tmod_nonneg _ h0]
    refine (Int.mod_modEq _ _).trans (Int.ModEq.mul ?_ (Int.mod_modEq _ _))
    simpa using hcxe
  · dsimp only; rw [tmod_nonneg _ h0]; exact Int.emod_nonneg _ hN'
  · dsimp only; rw [tmod_nonneg _ h0]; exact Int.emod_lt_of_pos _ hN

theorem drop_of_getElem? {α} {l : List α} {k : Nat} {a : α} (h : l[k]? = some a) :
    l.drop k = a :: l.drop (k + 1) := by
  obtain ⟨hk, rfl⟩ := List.getElem?_eq_some_iff.1 h
  exact List.drop_eq_getElem_cons hk

theorem extendLoop_elim (hA : ArithOK) {N : Int} {bases revealed : List Int}
    (hrev : ∀ m ∈ revealed, 0 ≤ m) :
    ∀ (ix : List Nat) (k : Nat) (acc x : Int) (t t' : List Draw),
      extendLoop N bases revealed ix k acc t = .ok (x, t') →
      t' = t ∧ (∀ i ∈ ix, i < bases.length) ∧ k + ix.length ≤ revealed.length + (if ix = [] then k else 0) ∧
        x ≡ acc * repZip bases ix (revealed.drop k) [ZMOD N] := by
  intro ix
  induction ix with
  | nil =>
    intro k acc x t t' h
    simp only [extendLoop, pure_ok_iff] at h
    obtain ⟨rfl, rfl⟩ := h
    simp [Int.ModEq]
  | cons i is ih =>
    intro k acc x t t' h
    simp only [extendLoop, bind_ok_iff, idx_ok_iff] at h
    obtain ⟨a, t1, ⟨ha, rfl⟩, m, t2, ⟨hmk, rfl⟩, y, t3, hy, hrest⟩ := h
    obtain ⟨ha1, ha2⟩ := getElem?_getD ha 1
    have hk : k < revealed.length := (List.getElem?_eq_some_iff.1 hmk).1
    have hm0 : 0 ≤ m := hrev m (List.mem_of_getElem? hmk)
    obtain ⟨rfl, hN, rfl⟩ := pw_elim_nonneg hA hm0 hy
    obtain ⟨rfl, hr, hl, hx⟩ := ih _ _ _ _ _ hrest
    refine ⟨rfl, ?_, ?_, ?_⟩
    · intro j hj
      rcases List.mem_cons.1 hj with rfl | hj
      · exact ha2
      · exact hr j hj
    · simp only [List.length_cons, reduceCtorEq, if_false]
      split at hl <;> rename_i his
      · subst his; simp; omega
      · omega
    · rw [drop_of_getElem? hmk, repZip_cons, ha1]
      refine hx.trans ?_
      rw [← mul_assoc]
      exact ((tmod_modEq _ _).trans ((Int.mod_modEq _ _).mul_left acc)).mul_right _

theorem extendLoop_run (hA : ArithOK) {N : Int} {bases revealed : List Int} (hN : 0 < N)
    (hrev : ∀ m ∈ revealed, 0 ≤ m) :
    ∀ (ix : List Nat) (k : Nat) (acc : Int) (t : List Draw),
      (∀ i ∈ ix, i < bases.length) → k + ix.length ≤ revealed.length →
      ∃ x, extendLoop N bases revealed ix k acc t = .ok (x, t) := by
  intro ix
  induction ix with
  | nil => intro k acc t _ _; exact ⟨acc, rfl⟩
  | cons i is ih =>
    intro k acc t hix hlen
    simp only [List.length_cons] at hlen
    have hi : i < bases.length := hix i List.mem_cons_self
    have hk : k < revealed.length := by omega
    have hm0 : 0 ≤ revealed.getD k 0 := by
      rw [List.getD_eq_getElem?_getD, List.getElem?_eq_getElem hk]
      exact hrev _ (List.getElem_mem hk)
    obtain ⟨x, hx⟩ := ih (k + 1)
      (tmod (acc * (bases.getD i 1 ^ (revealed.getD k 0).toNat % N)) N) t
      (fun j hj => hix j (List.mem_cons_of_mem _ hj)) (by omega)
    refine ⟨x, ?_⟩
    simp only [extendLoop]
    rw [bind_of_ok (idx_run_lt hi 1 t), bind_of_ok (idx_run_lt hk 0 t),
      bind_of_ok (pw_run_nonneg hA hN hm0 t)]
    exact hx

theorem extend_elim (hA : ArithOK) {C : Commitment} {revealed : List Int} {pk : PublicKey}
    {bases : List Int} {R : List Nat} {ext : Commitment} {t t' : List Draw}
    (hrev : ∀ m ∈ revealed, 0 ≤ m)
    (h : extendCommitmentWithPk C revealed pk bases (some R) t = .ok (ext, t')) :
    t' = t ∧ R.length = revealed.length ∧ (∀ i ∈ R, i < bases.length) ∧
      ext.randomness = C.randomness ∧ ext.value ≡ C.value * repZip bases R revealed [ZMOD pk.N] := by
  unfold extendCommitmentWithPk at h
  simp only [Option.getD_some] at h
  split at h
  · cases h
  rename_i hlen
  simp only [bind_ok_iff, pure_ok_iff] at h
  obtain ⟨v, t1, hv, rfl, rfl⟩ := h
  obtain ⟨rfl, hin, -, hve⟩ := extendLoop_elim hA hrev _ _ _ _ _ _ hv
  exact ⟨rfl, not_not.1 hlen, hin, rfl, by simpa using hve⟩

theorem extend_run (hA : ArithOK) (C : Commitment) {revealed : List Int} {pk : PublicKey}
    {bases : List Int} {R : List Nat} (hN : 0 < pk.N) (hrev : ∀ m ∈ revealed, 0 ≤ m)
    (hlen : R.length = revealed.length) (hin : ∀ i ∈ R, i < bases.length) (t : List Draw) :
    ∃ ext, extendCommitmentWithPk C revealed pk bases (some R) t = .ok (ext, t) := by
  obtain ⟨x, hx⟩ := extendLoop_run hA hN hrev R 0 C.value t hin (by omega)
  refine ⟨⟨x, C.randomness⟩, ?_⟩
  unfold extendCommitmentWithPk
  simp only [Option.getD_some]
  rw [if_neg (not_not.2 hlen), bind_of_ok hx]
  rfl

/-- `Π_i bases[i]^{msgs[i]}` as computed by `verify_multiattr` / `sign_multiattr`. -/
theorem prodPow_run (hA : ArithOK) {N : Int} {bases msgs : List Int} (hN : 0 < N)
    (hb : msgs.length ≤ bases.length) (hm : ∀ m ∈ msgs, 0 ≤ m) :
    ∀ (k i : Nat) (acc : Int) (t : List Draw), i + k = msgs.length →
      ∃ x, prodPow N bases i (msgs.drop i) acc t = .ok (x, t) ∧
        x ≡ acc * rep bases msgs (List.range' i k) [ZMOD N] ∧ (0 ≤ acc → 0 ≤ x) := by
  intro k
  induction k with
  | zero =>
    intro i acc t hi
    rw [List.drop_eq_nil_of_le (by omega)]
    exact ⟨acc, rfl, by simp [Int.ModEq], id⟩
  | succ k ih =>
    intro i acc t hi
    have hil : i < msgs.length := by omega
    have hib : i < bases.length := by omega
    have hm0 : 0 ≤ msgs.getD i 0 := by
      rw [List.getD_eq_getElem?_getD, List.getElem?_eq_getElem hil]
      exact hm _ (List.getElem_mem hil)
    have hmi : msgs[i] = msgs.getD i 0 := by
      rw [List.getD_eq_getElem?_getD, List.getElem?_eq_getElem hil]; rfl
    obtain ⟨x, hx, hxe, hx0⟩ := ih (i + 1) (acc * (bases.getD i 1 ^ (msgs.getD i 0).toNat % N)) t (by omega)
    refine ⟨x, ?_, ?_, ?_⟩
    · rw [List.drop_eq_getElem_cons hil, hmi]
      simp only [prodPow]
      rw [bind_of_ok (idx_run_lt hib 1 t), bind_of_ok (pw_run_nonneg hA hN hm0 t)]
      exact hx
    · rw [List.range'_succ, rep_cons]
      refine hxe.trans ?_
      rw [← mul_assoc]
      exact ((Int.mod_modEq _ _).mul_left acc).mul_right _
    · intro h0
      exact hx0 (mul_nonneg h0 (Int.emod_nonneg _ (ne_of_gt hN)))

/-- What `verify_multiattr` computes on a well-formed input (all range checks pass). -/
theorem verifyMultiattr_run (hA : ArithOK) (cs : Suite) (σ : Signature) (pk : PublicKey)
    (bases msgs : List Int) (hN : 0 < pk.N) (hb : msgs.length ≤ bases.length)
    (hm : ∀ m ∈ msgs, 0 ≤ m ∧ m < 2 ^ cs.lm) (he : 2 ^ (cs.le - 1) < σ.e ∧ σ.e < 2 ^ cs.le)
    (hv : 0 < σ.v ∧ σ.v < pk.N) (hs : 0 ≤ σ.s) (s : List Draw) :
    ∃ x, x ≡ rep bases msgs (List.range msgs.length) [ZMOD pk.N] ∧ 0 ≤ x ∧
      verifyMultiattr cs σ pk bases msgs s =
        .ok (σ.v ^ σ.e.toNat % pk.N == tmod (x * (pk.b ^ σ.s.toNat % pk.N) * pk.c) pk.N, s) := by
  have he0 : 0 ≤ σ.e := le_of_lt (lt_trans (by positivity) he.1)
  obtain ⟨x, hx, hxe, hx0⟩ := prodPow_run hA hN hb (fun m h => (hm m h).1) msgs.length 0 1 s (by omega)
  rw [List.drop_zero] at hx
  refine ⟨x, by simpa [List.range_eq_range'] using hxe, hx0 (by norm_num), ?_⟩
  unfold verifyMultiattr
  rw [if_neg (by omega), bind_of_ok (pw_run_nonneg hA hN he0 s), bind_of_ok hx,
    bind_of_ok (pw_run_nonneg hA hN hs s)]
  have hany : (msgs.any fun m => decide (m < 0 ∨ m ≥ 2 ^ cs.lm)) = false := by
    rw [List.any_eq_false]
    intro m hmm
    have := hm m hmm
    simp only [decide_eq_true_eq]; omega
  rw [hany, if_neg Bool.false_ne_true, if_neg (by omega), if_neg (by omega)]
  rfl

/-! ## 9. The `e` loop and the issuer's computation -/

theorem gcd_eq_one {a b : Int} (h : Zk.IA.gcd a b = 1) : Int.gcd a b = 1 := by
  have h' : ((Int.gcd a b : Nat) : Int) = 1 := h
  exact_mod_cast h'

/-- the second half of `random_prime` (reads the prime and checks it against the `bits` draw). -/
def primeTail (r : Int) : M Int := fun t => match t with
  | [] => .tape "tape exhausted (prime)"
  | d :: rest =>
    if d.kind ≠ "prime" then .tape s!"expected prime, tape has {d.kind}"
    else if !isNextPrime r d.v then .tape "prime contract: not the next prime after the bits draw"
    else .ok (d.v, rest)

theorem randomPrime_eq (n : Nat) : randomPrime n = randomBits n >>= primeTail := rfl

theorem randomPrime_ne_panic (n : Nat) (t : List Draw) : randomPrime n t ≠ .panic := by
  rw [randomPrime_eq]
  intro h
  rw [bind_panic_iff] at h
  rcases h with h | ⟨r, t1, -, h⟩
  · exact randomBits_ne_panic _ _ h
  · unfold primeTail at h
    cases t1 with
    | nil => cases h
    | cons d rest =>
      simp only at h
      split at h
      · cases h
      · split at h <;> cases h

theorem drawE_elim {cs : Suite} {phi : Int} :
    ∀ (fuel : Nat) (e : Int) (t t' : List Draw), drawE cs phi fuel t = .ok (e, t') →
      2 ^ (cs.le - 1) < e ∧ e < 2 ^ cs.le ∧ Int.gcd e phi = 1 := by
  intro fuel
  induction fuel with
  | zero => intro e t t' h; cases h
  | succ fuel ih =>
    intro e t t' h
    simp only [drawE, bind_ok_iff] at h
    obtain ⟨e', t1, -, h⟩ := h
    split at h
    · rename_i hc
      simp only [pure_ok_iff] at h
      obtain ⟨rfl, rfl⟩ := h
      exact ⟨by omega, hc.2.1, gcd_eq_one hc.2.2⟩
    · exact ih _ _ _ h

theorem drawE_ne_panic {cs : Suite} {phi : Int} :
    ∀ (fuel : Nat) (t : List Draw), drawE cs phi fuel t ≠ .panic := by
  intro fuel
  induction fuel with
  | zero => intro t h; cases h
  | succ fuel ih =>
    intro t h
    simp only [drawE, bind_panic_iff] at h
    rcases h with h | ⟨e, t1, -, h⟩
    · exact randomPrime_ne_panic _ _ h
    · split at h
      · cases h
      · exact ih _ h

/-! ## 10. The issuance proof of knowledge (`ZKPoK`) -/

/-- **Hypothesis (owned by C16).** Completeness of the Boudot range proof on a well-formed commitment
`c = g^x · h^r (mod n)` with `g`, `h` units, `lo ≤ x ≤ hi`, for every tape on which the prover terminates.
Every premise is established at each use in this development, so any proof of range-proof completeness
that needs (a subset of) these premises discharges the hypothesis. -/
def RangeComplete (cs : Suite) : Prop :=
  ∀ (x : Int) (c : Commitment) (g h n lo hi : Int) (t t' : List Draw) (π : RangeProof),
    1 < n → Int.gcd g n = 1 → Int.gcd h n = 1 → 0 ≤ x → 0 ≤ c.randomness → c.randomness < 2 ^ cs.ln →
    c.value ≡ g ^ x.toNat * h ^ c.randomness.toNat [ZMOD n] → 0 ≤ c.value → c.value < n →
    lo ≤ x → x ≤ hi →
    rangeProve cs x c g h n lo hi t = .ok (π, t') →
    rangeVerify cs π g h n lo hi [] = .ok (true, [])

theorem drop_cons_split {α} {l : List α} {k : Nat} {a : α} {r : List α} (h : l.drop k = a :: r) :
    l[k]? = some a ∧ l.drop (k + 1) = r := by
  constructor
  · have := List.getElem?_drop (xs := l) (i := k) (j := 0)
    rw [h] at this
    simpa using this.symm
  · have : (l.drop k).drop 1 = l.drop (k + 1) := List.drop_drop
    rw [← this, h]; rfl

theorem not_true_if {α} (x y : M α) (s : List Draw) :
    (if (!true) = true then x else y) s = y s := rfl

/-- per-attribute proofs: for every hidden position `i` the prover commits `m_i` under the base `a_i`
(`commit_with_pk(.., Some([i]))`), and the verifier checks against the same `a_i`. -/
theorem zkMi_complete (hA : ArithOK) {cs : Suite} {pk : PublicKey} {bases msgs : List Int}
    (hR : RangeComplete cs) (hN : 1 < pk.N) (hbu : Int.gcd pk.b pk.N = 1)
    (hau : ∀ a ∈ bases, Int.gcd a pk.N = 1) :
    ∀ (is : List Nat) (ps : List ProofOfValue) (rs : List RangeProof) (t t' : List Draw),
      (∀ i ∈ is, 0 ≤ msgs.getD i 0 ∧ msgs.getD i 0 < 2 ^ cs.lm) →
      zkMiLoop cs pk bases msgs is t = .ok ((ps, rs), t') →
      ∀ (π : ZKPoK) (k : Nat), π.proofsMi.drop k = ps → π.rangeProofsMi.drop k = rs →
        zkMiVerifyLoop cs pk bases π is k [] = .ok (true, []) := by
  intro is
  induction is with
  | nil => intro ps rs t t' _ _ π k _ _; rfl
  | cons i is ih =>
    intro ps rs t t' hm h π k hps hrs
    simp only [zkMiLoop, bind_ok_iff, idx_ok_iff] at h
    obtain ⟨mi, t1, ⟨hmi, rfl⟩, ai, t2, ⟨hai, rfl⟩, cmi, t3, hcmi, pv, t4, hpv, rp, t5, hrp,
      ⟨ps', rs'⟩, t6, hrest, hfin⟩ := h
    simp only [pure_ok_iff, Prod.mk.injEq] at hfin
    obtain ⟨⟨rfl, rfl⟩, rfl⟩ := hfin
    obtain ⟨hmi1, hmi2⟩ := getElem?_getD hmi 0
    obtain ⟨hai1, hai2⟩ := getElem?_getD hai 1
    have hmr := hm i List.mem_cons_self
    rw [hmi1] at hmr
    have hau' : Int.gcd ai pk.N = 1 := hau ai (List.mem_of_getElem? hai)
    obtain ⟨hr0, hrl, -, -, hCe, hC0, hCN⟩ := commitWithPk_elim (uo := some [i]) hA
      (by intro j hj; simp only [Option.getD_some, List.mem_singleton] at hj; subst hj; rw [hmi1]; exact hmr.1)
      hcmi
    simp only [Option.getD_some, rep_cons, rep_nil, mul_one, hmi1, hai1] at hCe
    obtain ⟨hp1, hp2⟩ := drop_cons_split hps
    obtain ⟨hq1, hq2⟩ := drop_cons_split hrs
    have hv1 := nisp2sec_complete hA cs mi cmi ai pk.b pk.N _ _ pv hmr.1 hr0 hCe hpv []
    have hv2 := hR mi cmi ai pk.b pk.N 0 (2 ^ cs.lm - 1) _ _ rp hN hau' hbu hmr.1 hr0
      (bitLen_lt hr0 hrl) hCe hC0 hCN hmr.1 (by omega) hrp
    have hv3 := ih ps' rs' _ _ (fun j hj => hm j (List.mem_cons_of_mem _ hj)) hrest π (k + 1) hp2 hq2
    simp only [zkMiVerifyLoop]
    rw [bind_of_ok (idx_run hai []), bind_of_ok (idx_run hp1 [])]
    dsimp only [publicPart]
    rw [bind_of_ok hv1, not_true_if, bind_of_ok (idx_run hq1 []), bind_of_ok hv2, not_true_if]
    exact hv3

/-- **Completeness of the issuance proof of knowledge** (`ZKPoK::generate_proof` / `verify_proof`), with
or without a trusted-party commitment, for every hidden index list `U`. -/
theorem zkpok_complete (hA : ArithOK) {cs : Suite} (hR : RangeComplete cs) {msgs : List Int}
    {C : Commitment} {Ct : Option Commitment} {pk : PublicKey} {bases : List Int}
    {cpk : Option CommitmentPK} {U : List Nat} {t t' : List Draw} {π : ZKPoK}
    (hN : 1 < pk.N) (hbu : Int.gcd pk.b pk.N = 1) (hau : ∀ a ∈ bases, Int.gcd a pk.N = 1)
    (hU1 : msgs.length ≠ 1 ∨ U = [0])
    (hmU : ∀ i ∈ U, 0 ≤ msgs.getD i 0 ∧ msgs.getD i 0 < 2 ^ cs.lm)
    (hr0 : 0 ≤ C.randomness) (hrl : C.randomness < 2 ^ cs.ln)
    (hC : C.value ≡ rep bases msgs U * pk.b ^ C.randomness.toNat [ZMOD pk.N])
    (hT : ∀ ct k, Ct = some ct → cpk = some k →
      1 < k.N ∧ 0 ≤ ct.randomness ∧ Int.gcd ct.value k.N = 1 ∧
      ct.value ≡ rep k.gBases msgs U * k.h ^ ct.randomness.toNat [ZMOD k.N])
    (hgen : zkpokGen cs msgs C Ct pk bases cpk U t = .ok (π, t')) :
    zkpokVerify cs π C.value (Ct.map Commitment.value) pk bases cpk U [] = .ok (true, []) := by
  have hCu : Int.gcd C.value pk.N = 1 :=
    cop_iff.2 (cop_of_modEq hC ((cop_rep hau msgs U).mul_left (cop_iff.1 hbu).pow_left))
  unfold zkpokGen at hgen
  simp only [bind_ok_iff, idx_ok_iff] at hgen
  obtain ⟨p2, t1, hp2, pm, t2, hpm, ⟨ps, rs⟩, t3, hmi, cr, t4, hcr, a0, t5, ⟨ha0, rfl⟩, pr, t6, hpr,
    rpr, t7, hrpr, hfin⟩ := hgen
  simp only [pure_ok_iff] at hfin
  obtain ⟨rfl, rfl⟩ := hfin
  -- the trusted-commitment part
  have hokT : (match Ct.map Commitment.value, cpk with
      | some ct, some cpk => do
        let p ← ofOpt p2
        nisp2Verify p C.value ct pk bases cpk U
      | _, _ => pure true) [] = .ok (true, []) := by
    cases Ct with
    | none => rfl
    | some ct =>
      cases cpk with
      | none => rfl
      | some k =>
        simp only [bind_ok_iff, pure_ok_iff] at hp2
        obtain ⟨p, t0, hp, rfl, rfl⟩ := hp2
        obtain ⟨hk1, hk2, hk3, hk4⟩ := hT ct k rfl rfl
        simp only [Option.map_some]
        rw [bind_of_ok (ofOpt_run rfl [])]
        exact nisp2_complete hA cs msgs C ct pk bases k U _ _ p hN hk1 (fun i hi => (hmU i hi).1)
          hr0 hk2 hC hk4 hCu hk3 hp []
  -- the multi-secret proof
  have hv1 := nispMultiSecrets_complete hA cs msgs C pk bases (some U) _ _ pm
    (by simpa using hU1) (by simpa using fun i hi => (hmU i hi).1) hr0 (by simpa using hC) hpm []
  -- per-attribute proofs
  have hv2 := zkMi_complete hA hR hN hbu hau U ps rs _ _ hmU hmi
    ⟨p2, pm, ps, rs, ⟨pr, publicPart cr⟩, rpr⟩ 0 rfl rfl
  -- the randomness
  obtain ⟨ha01, ha02⟩ := getElem?_getD ha0 1
  have hau0 : Int.gcd a0 pk.N = 1 := hau a0 (List.mem_of_getElem? ha0)
  obtain ⟨hs0, hsl, -, -, hcre, hcr0, hcrN⟩ := commitWithPk_elim (uo := none) (msgs := [C.randomness]) hA
    (by intro j hj
        simp only [Option.getD_none, List.length_singleton, List.range_one, List.mem_singleton] at hj
        subst hj; simpa using hr0)
    hcr
  simp only [Option.getD_none, List.length_singleton, List.range_one, rep_cons, rep_nil, mul_one,
    List.getD_cons_zero, ha01] at hcre
  have hv3 := nisp2sec_complete hA cs C.randomness cr a0 pk.b pk.N _ _ pr hr0 hs0 hcre hpr []
  have hv4 := hR C.randomness cr a0 pk.b pk.N 0 (2 ^ cs.ln - 1) _ _ rpr hN hau0 hbu hr0 hs0
    (bitLen_lt hs0 hsl) hcre hcr0 hcrN hr0 (by omega) hrpr
  unfold zkpokVerify
  dsimp only
  refine Eq.trans (bind_of_ok hokT) ?_
  rw [not_true_if, bind_of_ok hv1, not_true_if, bind_of_ok hv2, not_true_if, bind_of_ok (idx_run ha0 [])]
  dsimp only [publicPart]
  rw [bind_of_ok hv3, not_true_if]
  exact hv4

/-! ## 11. Verification consumes no randomness (`TapeFree`) -/

/-- `x` never looks at the tape: it returns the same value on every tape (leaving it untouched), or it
panics on every tape. All verification functions and the deterministic parts of the issuer are such. -/
def TapeFree {α} (x : M α) : Prop := (∃ a, ∀ s, x s = .ok (a, s)) ∨ (∀ s, x s = .panic)

namespace TapeFree
variable {α β : Type}

theorem pure (a : α) : TapeFree (Pure.pure a : M α) := Or.inl ⟨a, fun _ => rfl⟩
theorem panic : TapeFree (Zk.Cl.panic : M α) := Or.inr fun _ => rfl
theorem ofOpt (o : Option α) : TapeFree (Zk.Cl.ofOpt o) := by
  cases o with
  | none => exact panic
  | some a => exact pure a
theorem pw (b e n : Int) : TapeFree (Zk.Cl.pw b e n) := ofOpt _
theorem idx (l : List α) (i : Nat) : TapeFree (Zk.Cl.idx l i) := ofOpt _

theorem bind {x : M α} {f : α → M β} (hx : TapeFree x) (hf : ∀ a, TapeFree (f a)) :
    TapeFree (x >>= f) := by
  rcases hx with ⟨a, ha⟩ | hp
  · rcases hf a with ⟨b, hb⟩ | hq
    · exact Or.inl ⟨b, fun s => by rw [bind_of_ok (ha s)]; exact hb s⟩
    · exact Or.inr fun s => by rw [bind_of_ok (ha s)]; exact hq s
  · exact Or.inr fun s => by rw [bind_run, hp s]

theorem bind_prod {γ : Type} {x : M (α × γ)} {f : α × γ → M β} (hx : TapeFree x)
    (hf : ∀ a c, TapeFree (f (a, c))) : TapeFree (x >>= f) :=
  bind hx fun p => by obtain ⟨a, c⟩ := p; exact hf a c

theorem ite (c : Prop) [Decidable c] {x y : M α} (hx : TapeFree x) (hy : TapeFree y) :
    TapeFree (if c then x else y) := by
  split <;> assumption

/-- the value is independent of the tape -/
theorem ok_any {x : M α} (h : TapeFree x) {t t' : List Draw} {a : α} (hx : x t = .ok (a, t'))
    (s : List Draw) : x s = .ok (a, s) := by
  rcases h with ⟨b, hb⟩ | hp
  · rw [hb t] at hx
    simp only [CRes.ok.injEq, Prod.mk.injEq] at hx
    rw [hb s, hx.1]
  · rw [hp t] at hx; cases hx

theorem tape_eq {x : M α} (h : TapeFree x) {t t' : List Draw} {a : α} (hx : x t = .ok (a, t')) :
    t' = t := by
  have := h.ok_any hx t
  rw [hx] at this
  simp only [CRes.ok.injEq, Prod.mk.injEq] at this
  exact this.2

end TapeFree

/-- one structural step of a `TapeFree` proof -/
macro "tf_step" : tactic => `(tactic| first
  | exact TapeFree.pure _
  | exact TapeFree.panic
  | exact TapeFree.pw _ _ _
  | exact TapeFree.idx _ _
  | exact TapeFree.ofOpt _
  | assumption
  | refine TapeFree.ite _ ?_ ?_
  | refine TapeFree.bind ?_ (fun _ => ?_)
  | refine TapeFree.bind_prod ?_ (fun _ _ => ?_))

theorem divm_tapeFree (a b m : Int) : TapeFree (divm a b m) := by
  unfold divm
  split
  · tf_step
  · dsimp only
    split
    · tf_step
    · split <;> tf_step

theorem sqrtM_tapeFree (x : Int) : TapeFree (sqrtM x) := by
  unfold sqrtM; repeat tf_step

theorem tolBounds_tapeFree (a b : Int) (T : Nat) : TapeFree (tolBounds a b T) := by
  unfold tolBounds
  exact TapeFree.bind (sqrtM_tapeFree _) fun _ => TapeFree.pure _

theorem verifySameSecret_tapeFree (E F g1 h1 g2 h2 n : Int) (π : ProofSs) :
    TapeFree (verifySameSecret E F g1 h1 g2 h2 n π) := by
  unfold verifySameSecret; repeat tf_step

theorem verifyOfSquare_tapeFree (π : ProofOfS) (g h n : Int) : TapeFree (verifyOfSquare π g h n) := by
  unfold verifyOfSquare
  exact TapeFree.ite _ (TapeFree.pure _) (verifySameSecret_tapeFree _ _ _ _ _ _ _ _)

theorem verifyLargeIntervalSpecific_tapeFree (π : ProofLi) (E g h n : Int) (t l : Nat) (b : Int) :
    TapeFree (verifyLargeIntervalSpecific π E g h n t l b) := by
  unfold verifyLargeIntervalSpecific; repeat tf_step

theorem verifyOfToleranceSpecific_tapeFree (π : ProofWt) (g h E n a b : Int) (t l T : Nat) :
    TapeFree (verifyOfToleranceSpecific π g h E n a b t l T) := by
  unfold verifyOfToleranceSpecific
  refine TapeFree.bind (tolBounds_tapeFree _ _ _) fun p => ?_
  obtain ⟨aa, bb, b2⟩ := p
  dsimp only
  refine TapeFree.bind (TapeFree.pw _ _ _) fun gaa => ?_
  refine TapeFree.bind (divm_tapeFree _ _ _) fun Ea => ?_
  refine TapeFree.bind (TapeFree.pw _ _ _) fun gbb => ?_
  refine TapeFree.bind (divm_tapeFree _ _ _) fun Eb => ?_
  refine TapeFree.bind (divm_tapeFree _ _ _) fun divA => ?_
  refine TapeFree.bind (divm_tapeFree _ _ _) fun divB => ?_
  refine TapeFree.ite _ ?_ (TapeFree.pure _)
  refine TapeFree.bind (verifyOfSquare_tapeFree _ _ _ _) fun s1 => ?_
  refine TapeFree.bind (TapeFree.ite _ (verifyOfSquare_tapeFree _ _ _ _) (TapeFree.pure _)) fun bs => ?_
  refine TapeFree.bind (verifyLargeIntervalSpecific_tapeFree _ _ _ _ _ _ _ _) fun l1 => ?_
  refine TapeFree.bind (TapeFree.ite _ (verifyLargeIntervalSpecific_tapeFree _ _ _ _ _ _ _ _)
    (TapeFree.pure _)) fun bl => ?_
  exact TapeFree.pure _

theorem rangeVerify_tapeFree (cs : Suite) (π : RangeProof) (g h n lo hi : Int) :
    TapeFree (rangeVerify cs π g h n lo hi) := by
  unfold rangeVerify
  refine TapeFree.ite _ TapeFree.panic ?_
  refine TapeFree.ite _ (TapeFree.pure _) ?_
  dsimp only
  refine TapeFree.bind (TapeFree.pw _ _ _) fun E' => ?_
  exact TapeFree.ite _ (verifyOfToleranceSpecific_tapeFree _ _ _ _ _ _ _ _ _ _) (TapeFree.pure _)

theorem nisp2secVerify_tapeFree (π : NISPSecrets) (cv g h n : Int) :
    TapeFree (nisp2secVerify π cv g h n) := by
  unfold nisp2secVerify; repeat tf_step

theorem prodPowZip_tapeFree (N : Int) (bases : List Int) :
    ∀ (ix : List Nat) (es : List Int) (acc : Int), TapeFree (prodPowZip N bases ix es acc) := by
  intro ix
  induction ix with
  | nil => intro es acc; exact TapeFree.pure _
  | cons i is ih =>
    intro es acc
    simp only [prodPowZip]
    have := ih
    repeat tf_step
    exact ih _ _

theorem mapM_idx_tapeFree (bases : List Int) : ∀ ix : List Nat, TapeFree (ix.mapM (idx bases)) := by
  intro ix
  induction ix with
  | nil => rw [List.mapM_nil]; exact TapeFree.pure _
  | cons i is ih => rw [List.mapM_cons]; repeat tf_step

theorem nispMultiSecretsVerify_tapeFree (π : NISPMultiSecrets) (cv : Int) (pk : PublicKey)
    (bases : List Int) (uo : Option (List Nat)) : TapeFree (nispMultiSecretsVerify π cv pk bases uo) := by
  unfold nispMultiSecretsVerify
  dsimp only
  refine TapeFree.ite _ TapeFree.panic ?_
  refine TapeFree.bind (prodPowZip_tapeFree _ _ _ _ _) fun _ => ?_
  refine TapeFree.bind (mapM_idx_tapeFree _ _) fun _ => ?_
  repeat tf_step

theorem nisp2Verify_tapeFree (π : NISP2Commitments) (c1v c2v : Int) (pk : PublicKey) (bases : List Int)
    (cpk : CommitmentPK) (U : List Nat) : TapeFree (nisp2Verify π c1v c2v pk bases cpk U) := by
  unfold nisp2Verify
  refine TapeFree.bind (TapeFree.pw _ _ _) fun _ => ?_
  refine TapeFree.bind (TapeFree.pw _ _ _) fun _ => ?_
  refine TapeFree.bind (prodPowZip_tapeFree _ _ _ _ _) fun _ => ?_
  refine TapeFree.bind (prodPowZip_tapeFree _ _ _ _ _) fun _ => ?_
  repeat tf_step

theorem zkMiVerifyLoop_tapeFree (cs : Suite) (pk : PublicKey) (bases : List Int) (π : ZKPoK) :
    ∀ (is : List Nat) (k : Nat), TapeFree (zkMiVerifyLoop cs pk bases π is k) := by
  intro is
  induction is with
  | nil => intro k; exact TapeFree.pure _
  | cons i is ih =>
    intro k
    simp only [zkMiVerifyLoop]
    refine TapeFree.bind (TapeFree.idx _ _) fun _ => ?_
    refine TapeFree.bind (TapeFree.idx _ _) fun _ => ?_
    refine TapeFree.bind (nisp2secVerify_tapeFree _ _ _ _ _) fun _ => ?_
    refine TapeFree.ite _ (TapeFree.pure _) ?_
    refine TapeFree.bind (TapeFree.idx _ _) fun _ => ?_
    refine TapeFree.bind (rangeVerify_tapeFree _ _ _ _ _ _ _) fun _ => ?_
    exact TapeFree.ite _ (TapeFree.pure _) (ih _)

theorem zkpokVerify_tapeFree (cs : Suite) (π : ZKPoK) (Cv : Int) (Ctv : Option Int) (pk : PublicKey)
    (bases : List Int) (cpk : Option CommitmentPK) (U : List Nat) :
    TapeFree (zkpokVerify cs π Cv Ctv pk bases cpk U) := by
  unfold zkpokVerify
  refine TapeFree.bind ?_ fun _ => ?_
  · split
    · exact TapeFree.bind (TapeFree.ofOpt _) fun _ => nisp2Verify_tapeFree _ _ _ _ _ _ _
    · exact TapeFree.pure _
  refine TapeFree.ite _ (TapeFree.pure _) ?_
  refine TapeFree.bind (nispMultiSecretsVerify_tapeFree _ _ _ _ _) fun _ => ?_
  refine TapeFree.ite _ (TapeFree.pure _) ?_
  refine TapeFree.bind (zkMiVerifyLoop_tapeFree _ _ _ _ _ _) fun _ => ?_
  refine TapeFree.ite _ (TapeFree.pure _) ?_
  refine TapeFree.bind (TapeFree.idx _ _) fun _ => ?_
  refine TapeFree.bind (nisp2secVerify_tapeFree _ _ _ _ _) fun _ => ?_
  exact TapeFree.ite _ (TapeFree.pure _) (rangeVerify_tapeFree _ _ _ _ _ _ _)

/-! ## 12. The issuer: `blind_sign`, `update_signature` -/

/-- Well-formed CL03 keys (what `KeyPair::generate` and `Bases::generate` produce): `N = p·q` for distinct
primes, `b`, `c` units modulo `N`, `c ≥ 0`. -/
structure KeysOK (pk : PublicKey) (sk : SecretKey) : Prop where
  hp : Nat.Prime sk.p.toNat
  hq : Nat.Prime sk.q.toNat
  hpq : sk.p ≠ sk.q
  hN : pk.N = sk.p * sk.q
  hb : Int.gcd pk.b pk.N = 1
  hc : Int.gcd pk.c pk.N = 1
  hc0 : 0 ≤ pk.c

theorem KeysOK.one_lt_N {pk : PublicKey} {sk : SecretKey} (hk : KeysOK pk sk) : 1 < pk.N := by
  have h1 := hk.hp.two_le
  have h2 := hk.hq.two_le
  have h3 : 2 ≤ sk.p := by omega
  have h4 : 2 ≤ sk.q := by omega
  rw [hk.hN]; nlinarith

/-- the (optionally) extended commitment of `blind_sign` / `update_signature`. -/
def extOf (C : Commitment) (revealed : Option (List Int)) (pk : PublicKey) (bases : List Int)
    (revIdx : Option (List Nat)) : M Commitment :=
  match revealed, revIdx with
  | some rm, some ri => extendCommitmentWithPk C rm pk bases (some ri)
  | _, _ => pure C

theorem extOf_tapeFree_aux (N : Int) (bases revealed : List Int) :
    ∀ (ix : List Nat) (k : Nat) (acc : Int), TapeFree (extendLoop N bases revealed ix k acc) := by
  intro ix
  induction ix with
  | nil => intro k acc; exact TapeFree.pure _
  | cons i is ih =>
    intro k acc
    simp only [extendLoop]
    refine TapeFree.bind (TapeFree.idx _ _) fun _ => ?_
    refine TapeFree.bind (TapeFree.idx _ _) fun _ => ?_
    exact TapeFree.bind (TapeFree.pw _ _ _) fun _ => ih _ _

theorem extend_tapeFree (C : Commitment) (revealed : List Int) (pk : PublicKey) (bases : List Int)
    (ri : Option (List Nat)) : TapeFree (extendCommitmentWithPk C revealed pk bases ri) := by
  unfold extendCommitmentWithPk
  dsimp only
  refine TapeFree.ite _ TapeFree.panic ?_
  exact TapeFree.bind (extOf_tapeFree_aux _ _ _ _ _ _) fun _ => TapeFree.pure _

theorem extOf_tapeFree (C : Commitment) (revealed : Option (List Int)) (pk : PublicKey)
    (bases : List Int) (ri : Option (List Nat)) : TapeFree (extOf C revealed pk bases ri) := by
  unfold extOf
  split
  · exact extend_tapeFree _ _ _ _ _
  · exact TapeFree.pure _

theorem blindSign_eq (cs : Suite) (pk : PublicKey) (sk : SecretKey) (bases : List Int) (π : ZKPoK)
    (revealed : Option (List Int)) (C : Commitment) (Ctv : Option Int) (cpk : Option CommitmentPK)
    (U : List Nat) (revIdx : Option (List Nat)) :
    blindSign cs pk sk bases π revealed C Ctv cpk U revIdx = (do
      let ok ← zkpokVerify cs π C.value Ctv pk bases cpk U
      if !ok then panic
      else
        let ext ← extOf C revealed pk bases revIdx
        let k ← remaining
        let e ← drawE cs ((sk.p - 1) * (sk.q - 1)) (k + 1)
        let rprime ← randomBits cs.ls
        let e2n ← ofOpt (invMod e ((sk.p - 1) * (sk.q - 1)))
        let bs ← pw pk.b rprime pk.N
        let v ← pw (ext.value * bs * pk.c) e2n pk.N
        pure ⟨e, rprime, v⟩) := rfl

theorem updateSignature_eq (β : BlindSignature) (revealed : Option (List Int)) (C : Commitment)
    (sk : SecretKey) (pk : PublicKey) (bases : List Int) (revIdx : Option (List Nat)) :
    updateSignature β revealed C sk pk bases revIdx = (do
      let ext ← extOf C revealed pk bases revIdx
      let e2n ← ofOpt (invMod β.e ((sk.p - 1) * (sk.q - 1)))
      let bs ← pw pk.b β.rprime pk.N
      let v ← pw (ext.value * bs * pk.c) e2n pk.N
      pure ⟨β.e, β.rprime, v⟩) := rfl

/-- Everything a successful `blind_sign` tells us. -/
theorem blindSign_elim {cs : Suite} {pk : PublicKey} {sk : SecretKey} {bases : List Int} {π : ZKPoK}
    {revealed : Option (List Int)} {C : Commitment} {Ctv : Option Int} {cpk : Option CommitmentPK}
    {U : List Nat} {revIdx : Option (List Nat)} {β : BlindSignature} {t t' : List Draw}
    (h : blindSign cs pk sk bases π revealed C Ctv cpk U revIdx t = .ok (β, t')) :
    zkpokVerify cs π C.value Ctv pk bases cpk U t = .ok (true, t) ∧
    ∃ ext d bs, extOf C revealed pk bases revIdx t = .ok (ext, t) ∧
      (2 ^ (cs.le - 1) < β.e ∧ β.e < 2 ^ cs.le ∧ Int.gcd β.e ((sk.p - 1) * (sk.q - 1)) = 1) ∧
      (0 ≤ β.rprime ∧ bitLen β.rprime = cs.ls) ∧
      invMod β.e ((sk.p - 1) * (sk.q - 1)) = some d ∧ powMod pk.b β.rprime pk.N = some bs ∧
      powMod (ext.value * bs * pk.c) d pk.N = some β.v := by
  rw [blindSign_eq] at h
  simp only [bind_ok_iff] at h
  obtain ⟨ok, t1, hzk, h⟩ := h
  have ht1 := (zkpokVerify_tapeFree _ _ _ _ _ _ _ _).tape_eq hzk
  subst ht1
  cases ok with
  | false => cases h
  | true =>
    rw [not_true_if] at h
    simp only [bind_ok_iff, pw_ok_iff, ofOpt_ok_iff, pure_ok_iff] at h
    obtain ⟨ext, t2, hext, k, t3, hk, e, t4, he, r', t5, hr', d, t6, ⟨hd, rfl⟩, bs, t7, ⟨hbs, rfl⟩,
      v, t8, ⟨hv, rfl⟩, rfl, rfl⟩ := h
    have ht2 := (extOf_tapeFree _ _ _ _ _).tape_eq hext
    subst ht2
    obtain ⟨hr0, hrl, -⟩ := randomBits_elim hr'
    exact ⟨hzk, ext, d, bs, hext, drawE_elim _ _ _ _ he, ⟨hr0, hrl⟩, hd, hbs, hv⟩

/-- The signature equation: a value `v = (ext · b^{r'} · c)^{1/e}` computed by the issuer on an extended
commitment `ext ≡ Π_i a_i^{m_i} · b^r`, unblinded with `r`, verifies on the full vector. -/
theorem blind_verify_core (hA : ArithOK) (cs : Suite) {pk : PublicKey} {sk : SecretKey}
    {bases msgs : List Int} (hk : KeysOK pk sk) (hau : ∀ a ∈ bases, Int.gcd a pk.N = 1)
    (hb : msgs.length ≤ bases.length) (hm : ∀ m ∈ msgs, 0 ≤ m ∧ m < 2 ^ cs.lm)
    {C ext : Commitment} {β : BlindSignature} (hr0 : 0 ≤ C.randomness)
    (hext : ext.value ≡ rep bases msgs (List.range msgs.length) * pk.b ^ C.randomness.toNat [ZMOD pk.N])
    (he : 2 ^ (cs.le - 1) < β.e ∧ β.e < 2 ^ cs.le) (hrp : 0 ≤ β.rprime) {d bs : Int}
    (hd : invMod β.e ((sk.p - 1) * (sk.q - 1)) = some d) (hbs : powMod pk.b β.rprime pk.N = some bs)
    (hv : powMod (ext.value * bs * pk.c) d pk.N = some β.v) (s : List Draw) :
    verifyMultiattr cs (unblindSign β C) pk bases msgs s = .ok (true, s) := by
  have hN1 := hk.one_lt_N
  have hN : 0 < pk.N := by omega
  have hN' : pk.N ≠ 0 := by omega
  have he0 : 0 ≤ β.e := le_of_lt (lt_trans (by positivity) he.1)
  obtain ⟨hd0, -, hed⟩ := hA.invMod_some _ _ _ (phi_gt_one hk.hp hk.hq hk.hpq) hd
  rw [hA.powMod_nonneg _ _ _ hN hrp] at hbs
  rw [hA.powMod_nonneg _ _ _ hN hd0] at hv
  have hbs' := (Option.some.inj hbs).symm
  have hv' := (Option.some.inj hv).symm
  have hbu := cop_iff.1 hk.hb
  have hXu : IsCoprime (ext.value * bs * pk.c) pk.N := by
    refine ((cop_of_modEq hext ((cop_rep hau msgs _).mul_left hbu.pow_left)).mul_left ?_).mul_left
      (cop_iff.1 hk.hc)
    rw [hbs']; exact cop_emod hbu.pow_left
  have hroot := euler_root hk.hp hk.hq hk.hpq hk.hN hXu he0 hd0 hed
  have hvr : 0 < (unblindSign β C).v ∧ (unblindSign β C).v < pk.N := by
    show 0 < β.v ∧ β.v < pk.N
    rw [hv']
    exact emod_unit_reduced hN1 hXu.pow_left
  obtain ⟨x, hxe, hx0, hrun⟩ := verifyMultiattr_run hA cs (unblindSign β C) pk bases msgs hN hb hm he
    hvr (add_nonneg hr0 hrp) s
  rw [hrun]
  congr 2
  simp only [unblindSign]
  rw [beq_iff_eq, tmod_nonneg _ (mul_nonneg (mul_nonneg hx0 (Int.emod_nonneg _ hN')) hk.hc0)]
  show _ ≡ _ [ZMOD pk.N]
  rw [hv']
  refine hroot.trans ?_
  rw [pow_toNat_add _ hr0 hrp, hbs']
  have e1 : ext.value * (pk.b ^ β.rprime.toNat % pk.N) * pk.c ≡
      rep bases msgs (List.range msgs.length) * pk.b ^ C.randomness.toNat * pk.b ^ β.rprime.toNat * pk.c
        [ZMOD pk.N] := (hext.mul (Int.mod_modEq _ _)).mul_right _
  have e2 : x * (pk.b ^ C.randomness.toNat * pk.b ^ β.rprime.toNat % pk.N) * pk.c ≡
      rep bases msgs (List.range msgs.length) * (pk.b ^ C.randomness.toNat * pk.b ^ β.rprime.toNat) * pk.c
        [ZMOD pk.N] := (hxe.mul (Int.mod_modEq _ _)).mul_right _
  refine e1.trans (Int.ModEq.trans ?_ e2.symm)
  rw [mul_assoc (rep bases msgs (List.range msgs.length))]

/-! ## 13. What an accepting `verify_multiattr` means; cancellation -/

theorem rep_congr (bases : List Int) {m₁ m₂ : List Int} {ix : List Nat}
    (h : ∀ i ∈ ix, m₁.getD i 0 = m₂.getD i 0) : rep bases m₁ ix = rep bases m₂ ix := by
  induction ix with
  | nil => rfl
  | cons i is ih =>
    rw [rep_cons, rep_cons, h i List.mem_cons_self, ih (fun j hj => h j (List.mem_cons_of_mem _ hj))]

theorem modEq_cancel_right {a b u n : Int} (hu : IsCoprime u n) (h : a * u ≡ b * u [ZMOD n]) :
    a ≡ b [ZMOD n] := by
  obtain ⟨p, q, hpq⟩ := hu
  have h1 : a * u * p ≡ b * u * p [ZMOD n] := h.mul_right p
  have ha : a * u * p = a - n * (a * q) := by linear_combination a * hpq
  have hb : b * u * p = b - n * (b * q) := by linear_combination b * hpq
  rw [ha, hb] at h1
  have e1 : a - n * (a * q) ≡ a [ZMOD n] := by
    apply Int.modEq_iff_dvd.2; exact ⟨a * q, by ring⟩
  have e2 : b - n * (b * q) ≡ b [ZMOD n] := by
    apply Int.modEq_iff_dvd.2; exact ⟨b * q, by ring⟩
  exact e1.symm.trans (h1.trans e2)

theorem modEq_cancel_left {a b u n : Int} (hu : IsCoprime u n) (h : u * a ≡ u * b [ZMOD n]) :
    a ≡ b [ZMOD n] := by
  rw [mul_comm u a, mul_comm u b] at h; exact modEq_cancel_right hu h

/-- `pow_mod` of a unit is a unit, whatever the sign of the exponent. -/
theorem powMod_unit (hA : ArithOK) {b e n x : Int} (hn : 1 < n) (hb : Int.gcd b n = 1)
    (h : powMod b e n = some x) : IsCoprime x n := by
  have hn0 : 0 < n := by omega
  rcases le_or_gt 0 e with he | he
  · rw [hA.powMod_nonneg b e n hn0 he] at h
    rw [← Option.some.inj h]
    exact cop_emod (cop_iff.1 hb).pow_left
  · rw [hA.powMod_neg b e n hn0 he] at h
    obtain ⟨bi, hbi, -, -, hmul⟩ := invMod_of_gcd hA hn hb
    rw [hbi] at h
    simp only [Option.map_some, Option.some.injEq] at h
    rw [← h]
    have hu : IsCoprime bi n := by
      refine ⟨b, -(b * bi / n), ?_⟩
      have := Int.emod_add_mul_ediv (b * bi) n
      rw [hmul] at this
      linarith
    exact cop_emod hu.pow_left

/-- Everything an accepting `verify_multiattr` tells us (for any `σ`, any sign of `σ.s`). -/
theorem verifyMultiattr_true_elim (hA : ArithOK) {cs : Suite} {σ : Signature} {pk : PublicKey}
    {bases msgs : List Int} {t t' : List Draw}
    (h : verifyMultiattr cs σ pk bases msgs t = .ok (true, t')) :
    msgs.length ≤ bases.length ∧ (∀ m ∈ msgs, 0 ≤ m ∧ m < 2 ^ cs.lm) ∧
      (2 ^ (cs.le - 1) < σ.e ∧ σ.e < 2 ^ cs.le) ∧ (0 < σ.v ∧ σ.v < pk.N) ∧
      ∃ x bs, x ≡ rep bases msgs (List.range msgs.length) [ZMOD pk.N] ∧
        powMod pk.b σ.s pk.N = some bs ∧ σ.v ^ σ.e.toNat % pk.N = tmod (x * bs * pk.c) pk.N := by
  unfold verifyMultiattr at h
  split at h
  · cases h
  rename_i hlen
  simp only [bind_ok_iff, pw_ok_iff] at h
  obtain ⟨lhs, t1, ⟨hl, rfl⟩, P, t2, hP, bs, t3, ⟨hbs, rfl⟩, h⟩ := h
  have hN := powMod_pos hl
  split at h
  · simp only [pure_ok_iff] at h; exact absurd h.1 (by decide)
  rename_i hany
  split at h
  · simp only [pure_ok_iff] at h; exact absurd h.1 (by decide)
  rename_i he
  split at h
  · simp only [pure_ok_iff] at h; exact absurd h.1 (by decide)
  rename_i hvr
  simp only [pure_ok_iff, beq_iff_eq] at h
  have hm : ∀ m ∈ msgs, 0 ≤ m ∧ m < 2 ^ cs.lm := by
    intro m hmm
    have := hany
    simp only [List.any_eq_true, not_exists, not_and, decide_eq_true_eq] at this
    have := this m hmm
    omega
  have he' : 2 ^ (cs.le - 1) < σ.e ∧ σ.e < 2 ^ cs.le := by omega
  have he0 : 0 ≤ σ.e := le_of_lt (lt_trans (by positivity) he'.1)
  obtain ⟨x, hx, hxe, -⟩ := prodPow_run (msgs := msgs) (bases := bases) hA hN (Nat.le_of_not_lt hlen)
    (fun m hmm => (hm m hmm).1) msgs.length 0 1 t1 (by omega)
  rw [List.drop_zero, hP] at hx
  simp only [CRes.ok.injEq, Prod.mk.injEq] at hx
  obtain ⟨rfl, rfl⟩ := hx
  rw [hA.powMod_nonneg _ _ _ hN he0] at hl
  refine ⟨by omega, hm, he', by omega, P, bs, by simpa [List.range_eq_range'] using hxe, hbs, ?_⟩
  rw [Option.some.inj hl]; exact h.1

/-- **A signature accepted for two attribute vectors** yields `Π a_i^{m_i} ≡ Π a_i^{m'_i} (mod N)`
(a representation collision among the bases). No assumption on `σ`. -/
theorem verify_two_vectors (hA : ArithOK) {cs : Suite} {σ : Signature} {pk : PublicKey}
    {bases m₁ m₂ : List Int} (hN : 1 < pk.N) (hbu : Int.gcd pk.b pk.N = 1)
    (hcu : Int.gcd pk.c pk.N = 1) {t₁ t₁' t₂ t₂' : List Draw}
    (h₁ : verifyMultiattr cs σ pk bases m₁ t₁ = .ok (true, t₁'))
    (h₂ : verifyMultiattr cs σ pk bases m₂ t₂ = .ok (true, t₂')) :
    rep bases m₁ (List.range m₁.length) ≡ rep bases m₂ (List.range m₂.length) [ZMOD pk.N] := by
  obtain ⟨-, -, -, -, x₁, bs₁, hx₁, hb₁, he₁⟩ := verifyMultiattr_true_elim hA h₁
  obtain ⟨-, -, -, -, x₂, bs₂, hx₂, hb₂, he₂⟩ := verifyMultiattr_true_elim hA h₂
  rw [hb₁] at hb₂
  obtain rfl := Option.some.inj hb₂
  have hu : IsCoprime (bs₁ * pk.c) pk.N := (powMod_unit hA hN hbu hb₁).mul_left (cop_iff.1 hcu)
  have h : x₁ * (bs₁ * pk.c) ≡ x₂ * (bs₁ * pk.c) [ZMOD pk.N] := by
    rw [← mul_assoc, ← mul_assoc]
    have h12 : tmod (x₁ * bs₁ * pk.c) pk.N = tmod (x₂ * bs₁ * pk.c) pk.N := he₁.symm.trans he₂
    have h2 := tmod_modEq (x₂ * bs₁ * pk.c) pk.N
    rw [← h12] at h2
    exact (tmod_modEq _ _).symm.trans h2
  exact hx₁.symm.trans ((modEq_cancel_right hu h).trans hx₂)

/-- `a^m ≡ a^{m'}` for a unit `a` and `m ≠ m'` gives a multiple of the order of `a`. -/
theorem order_of_pow_eq {a N m m' : Int} (ha : IsCoprime a N) (hm : 0 ≤ m) (hm' : 0 ≤ m')
    (hne : m ≠ m') (h : a ^ m.toNat ≡ a ^ m'.toNat [ZMOD N]) : OrderRelation N a := by
  have key : ∀ {x y : Int}, 0 ≤ y → y < x → a ^ x.toNat ≡ a ^ y.toNat [ZMOD N] → OrderRelation N a := by
    intro x y hy hxy hxy'
    refine ⟨(x - y).toNat, by omega, ?_⟩
    have hsplit : a ^ x.toNat = a ^ y.toNat * a ^ (x - y).toNat := by
      rw [← pow_add]; congr 1; omega
    rw [hsplit] at hxy'
    have : a ^ y.toNat * a ^ (x - y).toNat ≡ a ^ y.toNat * 1 [ZMOD N] := by simpa using hxy'
    exact modEq_cancel_left ha.pow_left this
  rcases lt_or_gt_of_ne hne with hlt | hgt
  · exact key hm hlt h.symm
  · exact key hm' hgt h

/-! ## 14. The unit group of `ℤ/n`: the bridge for arbitrary (also negative) exponents -/

/-- The integer `y` represents the unit `u` of `ℤ/n`. -/
def IsRep (n y : Int) (u : (ZMod n.toNat)ˣ) : Prop := ((y : Int) : ZMod n.toNat) = (u : ZMod n.toNat)

theorem natCast_toNat {n : Int} (hn : 1 < n) : ((n.toNat : Nat) : Int) = n :=
  Int.toNat_of_nonneg (by omega)

theorem IsRep.mul {n a b : Int} {u v} (ha : IsRep n a u) (hb : IsRep n b v) : IsRep n (a * b) (u * v) := by
  unfold IsRep at *; push_cast; rw [ha, hb]

theorem IsRep.of_modEq {n a b : Int} {u} (hn : 1 < n) (h : a ≡ b [ZMOD n]) (hb : IsRep n b u) :
    IsRep n a u := by
  unfold IsRep at *
  rw [← hb]
  exact (ZMod.intCast_eq_intCast_iff a b n.toNat).2 (by rw [natCast_toNat hn]; exact h)

theorem IsRep.emod {n a : Int} {u} (hn : 1 < n) (ha : IsRep n a u) : IsRep n (a % n) u :=
  IsRep.of_modEq hn (Int.mod_modEq a n) ha

theorem IsRep.tmod {n a : Int} {u} (hn : 1 < n) (ha : IsRep n a u) : IsRep n (tmod a n) u :=
  IsRep.of_modEq hn (tmod_modEq a n) ha

theorem IsRep.pow {n a : Int} {u} (ha : IsRep n a u) (k : Nat) : IsRep n (a ^ k) (u ^ k) := by
  unfold IsRep at *; push_cast; rw [ha]

theorem IsRep.modEq {n a b : Int} {u} (hn : 1 < n) (ha : IsRep n a u) (hb : IsRep n b u) :
    a ≡ b [ZMOD n] := by
  unfold IsRep at *
  have := (ZMod.intCast_eq_intCast_iff a b n.toNat).1 (ha.trans hb.symm)
  rwa [natCast_toNat hn] at this

theorem IsRep.inj {n a : Int} {u v} (ha : IsRep n a u) (hb : IsRep n a v) : u = v :=
  Units.ext (ha.symm.trans hb)

theorem isRep_of_gcd {n g : Int} (hn : 1 < n) (hg : Int.gcd g n = 1) : ∃ u, IsRep n g u := by
  obtain ⟨x, y, hxy⟩ := cop_iff.1 hg
  have h1 : ((g : Int) : ZMod n.toNat) * (x : ZMod n.toNat) = 1 := by
    have := congrArg (Int.cast (R := ZMod n.toNat)) hxy
    push_cast at this
    have hn0 : ((n : Int) : ZMod n.toNat) = 0 := by
      rw [ZMod.intCast_zmod_eq_zero_iff_dvd, natCast_toNat hn]
    rw [hn0, mul_zero, add_zero] at this
    rw [mul_comm]; exact this
  exact ⟨⟨g, x, h1, by rw [mul_comm]; exact h1⟩, rfl⟩

open Classical in
/-- the unit of `ℤ/n` represented by `g` (`1` when `g` is not invertible) -/
noncomputable def unitOf (n g : Int) : (ZMod n.toNat)ˣ :=
  if h : ∃ u, IsRep n g u then h.choose else 1

theorem unitOf_spec {n g : Int} (hn : 1 < n) (hg : Int.gcd g n = 1) : IsRep n g (unitOf n g) := by
  have h := isRep_of_gcd hn hg
  unfold unitOf
  rw [dif_pos h]
  exact h.choose_spec

/-- `pow_mod` on a representative of a unit, any exponent: the result represents `u^e` (`zpow`). -/
theorem powMod_isRep (hA : ArithOK) {n g x e : Int} {u} (hn : 1 < n) (hgu : Int.gcd g n = 1)
    (hg : IsRep n g u) (h : powMod g e n = some x) : IsRep n x (u ^ e) := by
  have hn0 : 0 < n := by omega
  by_cases he : 0 ≤ e
  · rw [hA.powMod_nonneg g e n hn0 he] at h
    rw [← Option.some.inj h]
    have : u ^ e = u ^ e.toNat := by
      conv_lhs => rw [← Int.toNat_of_nonneg he]
      exact zpow_natCast u _
    rw [this]
    exact (hg.pow _).emod hn
  · have he' : e < 0 := by omega
    rw [hA.powMod_neg g e n hn0 he'] at h
    obtain ⟨gi, hgi, -, -, hmul⟩ := invMod_of_gcd hA hn hgu
    rw [hgi] at h
    simp only [Option.map_some, Option.some.injEq] at h
    rw [← h]
    have hgi' : IsRep n gi u⁻¹ := by
      have h2 : IsRep n (g * gi) 1 := by
        refine IsRep.of_modEq hn (b := 1) ?_ (by unfold IsRep; simp)
        show g * gi % n = 1 % n
        rw [hmul, Int.emod_eq_of_lt (by norm_num) hn]
      unfold IsRep at *
      push_cast at h2
      rw [hg] at h2
      try simp only [Units.val_one] at h2
      exact (Units.inv_eq_of_mul_eq_one_right h2).symm
    have : u ^ e = u⁻¹ ^ (-e).toNat := by
      have h3 : e = -(((-e).toNat : Nat) : Int) := by
        rw [Int.toNat_of_nonneg (by omega)]; ring
      conv_lhs => rw [h3]
      rw [zpow_neg, zpow_natCast, inv_pow]
    rw [this]
    exact (hgi'.pow _).emod hn

/-! ## 15. Special soundness (extraction of a representation) -/

/-- The verification equation of `nisp2sec` with an explicit challenge `c` (the verifier uses
`c = hashInts [g, h, C, t]`; an extractor rewinds and reprograms the challenge). -/
def Nisp2secAccepts (g h n cv : Int) (π : NISPSecrets) (c : Int) : Prop :=
  ∃ a b cc, powMod g π.s1 n = some a ∧ powMod h π.s2 n = some b ∧ powMod cv c n = some cc ∧
    tmod (a * b) n = tmod (π.t * cc) n

/-- `nisp2sec_verify_proof` accepts iff the verification equation holds for the hash challenge. -/
theorem nisp2secVerify_true_iff (π : NISPSecrets) (cv g h n : Int) (s s' : List Draw) :
    nisp2secVerify π cv g h n s = .ok (true, s') ↔
      s' = s ∧ Nisp2secAccepts g h n cv π (hashInts [g, h, cv, π.t]) := by
  unfold nisp2secVerify Nisp2secAccepts
  simp only [bind_ok_iff, pw_ok_iff, pure_ok_iff, beq_iff_eq]
  constructor
  · rintro ⟨a, t1, ⟨ha, rfl⟩, b, t2, ⟨hb, rfl⟩, cc, t3, ⟨hc, rfl⟩, heq, rfl⟩
    exact ⟨rfl, a, b, cc, ha, hb, hc, heq⟩
  · rintro ⟨rfl, a, b, cc, ha, hb, hc, heq⟩
    exact ⟨a, _, ⟨ha, rfl⟩, b, _, ⟨hb, rfl⟩, cc, _, ⟨hc, rfl⟩, heq, rfl⟩

/-- The accepting equation in the unit group: `G^{s1} · H^{s2} = T · C^{c}`. -/
theorem nisp2sec_accepts_units (hA : ArithOK) {g h n cv c : Int} {π : NISPSecrets} (hn : 1 < n)
    (hg : Int.gcd g n = 1) (hh : Int.gcd h n = 1) (hc : Int.gcd cv n = 1)
    (hacc : Nisp2secAccepts g h n cv π c) :
    IsRep n π.t (unitOf n g ^ π.s1 * unitOf n h ^ π.s2 * (unitOf n cv ^ c)⁻¹) := by
  obtain ⟨a, b, cc, ha, hb, hcc, heq⟩ := hacc
  have ra := powMod_isRep hA hn hg (unitOf_spec hn hg) ha
  have rb := powMod_isRep hA hn hh (unitOf_spec hn hh) hb
  have rc := powMod_isRep hA hn hc (unitOf_spec hn hc) hcc
  have h1 : IsRep n (tmod (π.t * cc) n) (unitOf n g ^ π.s1 * unitOf n h ^ π.s2) := by
    rw [← heq]; exact (ra.mul rb).tmod hn
  have h2 : π.t * cc ≡ tmod (π.t * cc) n [ZMOD n] := (tmod_modEq _ _).symm
  have h3 := IsRep.of_modEq hn h2 h1
  unfold IsRep at *
  push_cast at h3
  rw [rc] at h3
  rw [Units.val_mul, Units.val_mul, ← h3, mul_assoc, ← Units.val_mul, mul_inv_cancel, Units.val_one,
    mul_one]

theorem comm_group_aux {U : Type} [CommGroup U] (A B A' B' K K' : U)
    (e : A * B * K⁻¹ = A' * B' * K'⁻¹) : A * A'⁻¹ * (B * B'⁻¹) = K * K'⁻¹ := by
  have e1 : A * B = A' * B' * K'⁻¹ * K := eq_mul_of_mul_inv_eq e
  rw [mul_mul_mul_comm, ← mul_inv, e1, mul_comm (A' * B' * K'⁻¹ * K), ← mul_assoc, ← mul_assoc,
    inv_mul_cancel, one_mul, mul_comm]

/-- Pure group algebra behind special soundness. -/
theorem special_soundness_group {U : Type} [CommGroup U] (G H C T : U) (s1 s2 s1' s2' c c' : Int)
    (h : T = G ^ s1 * H ^ s2 * (C ^ c)⁻¹) (h' : T = G ^ s1' * H ^ s2' * (C ^ c')⁻¹) :
    G ^ (s1 - s1') * H ^ (s2 - s2') = C ^ (c - c') := by
  rw [zpow_sub, zpow_sub, zpow_sub]
  exact comm_group_aux _ _ _ _ _ _ (h.symm.trans h')

/-- The strong-RSA event of Fujisaki–Okamoto / Damgård–Fujisaki extraction: the challenge difference does
not divide both response differences. (When it happens, the two transcripts give a non-trivial root of a
known group element, which breaks the strong RSA assumption in `QR_N`; it cannot be excluded
unconditionally.) -/
def ChallengeNotDividing (d Δ1 Δ2 : Int) : Prop := ¬ (d ∣ Δ1 ∧ d ∣ Δ2)

/-- a non-trivial unit of `ℤ/n` of order dividing `d` (for `N = (2p'+1)(2q'+1)` and `|d| < p', q'` the only
such elements are the square roots of 1; none lies in `QR_N`). -/
def SmallOrderUnit (n d : Int) : Prop := ∃ W : (ZMod n.toNat)ˣ, W ≠ 1 ∧ W ^ d = 1

/-- **Special soundness of `nisp2sec`.** Two accepting transcripts with the same first message `t`, for the
same statement `(g, h, n, C)` and challenges `c`, `c'`, give a representation of `C^{c-c'}`:
`G^{s1-s1'} · H^{s2-s2'} = C^{c-c'}` in `(ℤ/n)ˣ`. (In an RSA group one cannot divide the exponents by
`c - c'`; see `nisp2sec_extract`.) -/
theorem nisp2sec_special_sound (hA : ArithOK) {g h n cv c c' : Int} {π π' : NISPSecrets} (hn : 1 < n)
    (hg : Int.gcd g n = 1) (hh : Int.gcd h n = 1) (hc : Int.gcd cv n = 1) (ht : π.t = π'.t)
    (hacc : Nisp2secAccepts g h n cv π c) (hacc' : Nisp2secAccepts g h n cv π' c') :
    unitOf n g ^ (π.s1 - π'.s1) * unitOf n h ^ (π.s2 - π'.s2) = unitOf n cv ^ (c - c') := by
  have r := nisp2sec_accepts_units hA hn hg hh hc hacc
  have r' := nisp2sec_accepts_units hA hn hg hh hc hacc'
  rw [← ht] at r'
  exact special_soundness_group _ _ _ _ _ _ _ _ _ _ rfl (r.inj r')

/-- **Extraction.** From two accepting transcripts with the same `t` and `c ≠ c'`: either `C` opens,
`C = W · G^m · H^r` with `m = (s1-s1')/(c-c')`, `r = (s2-s2')/(c-c')` up to a unit `W` with `W^{c-c'} = 1`
(so `C = G^m H^r` or `SmallOrderUnit`), or the strong-RSA event `ChallengeNotDividing` happened. -/
theorem nisp2sec_extract (hA : ArithOK) {g h n cv c c' : Int} {π π' : NISPSecrets} (hn : 1 < n)
    (hg : Int.gcd g n = 1) (hh : Int.gcd h n = 1) (hc : Int.gcd cv n = 1) (ht : π.t = π'.t)
    (hacc : Nisp2secAccepts g h n cv π c) (hacc' : Nisp2secAccepts g h n cv π' c') :
    unitOf n cv = unitOf n g ^ ((π.s1 - π'.s1) / (c - c')) * unitOf n h ^ ((π.s2 - π'.s2) / (c - c')) ∨
      SmallOrderUnit n (c - c') ∨ ChallengeNotDividing (c - c') (π.s1 - π'.s1) (π.s2 - π'.s2) := by
  by_cases hd : (c - c') ∣ (π.s1 - π'.s1) ∧ (c - c') ∣ (π.s2 - π'.s2)
  · have hs := nisp2sec_special_sound hA hn hg hh hc ht hacc hacc'
    obtain ⟨⟨m, hm⟩, ⟨r, hr⟩⟩ := hd
    set d := c - c' with hdd
    by_cases hd0 : d = 0
    · -- then Δs1 = Δs2 = 0 and nothing is learnt: `W = C / (G^0 H^0)`, `W^0 = 1`
      by_cases hC1 : unitOf n cv = 1
      · left
        rw [hm, hr, hd0]; simp [hC1]
      · right; left
        exact ⟨unitOf n cv, hC1, by rw [hd0]; simp⟩
    · rw [hm, hr, Int.mul_ediv_cancel_left _ hd0, Int.mul_ediv_cancel_left _ hd0]
      rw [hm, hr, zpow_mul', zpow_mul', ← mul_zpow] at hs
      by_cases hW : unitOf n cv * (unitOf n g ^ m * unitOf n h ^ r)⁻¹ = 1
      · left
        exact mul_inv_eq_one.1 hW
      · right; left
        refine ⟨_, hW, ?_⟩
        rw [mul_zpow, inv_zpow, hs, mul_inv_cancel]
  · exact Or.inr (Or.inr hd)

/-! ### the multi-base version -/

/-- `Π_j A_j^{e_j}` in a commutative group -/
def gprod {U : Type} [CommGroup U] (As : List U) (es : List Int) : U :=
  (List.zipWith (fun a e => a ^ e) As es).prod

theorem gprod_sub {U : Type} [CommGroup U] :
    ∀ (As : List U) (es es' : List Int), es.length = es'.length →
      gprod As es * (gprod As es')⁻¹ = gprod As (List.zipWith (· - ·) es es') := by
  intro As
  induction As with
  | nil => intro es es' _; simp [gprod]
  | cons A As ih =>
    intro es es' hl
    cases es with
    | nil =>
      cases es' with
      | nil => simp [gprod]
      | cons e' es' => simp at hl
    | cons e es =>
      cases es' with
      | nil => simp at hl
      | cons e' es' =>
        have := ih es es' (by simpa using hl)
        simp only [gprod, List.zipWith_cons_cons, List.prod_cons] at this ⊢
        rw [← this, zpow_sub, mul_inv]
        exact mul_mul_mul_comm _ _ _ _

/-- `prodPowZip` in the unit group, for arbitrary (also negative) exponents. -/
theorem prodPowZip_isRep (hA : ArithOK) {N : Int} {bases : List Int} (hN : 1 < N)
    (hau : ∀ a ∈ bases, Int.gcd a N = 1) :
    ∀ (ix : List Nat) (es : List Int) (acc x : Int) (t t' : List Draw) (A : (ZMod N.toNat)ˣ),
      IsRep N acc A → prodPowZip N bases ix es acc t = .ok (x, t') →
      IsRep N x (A * gprod (ix.map fun i => unitOf N (bases.getD i 1)) es) := by
  intro ix
  induction ix with
  | nil =>
    intro es acc x t t' A hacc h
    simp only [prodPowZip, pure_ok_iff] at h
    obtain ⟨rfl, rfl⟩ := h
    simpa [gprod] using hacc
  | cons i is ih =>
    intro es acc x t t' A hacc h
    simp only [prodPowZip, bind_ok_iff, idx_ok_iff, pw_ok_iff] at h
    obtain ⟨a, t1, ⟨ha, rfl⟩, e, t2, ⟨he, rfl⟩, y, t3, ⟨hy, rfl⟩, hrest⟩ := h
    obtain ⟨ha1, -⟩ := getElem?_getD ha 1
    have hau' : Int.gcd a N = 1 := hau a (List.mem_of_getElem? ha)
    cases es with
    | nil => simp at he
    | cons e' es' =>
      simp only [List.getElem?_cons_zero, Option.some.injEq] at he
      subst he
      have ry := powMod_isRep hA hN hau' (unitOf_spec hN hau') hy
      have := ih es' _ _ _ _ _ (hacc.mul ry) hrest
      simp only [List.map_cons, gprod, List.zipWith_cons_cons, List.prod_cons, ha1] at this ⊢
      rw [← mul_assoc]; exact this

/-- The verification equation of `nispMultiSecrets` with an explicit challenge `c`. -/
def NispMultiAccepts (pk : PublicKey) (bases : List Int) (U : List Nat) (cv : Int)
    (π : NISPMultiSecrets) (c : Int) : Prop :=
  U.length = π.s1.length ∧ ∃ x hs cc, prodPowZip pk.N bases U π.s1 1 [] = .ok (x, []) ∧
    powMod pk.b π.s2 pk.N = some hs ∧ powMod cv c pk.N = some cc ∧
    tmod (x * hs) pk.N = tmod (π.t * cc) pk.N

/-- `nispMultiSecrets_verify_proof` accepts iff the indexes are in range and the verification equation
holds for the challenge `hashInts (a_{U} ++ [b, C, t])`. -/
theorem nispMultiSecretsVerify_true_iff (π : NISPMultiSecrets) (cv : Int) (pk : PublicKey)
    (bases : List Int) (U : List Nat) (s s' : List Draw) :
    nispMultiSecretsVerify π cv pk bases (some U) s = .ok (true, s') ↔
      s' = s ∧ (∀ i ∈ U, i < bases.length) ∧
        NispMultiAccepts pk bases U cv π
          (hashInts (U.map (fun i => bases.getD i 1) ++ [pk.b, cv, π.t])) := by
  unfold nispMultiSecretsVerify NispMultiAccepts
  simp only [Option.getD_some]
  constructor
  · intro h
    split at h
    · cases h
    rename_i hlen
    simp only [bind_ok_iff, pw_ok_iff, pure_ok_iff, beq_iff_eq] at h
    obtain ⟨x, t1, hx, as, t2, has, hs, t3, ⟨hhs, rfl⟩, cc, t4, ⟨hcc, rfl⟩, heq, rfl⟩ := h
    have ht1 := (prodPowZip_tapeFree _ _ _ _ _).tape_eq hx
    subst ht1
    obtain ⟨rfl, rfl, hin⟩ := mapM_idx_elim _ _ _ _ has
    exact ⟨rfl, hin, not_not.1 hlen, x, hs, cc, (prodPowZip_tapeFree _ _ _ _ _).ok_any hx [], hhs, hcc,
      heq⟩
  · rintro ⟨hss, hin, hlen, x, hs, cc, hx, hhs, hcc, heq⟩
    rw [hss, if_neg (not_not.2 hlen), bind_of_ok ((prodPowZip_tapeFree _ _ _ _ _).ok_any hx s),
      bind_of_ok (mapM_idx_run _ s hin), bind_of_ok (pw_run hhs s), bind_of_ok (pw_run hcc s), pure_run,
      heq]
    simp

/-- **Special soundness of `nispMultiSecrets`.** Two accepting transcripts with the same `t` for the same
statement and challenges `c`, `c'` give `Π_j A_{U_j}^{s1_j - s1'_j} · B^{s2 - s2'} = C^{c - c'}` in
`(ℤ/N)ˣ`: a representation of `C^{c-c'}` in the bases `a_{U_j}`, `b`. Extraction of the attributes again
needs `(c - c')` to divide all response differences (`ChallengeNotDividing` otherwise). -/
theorem nispMulti_special_sound (hA : ArithOK) {pk : PublicKey} {bases : List Int} {U : List Nat}
    {cv c c' : Int} {π π' : NISPMultiSecrets} (hN : 1 < pk.N) (hbu : Int.gcd pk.b pk.N = 1)
    (hau : ∀ a ∈ bases, Int.gcd a pk.N = 1) (hc : Int.gcd cv pk.N = 1) (ht : π.t = π'.t)
    (hacc : NispMultiAccepts pk bases U cv π c) (hacc' : NispMultiAccepts pk bases U cv π' c') :
    gprod (U.map fun i => unitOf pk.N (bases.getD i 1)) (List.zipWith (· - ·) π.s1 π'.s1) *
        unitOf pk.N pk.b ^ (π.s2 - π'.s2) = unitOf pk.N cv ^ (c - c') := by
  have key : ∀ {ρ : NISPMultiSecrets} {k : Int}, NispMultiAccepts pk bases U cv ρ k →
      IsRep pk.N ρ.t (gprod (U.map fun i => unitOf pk.N (bases.getD i 1)) ρ.s1 *
        unitOf pk.N pk.b ^ ρ.s2 * (unitOf pk.N cv ^ k)⁻¹) := by
    intro ρ k hk
    obtain ⟨-, x, hs, cc, hx, hhs, hcc, heq⟩ := hk
    have rx := prodPowZip_isRep hA hN hau U ρ.s1 1 x [] [] 1 (by unfold IsRep; simp) hx
    rw [one_mul] at rx
    have rb := powMod_isRep hA hN hbu (unitOf_spec hN hbu) hhs
    have rc := powMod_isRep hA hN hc (unitOf_spec hN hc) hcc
    have h1 := (rx.mul rb).tmod hN
    rw [heq] at h1
    have h3 := IsRep.of_modEq hN (tmod_modEq (ρ.t * cc) pk.N).symm h1
    unfold IsRep at *
    push_cast at h3
    rw [rc] at h3
    rw [Units.val_mul, Units.val_mul, ← h3, mul_assoc, ← Units.val_mul, mul_inv_cancel, Units.val_one,
      mul_one]
  have r := key hacc
  have r' := key hacc'
  rw [← ht] at r'
  have e := r.inj r'
  rw [← gprod_sub _ _ _ (hacc.1.symm.trans hacc'.1), zpow_sub, zpow_sub]
  exact comm_group_aux _ _ _ _ _ _ e

/-! ## 16. Equal challenges -/

theorem compress_size (h : Array UInt32) (blk : Array UInt8) (off : Nat) :
    (Sha256.compress h blk off).size = 8 := by
  unfold Sha256.compress
  simp only [Id.run, bind, pure]
  rfl

theorem serialize_length (h : Array UInt32) : (Sha256.serialize h).length = 4 * h.size := by
  unfold Sha256.serialize
  rw [List.length_flatMap]
  simp; omega

theorem foldl_compress_size (p : Array UInt8) (l : List Nat) (h : Array UInt32) (hs : h.size = 8) :
    (l.foldl (fun s i => Sha256.compress s p (64 * i)) h).size = 8 := by
  induction l generalizing h with
  | nil => exact hs
  | cons a l ih => exact ih _ (compress_size _ _ _)

/-- The model's SHA-256 always returns 32 bytes. -/
theorem sha256_length (m : Bytes) : (sha256 m).length = 32 := by
  unfold sha256
  simp only [Id.run, bind, pure]
  rw [serialize_length]
  simp
  have := List.forIn_pure_yield_eq_foldl (m := Id) (l := List.range' 0 ((Sha256.pad m).size / 64))
    (fun i s => Sha256.compress s (Sha256.pad m) (64 * i)) Sha256.H0
  simp only [pure] at this
  rw [this, foldl_compress_size _ _ _ rfl]

theorem os2ip_foldl_inj (b b' : Bytes) (acc acc' : Nat) (hl : b.length = b'.length)
    (h : b.foldl (fun acc x => acc * 256 + x.toNat) acc = b'.foldl (fun acc x => acc * 256 + x.toNat) acc') :
    acc = acc' ∧ b = b' := by
  induction b generalizing b' acc acc' with
  | nil =>
    cases b' with
    | nil => exact ⟨h, rfl⟩
    | cons y ys => simp at hl
  | cons x xs ih =>
    cases b' with
    | nil => simp at hl
    | cons y ys =>
      simp only [List.length_cons, Nat.add_right_cancel_iff] at hl
      simp only [List.foldl_cons] at h
      obtain ⟨h1, h2⟩ := ih ys _ _ hl h
      have hx := UInt8.toNat_lt x
      have hy := UInt8.toNat_lt y
      have h3 : x.toNat = y.toNat := by omega
      exact ⟨by omega, by rw [UInt8.toNat_inj.mp h3, h2]⟩

/-- Two different challenge inputs with the same challenge: the decimal concatenations coincide
(`ConcatAmbiguity`) or SHA-256 collides (`ClHashCollision`). -/
theorem hashInts_collision {l l' : List Int} (hne : l ≠ l') (h : hashInts l = hashInts l') :
    ConcatAmbiguity ∨ ClHashCollision := by
  by_cases hb : l.flatMap decimalBytes = l'.flatMap decimalBytes
  · exact Or.inl ⟨l, l', hne, hb⟩
  · right
    refine ⟨_, _, hb, ?_⟩
    unfold hashInts at h
    exact (os2ip_foldl_inj _ _ 0 0 (by rw [sha256_length, sha256_length]) (Int.ofNat.inj h)).2

theorem IsRep.cop {n a : Int} {u} (hn : 1 < n) (ha : IsRep n a u) : IsCoprime a n := by
  unfold IsRep at ha
  obtain ⟨w, hw⟩ := ZMod.intCast_surjective ((u⁻¹ : (ZMod n.toNat)ˣ) : ZMod n.toNat)
  have h1 : ((a * w - 1 : Int) : ZMod n.toNat) = 0 := by
    push_cast; rw [ha, hw]; simp
  rw [ZMod.intCast_zmod_eq_zero_iff_dvd, natCast_toNat hn] at h1
  obtain ⟨k, hk⟩ := h1
  exact ⟨w, -k, by linarith⟩

/-- The components of an accepting `ZKPoK::verify_proof`. -/
theorem zkpokVerify_true_elim {cs : Suite} {π : ZKPoK} {Cv : Int} {Ctv : Option Int} {pk : PublicKey}
    {bases : List Int} {cpk : Option CommitmentPK} {U : List Nat} {t t' : List Draw}
    (h : zkpokVerify cs π Cv Ctv pk bases cpk U t = .ok (true, t')) :
    nispMultiSecretsVerify π.proofMsgs Cv pk bases (some U) [] = .ok (true, []) ∧
    zkMiVerifyLoop cs pk bases π U 0 [] = .ok (true, []) ∧
    (∀ ct k, Ctv = some ct → cpk = some k → ∃ p, π.proofCCtrusted = some p ∧
      nisp2Verify p Cv ct pk bases k U [] = .ok (true, [])) := by
  unfold zkpokVerify at h
  simp only [bind_ok_iff] at h
  obtain ⟨okT, t1, hT, h⟩ := h
  cases okT with
  | false => simp only [Bool.not_false, if_true, pure_ok_iff] at h; exact absurd h.1 (by decide)
  | true =>
    rw [not_true_if] at h
    simp only [bind_ok_iff] at h
    obtain ⟨ok1, t2, h1, h⟩ := h
    cases ok1 with
    | false => simp only [Bool.not_false, if_true, pure_ok_iff] at h; exact absurd h.1 (by decide)
    | true =>
      rw [not_true_if] at h
      simp only [bind_ok_iff] at h
      obtain ⟨ok2, t3, h2, h⟩ := h
      cases ok2 with
      | false => simp only [Bool.not_false, if_true, pure_ok_iff] at h; exact absurd h.1 (by decide)
      | true =>
        refine ⟨(nispMultiSecretsVerify_tapeFree _ _ _ _ _).ok_any h1 [],
          (zkMiVerifyLoop_tapeFree _ _ _ _ _ _).ok_any h2 [], ?_⟩
        intro ct k h3 h4
        subst h3 h4
        simp only [bind_ok_iff, ofOpt_ok_iff] at hT
        obtain ⟨p, t0, ⟨hp, rfl⟩, hv⟩ := hT
        exact ⟨p, hp, (nisp2Verify_tapeFree _ _ _ _ _ _ _).ok_any hv []⟩

/-! ## 17. `ZKPoK::verify_proof` is a conjunction of independent checks -/

theorem zkMiVerifyLoop_congr (cs : Suite) (pk : PublicKey) (bases : List Int) {π π' : ZKPoK}
    (h1 : π.proofsMi = π'.proofsMi) (h2 : π.rangeProofsMi = π'.rangeProofsMi) :
    ∀ (is : List Nat) (k : Nat), zkMiVerifyLoop cs pk bases π is k = zkMiVerifyLoop cs pk bases π' is k := by
  intro is
  induction is with
  | nil => intro k; rfl
  | cons i is ih =>
    intro k
    simp only [zkMiVerifyLoop, h1, h2, ih]

/-- The five independent checks of `ZKPoK::verify_proof`. -/
structure ZkpokChecks (cs : Suite) (π : ZKPoK) (Cv : Int) (Ctv : Option Int) (pk : PublicKey)
    (bases : List Int) (cpk : Option CommitmentPK) (U : List Nat) : Prop where
  trusted : ∀ ct k, Ctv = some ct → cpk = some k → ∃ p, π.proofCCtrusted = some p ∧
    nisp2Verify p Cv ct pk bases k U [] = .ok (true, [])
  msgs : nispMultiSecretsVerify π.proofMsgs Cv pk bases (some U) [] = .ok (true, [])
  mi : zkMiVerifyLoop cs pk bases π U 0 [] = .ok (true, [])
  r : ∃ a0, bases[0]? = some a0 ∧
    nisp2secVerify π.proofR.value π.proofR.commitment.value a0 pk.b pk.N [] = .ok (true, []) ∧
    rangeVerify cs π.rangeProofR a0 pk.b pk.N 0 (2 ^ cs.ln - 1) [] = .ok (true, [])

theorem zkpokVerify_true_iff {cs : Suite} {π : ZKPoK} {Cv : Int} {Ctv : Option Int} {pk : PublicKey}
    {bases : List Int} {cpk : Option CommitmentPK} {U : List Nat} {t t' : List Draw} :
    zkpokVerify cs π Cv Ctv pk bases cpk U t = .ok (true, t') ↔
      t' = t ∧ ZkpokChecks cs π Cv Ctv pk bases cpk U := by
  constructor
  · intro h
    have ht := (zkpokVerify_tapeFree _ _ _ _ _ _ _ _).tape_eq h
    obtain ⟨h1, h2, h3⟩ := zkpokVerify_true_elim h
    refine ⟨ht, h3, h1, h2, ?_⟩
    have h0 := (zkpokVerify_tapeFree _ _ _ _ _ _ _ _).ok_any h []
    unfold zkpokVerify at h0
    simp only [bind_ok_iff] at h0
    obtain ⟨okT, t1, hT, h0⟩ := h0
    cases okT with
    | false => simp only [Bool.not_false, if_true, pure_ok_iff] at h0; exact absurd h0.1 (by decide)
    | true =>
      rw [not_true_if, bind_of_ok ((nispMultiSecretsVerify_tapeFree _ _ _ _ _).ok_any h1 t1), not_true_if,
        bind_of_ok ((zkMiVerifyLoop_tapeFree _ _ _ _ _ _).ok_any h2 t1), not_true_if] at h0
      simp only [bind_ok_iff, idx_ok_iff] at h0
      obtain ⟨a0, t2, ⟨ha0, rfl⟩, ok, t3, hv, h0⟩ := h0
      cases ok with
      | false => simp only [Bool.not_false, if_true, pure_ok_iff] at h0; exact absurd h0.1 (by decide)
      | true =>
        rw [not_true_if] at h0
        exact ⟨a0, ha0, (nisp2secVerify_tapeFree _ _ _ _ _).ok_any hv [],
          (rangeVerify_tapeFree _ _ _ _ _ _ _).ok_any h0 []⟩
  · rintro ⟨rfl, hT, h1, h2, a0, ha0, h3, h4⟩
    unfold zkpokVerify
    have key : ∀ (X : M Bool), X t' = .ok (true, t') →
        (X >>= fun okT => if (!okT) = true then pure false else do
          let ok ← nispMultiSecretsVerify π.proofMsgs Cv pk bases (some U)
          if (!ok) = true then pure false else do
            let ok ← zkMiVerifyLoop cs pk bases π U 0
            if (!ok) = true then pure false else do
              let a0 ← idx bases 0
              let ok ← nisp2secVerify π.proofR.value π.proofR.commitment.value a0 pk.b pk.N
              if (!ok) = true then pure false
              else rangeVerify cs π.rangeProofR a0 pk.b pk.N 0 (2 ^ cs.ln - 1)) t' = .ok (true, t') := by
      intro X hX
      rw [bind_of_ok hX, not_true_if,
        bind_of_ok ((nispMultiSecretsVerify_tapeFree _ _ _ _ _).ok_any h1 t'), not_true_if,
        bind_of_ok ((zkMiVerifyLoop_tapeFree _ _ _ _ _ _).ok_any h2 t'), not_true_if,
        bind_of_ok (idx_run ha0 t'), bind_of_ok ((nisp2secVerify_tapeFree _ _ _ _ _).ok_any h3 t'),
        not_true_if]
      exact (rangeVerify_tapeFree _ _ _ _ _ _ _).ok_any h4 t'
    apply key
    cases Ctv with
    | none => rfl
    | some ct =>
      cases cpk with
      | none => rfl
      | some k =>
        obtain ⟨p, hp, hv⟩ := hT ct k rfl rfl
        show (ofOpt π.proofCCtrusted >>= fun p => nisp2Verify p Cv ct pk bases k U) t' = _
        rw [bind_of_ok (ofOpt_run hp t')]
        exact (nisp2Verify_tapeFree _ _ _ _ _ _ _).ok_any hv t'

end Zk.ClSigma
