/-
Core algebra of BBS signatures in the abstract setting: the pairing check of `coreVerify`
is equivalent to `(sk + e) • A = B`, and `coreSign` produces exactly such an `A`.
-/
import ZkProofs.Lawful
set_option linter.unusedSectionVars false
set_option linter.unusedSimpArgs false
namespace Zk
open Res

section
variable {S G1 G2 GT : Type} [Field S] [DecidableEq S]
variable [AddCommGroup G1] [Module S G1] [DecidableEq G1]
variable [AddCommGroup G2] [Module S G2] [DecidableEq G2]
variable [AddCommGroup GT] [Module S GT]
variable {env : Env S G1 G2} {pair : G1 →ₗ[S] G2 →ₗ[S] GT}

/-- The two-term pairing product of `core_verify` vanishes iff `(sk + e) • A = B`. -/
theorem pairing_sig_iff (hl : Lawful env pair) (sk e : S) (A B : G1) :
    env.pairingCheck [(A, sk • env.bp2 + e • env.bp2), (B, -env.bp2)] = true ↔
      (sk + e) • A = B := by
  rw [hl.pairing_spec]
  simp only [List.map_cons, List.map_nil, List.sum_cons, List.sum_nil, add_zero]
  have h1 : pair A (sk • env.bp2 + e • env.bp2) + pair B (-env.bp2)
      = pair ((sk + e) • A - B) env.bp2 := by
    simp only [map_add, map_smul, map_neg, map_sub, LinearMap.add_apply, LinearMap.smul_apply,
      LinearMap.sub_apply, LinearMap.neg_apply]
    module
  rw [h1]
  constructor
  · intro h
    have := hl.nondeg _ h
    exact sub_eq_zero.mp this
  · intro h
    rw [h, sub_self, map_zero, LinearMap.zero_apply]

/-- The proof pairing `e(Abar, pk) · e(Bbar, −bp2) = 1` iff `sk • Abar = Bbar`. -/
theorem pairing_proof_iff (hl : Lawful env pair) (sk : S) (Abar Bbar : G1) :
    env.pairingCheck [(Abar, sk • env.bp2), (Bbar, -env.bp2)] = true ↔ sk • Abar = Bbar := by
  have := pairing_sig_iff hl sk 0 Abar Bbar
  simpa using this

/-- `calcB` unfolded: the fold over the zipped lists is base + domain•Q1 + Σ mᵢ • Hᵢ. -/
theorem calcB_eq (base Q1 : G1) (domain : S) (Hs : List G1) (msgs : List S) :
    calcB base Q1 domain Hs msgs
      = base + domain • Q1 + ((Hs.zip msgs).map fun hm => hm.2 • hm.1).sum := by
  unfold calcB
  generalize base + domain • Q1 = acc
  induction Hs.zip msgs generalizing acc with
  | nil => simp
  | cons a l ih => simp only [List.foldl_cons, List.map_cons, List.sum_cons]; rw [ih, add_assoc]

/-- What `coreVerify` decides, for a public key `pk = sk • BP2`. -/
theorem coreVerify_ok_iff (hl : Lawful env pair) (cs : Suite G1) (sk : S) (σ : Signature S G1)
    (msgs : List S) (gens : Generators G1) (header apiId : Option Bytes) :
    coreVerify env cs (sk • env.bp2) σ msgs gens header apiId = .ok () ↔
      ∃ Q1 Hs domain, gens.values = Q1 :: Hs ∧ Hs.length = msgs.length ∧
        calculateDomain env cs (sk • env.bp2) Q1 Hs header apiId = .ok domain ∧
        (sk + σ.e) • σ.A = calcB gens.base Q1 domain Hs msgs := by
  unfold coreVerify
  split
  · rename_i hlen
    constructor
    · intro h; cases h
    · rintro ⟨Q1, Hs, d, hv, hlen', _⟩
      rw [hv] at hlen; simp [hlen'] at hlen
  · rename_i hlen
    cases hv : gens.values with
    | nil => rw [hv] at hlen; simp at hlen
    | cons Q1 Hs =>
      simp only
      rw [hv] at hlen
      have hlen' : Hs.length = msgs.length := by simpa using hlen
      cases hd : calculateDomain env cs (sk • env.bp2) Q1 Hs header apiId with
      | err =>
        constructor
        · intro h; cases h
        · rintro ⟨Q1', Hs', d', hcons, _, hd', _⟩
          obtain ⟨rfl, rfl⟩ := List.cons.inj hcons
          rw [hd] at hd'; cases hd'
      | panic =>
        constructor
        · intro h; cases h
        · rintro ⟨Q1', Hs', d', hcons, _, hd', _⟩
          obtain ⟨rfl, rfl⟩ := List.cons.inj hcons
          rw [hd] at hd'; cases hd'
      | ok domain =>
        simp only
        constructor
        · intro h
          refine ⟨Q1, Hs, domain, rfl, hlen', hd, ?_⟩
          split at h
          · rename_i hp; exact (pairing_sig_iff hl sk σ.e σ.A _).mp hp
          · cases h
        · rintro ⟨Q1', Hs', d', hcons, _, hd', heq⟩
          obtain ⟨rfl, rfl⟩ := List.cons.inj hcons
          rw [hd] at hd'; cases hd'
          rw [if_pos ((pairing_sig_iff hl sk σ.e σ.A _).mpr heq)]

/-- `coreSign` either fails or returns `A = (sk+e)⁻¹ • B` with `sk + e ≠ 0`, `A ≠ 0`. -/
theorem coreSign_ok (hl : Lawful env pair) (cs : Suite G1) (sk : S) (pk : G2) (gens : Generators G1)
    (header : Option Bytes) (msgs : List S) (apiId : Option Bytes) (σ : Signature S G1)
    (h : coreSign env cs sk pk gens header msgs apiId = .ok σ) :
    ∃ Q1 Hs domain, gens.values = Q1 :: Hs ∧ Hs.length = msgs.length ∧
      calculateDomain env cs pk Q1 Hs header (some (apiId.getD [])) = .ok domain ∧
      sk + σ.e ≠ 0 ∧ σ.A ≠ 0 ∧
      (sk + σ.e) • σ.A = calcB gens.base Q1 domain Hs msgs := by
  unfold coreSign at h
  split at h
  · cases h
  · rename_i hlen
    cases hv : gens.values with
    | nil => rw [hv] at hlen; simp at hlen
    | cons Q1 Hs =>
      rw [hv] at h hlen
      simp only at h
      have hlen' : Hs.length = msgs.length := by simpa using hlen
      cases hd : calculateDomain env cs pk Q1 Hs header (some (apiId.getD [])) with
      | err => rw [hd] at h; cases h
      | panic => rw [hd] at h; cases h
      | ok domain =>
        rw [hd] at h; simp only at h
        cases he : hashToScalar env cs (serializeScalars env (sk :: msgs ++ [domain]))
            (apiId.getD [] ++ cs.h2s) with
        | err => rw [he] at h; cases h
        | panic => rw [he] at h; cases h
        | ok e =>
          rw [he] at h; simp only at h
          by_cases hz : sk + e = 0
          · rw [hz, hl.sInv_zero] at h; cases h
          · rw [hl.sInv_ne _ hz] at h
            simp only at h
            split at h
            · cases h
            · rename_i hA
              cases h
              refine ⟨Q1, Hs, domain, rfl, hlen', hd, hz, hA, ?_⟩
              simp only
              rw [smul_smul, mul_inv_cancel₀ hz, one_smul]

end
end Zk
