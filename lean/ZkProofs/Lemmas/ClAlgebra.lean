/-
Bridge from the `Int`-level computations of the CL03 model to modular algebra.

* `pw_nonneg`, `pw_neg`, `pw_neg_none`: what `pw b e N` returns (given `ArithOK`);
* `Int.ModEq` facts (`emod_modEq`, products, powers), `tmod = %` on non-negatives;
* Euler in `(ZMod n)ˣ`: `pow_modEq_of_modEq_totient`, `pow_left_cancel_of_coprime_totient`;
* `KeyOK pk sk` (N = p·q, p ≠ q primes) with `φ(N) = (p-1)(q-1)`; `pow_mul_inv_phi`;
* `powList` / `prodPow_spec`: closed form of the product loop and its panic condition.
-/
import ZkProofs.Lemmas.ClMonad
import Mathlib.Data.Int.ModEq
import Mathlib.Data.ZMod.Units
import Mathlib.Data.Nat.Totient
import Mathlib.FieldTheory.Finite.Basic
import Mathlib.GroupTheory.OrderOfElement
namespace Zk.Cl
open Zk.IA

/-! ### `pw` -/

theorem pw_nonneg (hA : ArithOK) {b e N : Int} (hN : 0 < N) (he : 0 ≤ e) (t : List Draw) :
    pw b e N t = .ok (b ^ e.toNat % N, t) :=
  pw_apply (hA.powMod_nonneg b e N hN he) t

/-- negative exponent, invertible base. -/
theorem pw_neg (hA : ArithOK) {b e N bi : Int} (hN : 0 < N) (he : e < 0) (hb : invMod b N = some bi)
    (t : List Draw) : pw b e N t = .ok (bi ^ (-e).toNat % N, t) :=
  pw_apply (by rw [hA.powMod_neg b e N hN he, hb]; rfl) t

/-- negative exponent, base without inverse: Rust's `unwrap` panics. -/
theorem pw_neg_none (hA : ArithOK) {b e N : Int} (hN : 0 < N) (he : e < 0) (hb : invMod b N = none)
    (t : List Draw) : pw b e N t = .panic :=
  pw_apply_none (by rw [hA.powMod_neg b e N hN he, hb]; rfl) t

/-- `pw` with a non-negative exponent never panics and its value is in `[0, N)`. -/
theorem pw_nonneg_range {b e N : Int} (hN : 0 < N) : 0 ≤ b ^ e.toNat % N ∧ b ^ e.toNat % N < N :=
  ⟨Int.emod_nonneg _ (Int.ne_of_gt hN), Int.emod_lt_of_pos _ hN⟩

/-- every successful `pw` with non-negative exponent returned `b^e % N`. -/
theorem pw_nonneg_ok_iff (hA : ArithOK) {b e N x : Int} (hN : 0 < N) (he : 0 ≤ e) {t t' : List Draw} :
    pw b e N t = .ok (x, t') ↔ x = b ^ e.toNat % N ∧ t' = t := by
  rw [pw_nonneg hA hN he]
  simp only [CRes.ok.injEq, Prod.mk.injEq, eq_comm]

/-- a `pw` with modulus `≤ 0` panics. -/
theorem pw_modulus_nonpos {b e N : Int} (hN : N ≤ 0) (t : List Draw) : pw b e N t = .panic :=
  pw_apply_none (by unfold powMod; rw [if_pos hN]) t

/-! ### congruences -/

theorem emod_modEq (a N : Int) : a % N ≡ a [ZMOD N] := Int.mod_modEq a N

theorem pow_emod_modEq (b : Int) (k : Nat) (N : Int) : b ^ k % N ≡ b ^ k [ZMOD N] := Int.mod_modEq _ _

theorem modEq_iff_emod_eq {a b N : Int} : a ≡ b [ZMOD N] ↔ a % N = b % N := Iff.rfl

theorem tmod_eq_emod {a N : Int} (ha : 0 ≤ a) : tmod a N = a % N := Int.tmod_eq_emod_of_nonneg ha

theorem tmod_modEq {a N : Int} (ha : 0 ≤ a) : tmod a N ≡ a [ZMOD N] := by
  rw [tmod_eq_emod ha]; exact Int.mod_modEq a N

/-- two residues in `[0, N)`: equal iff congruent. -/
theorem emod_eq_emod_iff {a b N : Int} : a % N = b % N ↔ a ≡ b [ZMOD N] := Iff.rfl

theorem eq_of_modEq_of_range {a b N : Int} (h : a ≡ b [ZMOD N]) (ha0 : 0 ≤ a) (ha : a < N)
    (hb0 : 0 ≤ b) (hb : b < N) : a = b := by
  have h' : a % N = b % N := h
  rwa [Int.emod_eq_of_lt ha0 ha, Int.emod_eq_of_lt hb0 hb] at h'

theorem list_prod_modEq {N : Int} {l l' : List Int} (h : List.Forall₂ (fun a b => a ≡ b [ZMOD N]) l l') :
    l.prod ≡ l'.prod [ZMOD N] := by
  induction h with
  | nil => exact Int.ModEq.refl _
  | cons hab _ ih => rw [List.prod_cons, List.prod_cons]; exact hab.mul ih

theorem list_prod_nonneg {l : List Int} (h : ∀ x ∈ l, 0 ≤ x) : 0 ≤ l.prod := by
  induction l with
  | nil => simp
  | cons a l ih =>
    rw [List.prod_cons]
    exact Int.mul_nonneg (h a (List.mem_cons_self ..)) (ih fun x hx => h x (List.mem_cons_of_mem _ hx))

theorem foldl_mul_eq_prod (l : List Int) (acc : Int) : l.foldl (· * ·) acc = acc * l.prod := by
  induction l generalizing acc with
  | nil => simp
  | cons a l ih => rw [List.foldl_cons, ih, List.prod_cons, mul_assoc]

/-! ### units modulo `n`, Euler -/

theorem isCoprime_of_gcd_eq_one {x : Int} {n : Nat} (h : Int.gcd x n = 1) : IsCoprime x (n : Int) :=
  Int.isCoprime_iff_gcd_eq_one.mpr h

/-- exponents congruent modulo `φ(n)` give congruent powers of a unit. -/
theorem pow_modEq_of_modEq_totient {n : Nat} {x : Int} (hx : Int.gcd x n = 1) {a b : Nat}
    (h : a ≡ b [MOD Nat.totient n]) : x ^ a ≡ x ^ b [ZMOD n] := by
  let u : (ZMod n)ˣ := ZMod.unitOfIsCoprime x (isCoprime_of_gcd_eq_one hx)
  have hu : (u : ZMod n) = (x : ZMod n) := rfl
  have h1 : u ^ a = u ^ b := by
    rw [pow_eq_pow_mod a (ZMod.pow_totient u), pow_eq_pow_mod b (ZMod.pow_totient u)]
    exact congrArg _ h
  have h2 : ((x ^ a : Int) : ZMod n) = ((x ^ b : Int) : ZMod n) := by
    push_cast
    rw [← hu, ← Units.val_pow_eq_pow_val, ← Units.val_pow_eq_pow_val, h1]
  exact (ZMod.intCast_eq_intCast_iff _ _ _).mp h2

/-- **Euler.** `x^φ(n) ≡ 1` for a unit `x`. -/
theorem pow_totient_modEq {n : Nat} {x : Int} (hx : Int.gcd x n = 1) :
    x ^ Nat.totient n ≡ 1 [ZMOD n] := by
  have := pow_modEq_of_modEq_totient hx (a := Nat.totient n) (b := 0)
    (by unfold Nat.ModEq; simp)
  simpa using this

/-- `e`-th powers are injective on units when `gcd(e, φ(n)) = 1`. -/
theorem pow_left_cancel_of_coprime_totient {n : Nat} [NeZero n] {x y : Int} (hx : Int.gcd x n = 1)
    (hy : Int.gcd y n = 1) {e : Nat} (he : Nat.Coprime e (Nat.totient n))
    (h : x ^ e ≡ y ^ e [ZMOD n]) : x ≡ y [ZMOD n] := by
  let u : (ZMod n)ˣ := ZMod.unitOfIsCoprime x (isCoprime_of_gcd_eq_one hx)
  let w : (ZMod n)ˣ := ZMod.unitOfIsCoprime y (isCoprime_of_gcd_eq_one hy)
  have hcard : (Nat.card (ZMod n)ˣ).Coprime e := by
    rw [Nat.card_eq_fintype_card, ZMod.card_units_eq_totient]; exact he.symm
  have h2 : u ^ e = w ^ e := by
    apply Units.ext
    rw [Units.val_pow_eq_pow_val, Units.val_pow_eq_pow_val]
    show (x : ZMod n) ^ e = (y : ZMod n) ^ e
    have := (ZMod.intCast_eq_intCast_iff _ _ _).mpr h
    push_cast at this
    exact this
  have h3 : u = w := hcard.pow_left_bijective.injective h2
  have h4 : (x : ZMod n) = (y : ZMod n) := congrArg Units.val h3
  exact (ZMod.intCast_eq_intCast_iff _ _ _).mp h4

/-- a unit whose `e`-th power is `1`, `gcd(e, φ(n)) = 1`, is `1`. -/
theorem eq_one_of_pow_eq_one_of_coprime_totient {n : Nat} [NeZero n] {x : Int} (hx : Int.gcd x n = 1)
    {e : Nat} (he : Nat.Coprime e (Nat.totient n)) (h : x ^ e ≡ 1 [ZMOD n]) : x ≡ 1 [ZMOD n] :=
  pow_left_cancel_of_coprime_totient hx (by simp) he (by simpa using h)

/-- products and powers of units are units. -/
theorem gcd_mul_eq_one {x y N : Int} (hx : Int.gcd x N = 1) (hy : Int.gcd y N = 1) :
    Int.gcd (x * y) N = 1 :=
  Int.isCoprime_iff_gcd_eq_one.mp
    ((Int.isCoprime_iff_gcd_eq_one.mpr hx).mul_left (Int.isCoprime_iff_gcd_eq_one.mpr hy))

theorem gcd_pow_eq_one {x N : Int} (hx : Int.gcd x N = 1) (k : Nat) : Int.gcd (x ^ k) N = 1 :=
  Int.isCoprime_iff_gcd_eq_one.mp ((Int.isCoprime_iff_gcd_eq_one.mpr hx).pow_left)

theorem gcd_emod_eq_one {x N : Int} (hx : Int.gcd x N = 1) : Int.gcd (x % N) N = 1 := by
  rw [Int.gcd_emod]; exact hx

theorem gcd_eq_one_of_modEq {x y N : Int} (h : x ≡ y [ZMOD N]) (hx : Int.gcd x N = 1) :
    Int.gcd y N = 1 := by
  have h' : x % N = y % N := h
  rw [← Int.gcd_emod, ← h', Int.gcd_emod]; exact hx

theorem gcd_list_prod_eq_one {l : List Int} {N : Int} (h : ∀ x ∈ l, Int.gcd x N = 1) :
    Int.gcd l.prod N = 1 := by
  induction l with
  | nil => simp
  | cons a l ih =>
    rw [List.prod_cons]
    exact gcd_mul_eq_one (h a (List.mem_cons_self ..)) (ih fun x hx => h x (List.mem_cons_of_mem _ hx))

/-- a unit modulo `N` that is a `e`-th root … : if `v^e` is a unit then so is `v` (`e ≥ 1`). -/
theorem gcd_eq_one_of_pow {v N : Int} {e : Nat} (he : e ≠ 0) (h : Int.gcd (v ^ e) N = 1) :
    Int.gcd v N = 1 := by
  have hc : IsCoprime (v ^ e) N := Int.isCoprime_iff_gcd_eq_one.mpr h
  exact Int.isCoprime_iff_gcd_eq_one.mp ((IsCoprime.pow_left_iff (Nat.pos_of_ne_zero he)).mp hc)

/-! ### RSA keys -/

/-- The key relation of `KeyPair::generate`: `N = p·q` for distinct primes. -/
structure KeyOK (pk : PublicKey) (sk : SecretKey) : Prop where
  hp : Nat.Prime sk.p.toNat
  hq : Nat.Prime sk.q.toNat
  hne : sk.p ≠ sk.q
  hN : pk.N = sk.p * sk.q

/-- `φ = (p-1)(q-1)` as the model computes it. -/
def phi (sk : SecretKey) : Int := (sk.p - 1) * (sk.q - 1)

namespace KeyOK
variable {pk : PublicKey} {sk : SecretKey}

theorem p_eq (h : KeyOK pk sk) : sk.p = (sk.p.toNat : Int) := by
  have := h.hp.two_le; omega
theorem q_eq (h : KeyOK pk sk) : sk.q = (sk.q.toNat : Int) := by
  have := h.hq.two_le; omega
theorem two_le_p (h : KeyOK pk sk) : 2 ≤ sk.p := by have := h.hp.two_le; omega
theorem two_le_q (h : KeyOK pk sk) : 2 ≤ sk.q := by have := h.hq.two_le; omega

theorem N_eq (h : KeyOK pk sk) : pk.N = ((sk.p.toNat * sk.q.toNat : Nat) : Int) := by
  rw [h.hN]; push_cast; rw [← h.p_eq, ← h.q_eq]

theorem N_toNat (h : KeyOK pk sk) : pk.N.toNat = sk.p.toNat * sk.q.toNat := by
  rw [h.N_eq]; exact Int.toNat_natCast _

theorem N_cast (h : KeyOK pk sk) : ((pk.N.toNat : Nat) : Int) = pk.N := by
  rw [h.N_toNat, ← h.N_eq]

theorem one_lt_N (h : KeyOK pk sk) : 1 < pk.N := by
  rw [h.hN]; have := h.two_le_p; have := h.two_le_q; nlinarith

theorem N_pos (h : KeyOK pk sk) : 0 < pk.N := by have := h.one_lt_N; omega

theorem ne_nat (h : KeyOK pk sk) : sk.p.toNat ≠ sk.q.toNat := by
  intro he; apply h.hne; rw [h.p_eq, h.q_eq, he]

/-- `φ(N) = (p-1)(q-1)`. -/
theorem totient (h : KeyOK pk sk) : Nat.totient pk.N.toNat = (sk.p.toNat - 1) * (sk.q.toNat - 1) := by
  rw [h.N_toNat, Nat.totient_mul ((Nat.coprime_primes h.hp h.hq).mpr h.ne_nat),
    Nat.totient_prime h.hp, Nat.totient_prime h.hq]

theorem phi_eq (h : KeyOK pk sk) : phi sk = ((Nat.totient pk.N.toNat : Nat) : Int) := by
  rw [h.totient, phi]
  have := h.hp.two_le; have := h.hq.two_le
  push_cast
  rw [Nat.cast_sub (by omega), Nat.cast_sub (by omega), ← h.p_eq, ← h.q_eq]; rfl

theorem one_lt_phi (h : KeyOK pk sk) : 1 < phi sk := by
  have hp := h.two_le_p; have hq := h.two_le_q; have hne := h.hne
  unfold phi
  rcases Int.lt_or_lt_of_ne hne with hlt | hlt
  · have : 2 ≤ sk.q - 1 := by omega
    have : 1 ≤ sk.p - 1 := by omega
    nlinarith
  · have : 2 ≤ sk.p - 1 := by omega
    have : 1 ≤ sk.q - 1 := by omega
    nlinarith

theorem phi_pos (h : KeyOK pk sk) : 0 < phi sk := by have := h.one_lt_phi; omega

theorem neZero (h : KeyOK pk sk) : NeZero pk.N.toNat := ⟨by
  have := h.N_pos; omega⟩

end KeyOK

/-- **RSA correctness** (the heart of `sign`/`verify`): for `N = p·q`, `gcd(x, N) = 1` and
`e·d ≡ 1 (mod φ)`, `(x^d)^e ≡ x (mod N)`. -/
theorem pow_mul_inv_phi {pk : PublicKey} {sk : SecretKey} (hk : KeyOK pk sk) {x e d : Int}
    (hx : Int.gcd x pk.N = 1) (he : 0 ≤ e) (hd : 0 ≤ d) (hed : e * d ≡ 1 [ZMOD phi sk]) :
    (x ^ d.toNat) ^ e.toNat ≡ x [ZMOD pk.N] := by
  have hx' : Int.gcd x (pk.N.toNat : Int) = 1 := by rw [hk.N_cast]; exact hx
  have hmod : d.toNat * e.toNat ≡ 1 [MOD Nat.totient pk.N.toNat] := by
    apply Int.natCast_modEq_iff.mp
    rw [← hk.phi_eq]
    push_cast
    rw [Int.toNat_of_nonneg he, Int.toNat_of_nonneg hd, mul_comm]
    exact hed
  have := pow_modEq_of_modEq_totient hx' hmod
  rw [hk.N_cast, pow_one, pow_mul] at this
  exact this

/-- the same with `d = invMod e φ` as the signer computes it. -/
theorem pow_invMod_phi (hA : ArithOK) {pk : PublicKey} {sk : SecretKey} (hk : KeyOK pk sk)
    {x e d : Int} (hx : Int.gcd x pk.N = 1) (he : 0 ≤ e) (hd : invMod e (phi sk) = some d) :
    0 ≤ d ∧ (x ^ d.toNat) ^ e.toNat ≡ x [ZMOD pk.N] := by
  obtain ⟨hd0, -, hmul⟩ := hA.invMod_some e (phi sk) d hk.one_lt_phi hd
  refine ⟨hd0, pow_mul_inv_phi hk hx he hd0 ?_⟩
  show e * d % phi sk = 1 % phi sk
  rw [hmul, Int.emod_eq_of_lt (by omega) hk.one_lt_phi]

theorem gcd_eq_one_iff {a b : Int} : IA.gcd a b = 1 ↔ Int.gcd a b = 1 :=
  ⟨fun h => Int.ofNat.inj h, fun h => by unfold IA.gcd; rw [h]; rfl⟩

/-- `gcd(e, φ) = 1` in the model's sense gives Mathlib's coprimality with `φ(N)`. -/
theorem coprime_totient_of_gcd {pk : PublicKey} {sk : SecretKey} (hk : KeyOK pk sk) {e : Int}
    (he : 0 ≤ e) (hg : IA.gcd e (phi sk) = 1) : Nat.Coprime e.toNat (Nat.totient pk.N.toNat) := by
  unfold IA.gcd at hg
  have hg' : Int.gcd e (phi sk) = 1 := Int.ofNat.inj hg
  rw [hk.phi_eq] at hg'
  have : Int.gcd (e.toNat : Int) (Nat.totient pk.N.toNat : Int) = 1 := by
    rw [Int.toNat_of_nonneg he]; exact hg'
  rwa [Int.gcd_natCast_natCast] at this

/-- `e`-th roots of unit residues are unique modulo `N` when `gcd(e, φ) = 1`. -/
theorem pow_left_cancel_phi {pk : PublicKey} {sk : SecretKey} (hk : KeyOK pk sk) {x y e : Int}
    (hx : Int.gcd x pk.N = 1) (hy : Int.gcd y pk.N = 1) (he : 0 ≤ e) (hg : IA.gcd e (phi sk) = 1)
    (h : x ^ e.toNat ≡ y ^ e.toNat [ZMOD pk.N]) : x ≡ y [ZMOD pk.N] := by
  have := hk.neZero
  have := pow_left_cancel_of_coprime_totient (n := pk.N.toNat) (x := x) (y := y)
    (by rw [hk.N_cast]; exact hx) (by rw [hk.N_cast]; exact hy) (coprime_totient_of_gcd hk he hg)
    (by rw [hk.N_cast]; exact h)
  rwa [hk.N_cast] at this

/-! ### the product loop -/

/-- the factors `bases[j]^{msgs[j]} mod N` the loop multiplies together. -/
def powList (N : Int) (bases msgs : List Int) : List Int :=
  List.zipWith (fun a m => a ^ m.toNat % N) bases msgs

/-- the unreduced factors `bases[j]^{msgs[j]}`. -/
def rawList (bases msgs : List Int) : List Int :=
  List.zipWith (fun a m => a ^ m.toNat) bases msgs

@[simp] theorem powList_nil_right (N : Int) (bases : List Int) : powList N bases [] = [] := by
  unfold powList; simp
@[simp] theorem powList_cons (N a m : Int) (bases msgs : List Int) :
    powList N (a :: bases) (m :: msgs) = (a ^ m.toNat % N) :: powList N bases msgs := rfl
@[simp] theorem rawList_nil_right (bases : List Int) : rawList bases [] = [] := by
  unfold rawList; simp
@[simp] theorem rawList_cons (a m : Int) (bases msgs : List Int) :
    rawList (a :: bases) (m :: msgs) = (a ^ m.toNat) :: rawList bases msgs := rfl

theorem powList_length (N : Int) (bases msgs : List Int) :
    (powList N bases msgs).length = min bases.length msgs.length := by
  unfold powList; simp

theorem powList_forall₂_rawList (N : Int) (bases msgs : List Int) :
    List.Forall₂ (fun a b => a ≡ b [ZMOD N]) (powList N bases msgs) (rawList bases msgs) := by
  induction bases generalizing msgs with
  | nil => unfold powList rawList; simp
  | cons a bases ih =>
    cases msgs with
    | nil => simp
    | cons m msgs => exact .cons (Int.mod_modEq _ _) (ih msgs)

/-- `Π (aᵢ^{mᵢ} mod N) ≡ Π aᵢ^{mᵢ}`. -/
theorem powList_prod_modEq (N : Int) (bases msgs : List Int) :
    (powList N bases msgs).prod ≡ (rawList bases msgs).prod [ZMOD N] :=
  list_prod_modEq (powList_forall₂_rawList N bases msgs)

theorem powList_nonneg {N : Int} (hN : 0 < N) (bases msgs : List Int) :
    ∀ x ∈ powList N bases msgs, 0 ≤ x := by
  intro x hx
  unfold powList at hx
  rw [List.mem_iff_getElem] at hx
  obtain ⟨i, hi, rfl⟩ := hx
  rw [List.getElem_zipWith]
  exact Int.emod_nonneg _ (Int.ne_of_gt hN)

theorem powList_prod_nonneg {N : Int} (hN : 0 < N) (bases msgs : List Int) :
    0 ≤ (powList N bases msgs).prod := list_prod_nonneg (powList_nonneg hN bases msgs)

theorem rawList_gcd {N : Int} {bases : List Int} (hb : ∀ a ∈ bases, Int.gcd a N = 1) (msgs : List Int) :
    Int.gcd (rawList bases msgs).prod N = 1 := by
  apply gcd_list_prod_eq_one
  intro x hx
  unfold rawList at hx
  rw [List.mem_iff_getElem] at hx
  obtain ⟨i, hi, rfl⟩ := hx
  rw [List.getElem_zipWith]
  exact gcd_pow_eq_one (hb _ (List.getElem_mem _)) _

theorem powList_gcd {N : Int} {bases : List Int} (hb : ∀ a ∈ bases, Int.gcd a N = 1) (msgs : List Int) :
    Int.gcd (powList N bases msgs).prod N = 1 :=
  gcd_eq_one_of_modEq (powList_prod_modEq N bases msgs).symm (rawList_gcd hb msgs)

/-- **closed form of the product loop**: for non-negative exponents and enough bases,
`prodPow N bases i msgs acc` returns `acc · Π_j (bases[i+j]^{msgs[j]} mod N)` and leaves the tape
alone. -/
theorem prodPow_spec (hA : ArithOK) {N : Int} (hN : 0 < N) (bases : List Int) (i : Nat) (msgs : List Int)
    (acc : Int) (hm : ∀ m ∈ msgs, 0 ≤ m) (hlen : i + msgs.length ≤ bases.length) (t : List Draw) :
    prodPow N bases i msgs acc t = .ok (acc * (powList N (bases.drop i) msgs).prod, t) := by
  induction msgs generalizing i acc with
  | nil => simp [prodPow]
  | cons m ms ih =>
    have hi : i < bases.length := by simp only [List.length_cons] at hlen; omega
    unfold prodPow
    rw [bind_of_ok (idx_lt hi t),
      bind_of_ok (pw_nonneg hA hN (hm m (List.mem_cons_self ..)) t),
      ih (i + 1) _ (fun x hx => hm x (List.mem_cons_of_mem _ hx))
        (by simp only [List.length_cons] at hlen; omega)]
    rw [List.drop_eq_getElem_cons hi, powList_cons, List.prod_cons, mul_assoc]

/-- the same as a left fold (the shape used by `RepCollision`). -/
theorem prodPow_spec_foldl (hA : ArithOK) {N : Int} (hN : 0 < N) (bases msgs : List Int)
    (hm : ∀ m ∈ msgs, 0 ≤ m) (hlen : msgs.length ≤ bases.length) (t : List Draw) :
    prodPow N bases 0 msgs 1 t = .ok ((powList N bases msgs).foldl (· * ·) 1, t) := by
  rw [prodPow_spec hA hN bases 0 msgs 1 hm (by omega) t, foldl_mul_eq_prod, List.drop_zero]

/-- too few bases: the index panics (Rust: `a_bases.0[index]` out of range). -/
theorem prodPow_panic (hA : ArithOK) {N : Int} (hN : 0 < N) (bases : List Int) (i : Nat) (msgs : List Int)
    (acc : Int) (hm : ∀ m ∈ msgs, 0 ≤ m) (hi : i ≤ bases.length)
    (hlen : bases.length < i + msgs.length) (t : List Draw) :
    prodPow N bases i msgs acc t = .panic := by
  induction msgs generalizing i acc with
  | nil => simp only [List.length_nil] at hlen; omega
  | cons m ms ih =>
    unfold prodPow
    by_cases hi' : i < bases.length
    · rw [bind_of_ok (idx_lt hi' t),
        bind_of_ok (pw_nonneg hA hN (hm m (List.mem_cons_self ..)) t)]
      exact ih (i + 1) _ (fun x hx => hm x (List.mem_cons_of_mem _ hx)) hi'
        (by simp only [List.length_cons] at hlen; omega)
    · rw [bind_of_panic (idx_ge (by omega) t)]

/-- with a modulus `≤ 0` and at least one message the loop panics. -/
theorem prodPow_ok_inv_len {N : Int} {bases : List Int} {i : Nat} {msgs : List Int} {acc r : Int}
    {t t' : List Draw} (h : prodPow N bases i msgs acc t = .ok (r, t')) :
    i + msgs.length ≤ bases.length ∨ msgs = [] := by
  induction msgs generalizing i acc t with
  | nil => exact Or.inr rfl
  | cons m ms ih =>
    left
    unfold prodPow at h
    obtain ⟨a, t1, h1, h⟩ := bind_ok_inv h
    obtain ⟨x, t2, h2, h⟩ := bind_ok_inv h
    have hi : i < bases.length := by
      by_contra hc
      rw [idx_ge (by omega)] at h1; cases h1
    rcases ih h with h' | rfl
    · simp only [List.length_cons]; omega
    · simp only [List.length_cons, List.length_nil]; omega

end Zk.Cl

/-! ### appended: `tmod` in general, cancellation, range of `powMod`, the `zpow` bridge -/
namespace Zk.Cl
open Zk.IA

/-- the truncated remainder is congruent to its argument (whatever the signs). -/
theorem tmod_modEq' (a N : Int) : tmod a N ≡ a [ZMOD N] := by
  rw [Int.modEq_iff_dvd]
  exact ⟨a.tdiv N, by unfold tmod; rw [Int.tmod_def]; ring⟩

theorem modEq_of_tmod_eq {a b N : Int} (h : tmod a N = tmod b N) : a ≡ b [ZMOD N] :=
  (tmod_modEq' a N).symm.trans (h ▸ tmod_modEq' b N)

/-- cancel a unit factor. -/
theorem modEq_cancel_right {a b c N : Int} (hc : Int.gcd c N = 1) (h : a * c ≡ b * c [ZMOD N]) :
    a ≡ b [ZMOD N] := by
  rw [Int.modEq_iff_dvd] at h ⊢
  have hcop : IsCoprime N c := (Int.isCoprime_iff_gcd_eq_one.mpr hc).symm
  exact hcop.dvd_of_dvd_mul_right (by rwa [sub_mul])

theorem modEq_cancel_left {a b c N : Int} (hc : Int.gcd c N = 1) (h : c * a ≡ c * b [ZMOD N]) :
    a ≡ b [ZMOD N] := modEq_cancel_right hc (by rwa [mul_comm a, mul_comm b])

/-- every value `powMod` returns is a residue in `[0, n)`. -/
theorem powMod_range (hA : ArithOK) {b e n x : Int} (hn : 0 < n) (h : powMod b e n = some x) :
    0 ≤ x ∧ x < n := by
  by_cases he : 0 ≤ e
  · rw [hA.powMod_nonneg b e n hn he] at h
    obtain rfl := Option.some.inj h
    exact ⟨Int.emod_nonneg _ (Int.ne_of_gt hn), Int.emod_lt_of_pos _ hn⟩
  · rw [hA.powMod_neg b e n hn (by omega)] at h
    cases hi : invMod b n with
    | none => rw [hi] at h; cases h
    | some bi =>
      rw [hi] at h
      obtain rfl := Option.some.inj h
      exact ⟨Int.emod_nonneg _ (Int.ne_of_gt hn), Int.emod_lt_of_pos _ hn⟩

/-- raising a residue to the power `1` returns it. -/
theorem pw_one (hA : ArithOK) {x N : Int} (h0 : 0 ≤ x) (hx : x < N) (t : List Draw) :
    pw x 1 N t = .ok (x, t) := by
  rw [pw_nonneg hA (by omega) (by omega)]
  simp only [Int.toNat_one, pow_one, Int.emod_eq_of_lt h0 hx]

/-- a unit has an inverse, so `powMod` is defined for every exponent. -/
theorem powMod_isSome_of_unit (hA : ArithOK) {b N : Int} (hN : 1 < N) (hb : Int.gcd b N = 1) (e : Int) :
    ∃ x, powMod b e N = some x := by
  by_cases he : 0 ≤ e
  · exact ⟨_, hA.powMod_nonneg b e N (by omega) he⟩
  · rw [hA.powMod_neg b e N (by omega) (by omega)]
    cases hi : invMod b N with
    | none => exact absurd hb (hA.invMod_none b N hN hi)
    | some bi => exact ⟨_, rfl⟩

/-- **the `zpow` bridge**: whatever `powMod b e n` returns for a unit `b` is the integer power
`u^e` of the corresponding unit of `ZMod n` (negative exponents included). -/
theorem powMod_zpow (hA : ArithOK) {n : Nat} (hn : 1 < n) {b : Int} (hb : IsCoprime b (n : Int))
    {e x : Int} (h : powMod b e n = some x) :
    (x : ZMod n) = ((ZMod.unitOfIsCoprime b hb ^ e : (ZMod n)ˣ) : ZMod n) := by
  have hn' : (0 : Int) < n := by omega
  by_cases he : 0 ≤ e
  · rw [hA.powMod_nonneg b e n hn' he] at h
    obtain rfl := Option.some.inj h
    obtain ⟨k, rfl⟩ := Int.eq_ofNat_of_zero_le he
    rw [ZMod.intCast_mod, zpow_natCast, Units.val_pow_eq_pow_val]
    simp
  · rw [hA.powMod_neg b e n hn' (by omega)] at h
    cases hi : invMod b n with
    | none => rw [hi] at h; cases h
    | some bi =>
      rw [hi] at h
      obtain rfl := Option.some.inj h
      obtain ⟨-, -, hmul⟩ := hA.invMod_some b n bi (by omega) hi
      have h1 : (b : ZMod n) * (bi : ZMod n) = 1 := by
        have : ((b * bi % (n : Int) : Int) : ZMod n) = ((1 : Int) : ZMod n) := by rw [hmul]
        rw [ZMod.intCast_mod] at this
        push_cast at this; exact this
      have h2 : (bi : ZMod n) = ((ZMod.unitOfIsCoprime b hb)⁻¹ : (ZMod n)ˣ) := by
        have hu : ((ZMod.unitOfIsCoprime b hb : (ZMod n)ˣ) : ZMod n) = (b : ZMod n) := rfl
        rw [← hu] at h1
        exact (Units.inv_eq_of_mul_eq_one_right h1).symm
      obtain ⟨k, hk⟩ := Int.eq_ofNat_of_zero_le (show 0 ≤ -e by omega)
      have he' : e = -(k : Int) := by omega
      rw [ZMod.intCast_mod, hk, Int.toNat_natCast, he', zpow_neg, zpow_natCast, ← inv_pow,
        Units.val_pow_eq_pow_val, ← h2]
      push_cast; rfl

end Zk.Cl

/-! ### appended: `pw` with a negative exponent on a unit -/
namespace Zk.Cl
open Zk.IA

/-- negative exponent on a unit base: `pw` returns the power of THE inverse `bi` (`b·bi ≡ 1`). -/
theorem pw_neg_unit (hA : ArithOK) {b e N : Int} (hN : 1 < N) (hb : Int.gcd b N = 1) (he : e < 0)
    (t : List Draw) :
    ∃ bi, invMod b N = some bi ∧ 0 ≤ bi ∧ bi < N ∧ b * bi ≡ 1 [ZMOD N] ∧
      pw b e N t = .ok (bi ^ (-e).toNat % N, t) := by
  cases hi : invMod b N with
  | none => exact absurd hb (hA.invMod_none b N hN hi)
  | some bi =>
    obtain ⟨h0, h1, hmul⟩ := hA.invMod_some b N bi hN hi
    refine ⟨bi, rfl, h0, h1, ?_, pw_neg hA (by omega) he hi t⟩
    show b * bi % N = 1 % N
    rw [hmul, Int.emod_eq_of_lt (by omega) hN]

end Zk.Cl

/-! ### appended: reduced representatives of units -/
namespace Zk.Cl
open Zk.IA

/-- a non-negative unit modulo `N > 1` is positive (`0` is not a unit). -/
theorem pos_of_gcd_eq_one {x N : Int} (hN : 1 < N) (hx : Int.gcd x N = 1) (h0 : 0 ≤ x) : 0 < x := by
  rcases h0.lt_or_eq with h | h
  · exact h
  · subst h
    rw [Int.gcd_zero_left] at hx
    omega

/-- the residue of a unit modulo `N > 1` lies in `(0, N)`. -/
theorem emod_unit_reduced {x N : Int} (hN : 1 < N) (hx : Int.gcd x N = 1) : 0 < x % N ∧ x % N < N :=
  ⟨pos_of_gcd_eq_one hN (gcd_emod_eq_one hx) (Int.emod_nonneg _ (by omega)),
    Int.emod_lt_of_pos _ (by omega)⟩

/-- translating by a non-zero multiple of `N` leaves the interval `[0, N)`: at most one representative of a
residue class is reduced. -/
theorem shift_not_reduced {x N k : Int} (hk : k ≠ 0) (h0 : 0 ≤ x) (hx : x < N) :
    x + k * N < 0 ∨ N ≤ x + k * N := by
  have hN : 0 < N := by omega
  rcases Int.lt_or_lt_of_ne hk with hneg | hpos
  · left
    have : k * N ≤ -1 * N := Int.mul_le_mul_of_nonneg_right (by omega) (by omega)
    omega
  · right
    have : 1 * N ≤ k * N := Int.mul_le_mul_of_nonneg_right (by omega) (by omega)
    omega

end Zk.Cl
