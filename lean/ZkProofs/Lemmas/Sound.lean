/-
Helper lemmas for the soundness properties C04 (BBS proofs) and C06 (Blind BBS commitments):
closed forms of the index sums, the characterisation of `proofVerifyInit`, and the algebra of
the special-soundness extractors.
-/
import ZkProofs.Lemmas.Sig
import ZkProofs.Events
import ZkProofs.Lemmas.Encoding
import Mathlib.Algebra.BigOperators.Group.List.Basic
import Mathlib.Algebra.BigOperators.Group.Finset.Basic
import Mathlib.Algebra.BigOperators.Ring.Finset
import Mathlib.Algebra.Module.BigOperators
import Batteries.Data.List.Perm
set_option linter.unusedSectionVars false
set_option linter.unusedSimpArgs false
set_option linter.unusedVariables false
namespace Zk.Sound
open Zk Res

section
variable {S G1 G2 GT : Type} [Field S] [DecidableEq S]
variable [AddCommGroup G1] [Module S G1] [DecidableEq G1]
variable [AddCommGroup G2] [Module S G2] [DecidableEq G2]
variable [AddCommGroup GT] [Module S GT]
variable {env : Env S G1 G2} {pair : G1 →ₗ[S] G2 →ₗ[S] GT}

/-! ### Index sums -/

/-- `Σ_j ss[j] • Hs[is[j]]` over the common prefix of `is` and `ss` (an out-of-range index
contributes `0`; the model panics in that case, see `sumIndexed_ok_iff`). -/
def lin (Hs : List G1) (is : List Nat) (ss : List S) : G1 :=
  ((is.zip ss).map fun p => p.2 • Hs.getD p.1 0).sum

@[simp] theorem lin_nil_left (Hs : List G1) (ss : List S) : lin Hs [] ss = 0 := by simp [lin]
@[simp] theorem lin_nil_right (Hs : List G1) (is : List Nat) : lin Hs is ([] : List S) = 0 := by
  simp [lin]
@[simp] theorem lin_cons (Hs : List G1) (i : Nat) (is : List Nat) (s : S) (ss : List S) :
    lin Hs (i :: is) (s :: ss) = s • Hs.getD i 0 + lin Hs is ss := by simp [lin]

/-- `sumIndexed` never returns `Err`. -/
theorem sumIndexed_ne_err (Hs : List G1) (acc : G1) (is : List Nat) (ss : List S) :
    sumIndexed Hs acc is ss ≠ .err := by
  induction ss generalizing acc is with
  | nil => cases is <;> simp [sumIndexed]
  | cons s ss ih =>
    cases is with
    | nil => simp [sumIndexed]
    | cons i is =>
      simp only [sumIndexed]
      cases h : Hs[i]? with
      | none => simp
      | some g => simpa using ih _ _

/-- Closed form of `sumIndexed`: it succeeds iff there are enough indexes and the used ones are
in range, and then returns `acc + Σ_j ss[j] • Hs[is[j]]`. -/
theorem sumIndexed_ok_iff (Hs : List G1) (acc : G1) (is : List Nat) (ss : List S) (r : G1) :
    sumIndexed Hs acc is ss = .ok r ↔
      ss.length ≤ is.length ∧ (∀ i ∈ is.take ss.length, i < Hs.length) ∧ r = acc + lin Hs is ss := by
  induction ss generalizing acc is with
  | nil => cases is <;> simp [sumIndexed, eq_comm]
  | cons s ss ih =>
    cases is with
    | nil => simp [sumIndexed]
    | cons i is =>
      simp only [sumIndexed]
      cases h : Hs[i]? with
      | none =>
        have : Hs.length ≤ i := by simpa using h
        simp only [List.length_cons, List.take_succ_cons, List.mem_cons, forall_eq_or_imp]
        constructor
        · intro h; cases h
        · rintro ⟨_, ⟨h1, _⟩, _⟩; omega
      | some g =>
        have hi : i < Hs.length := by
          rcases List.getElem?_eq_some_iff.mp h with ⟨hi, _⟩; exact hi
        have hg : Hs.getD i 0 = g := by simp [List.getD, h]
        simp only [ih, List.length_cons, List.take_succ_cons, List.mem_cons, forall_eq_or_imp,
          lin_cons, hg, Nat.add_le_add_iff_right, hi, true_and, add_assoc]

/-! ### Undisclosed indexes -/

theorem mem_getRemainingIndexes {L : Nat} {di : List Nat} {i : Nat} :
    i ∈ getRemainingIndexes L di ↔ i < L ∧ i ∉ di := by
  simp [getRemainingIndexes]

theorem getRemainingIndexes_nodup (L : Nat) (di : List Nat) : (getRemainingIndexes L di).Nodup :=
  List.Nodup.filter _ List.nodup_range

/-- There are at least `L - |di|` undisclosed indexes. -/
theorem getRemainingIndexes_length (L : Nat) (di : List Nat) :
    L ≤ (getRemainingIndexes L di).length + di.length := by
  have h1 : L = List.countP (fun i => !di.contains i) (List.range L)
      + List.countP (fun i => di.contains i) (List.range L) := by
    have := List.length_eq_countP_add_countP (fun i => !di.contains i) (l := List.range L)
    rw [List.length_range] at this
    convert this using 3
    funext a; simp
  have h2 : ((List.range L).filter fun i => di.contains i).length ≤ di.length := by
    apply List.Subperm.length_le
    apply List.subperm_of_subset (List.Nodup.filter _ List.nodup_range)
    intro i hi
    simpa using (List.mem_filter.mp hi).2
  rw [← List.countP_eq_length_filter] at h2
  simp only [getRemainingIndexes, ← List.countP_eq_length_filter]
  omega

/-! ### `proofVerifyInit` -/

/-- `T1` as recomputed by the verifier. -/
def T1 (π : PoKSignature S G1) : G1 :=
  π.challenge • π.Bbar + π.eCap • π.Abar + π.r1Cap • π.D

/-- `Bv = P1 + domain • Q1 + Σ_k dm[k] • H_{di[k]}`. -/
def Bv (base Q1 : G1) (domain : S) (Hs : List G1) (di : List Nat) (dm : List S) : G1 :=
  base + domain • Q1 + lin Hs di dm

/-- `T2` as recomputed by the verifier (`ud` = the undisclosed indexes). -/
def T2 (π : PoKSignature S G1) (bv : G1) (Hs : List G1) (ud : List Nat) : G1 :=
  π.challenge • bv + π.r3Cap • π.D + lin Hs ud π.mCap

/-- The structural checks of `proof_verify_init`. -/
def Structural (π : PoKSignature S G1) (dm : List S) (di : List Nat) : Prop :=
  π.Abar ≠ 0 ∧ π.Bbar ≠ 0 ∧ π.D ≠ 0 ∧ (∀ i ∈ di, i ≤ π.mCap.length + di.length - 1) ∧
    dm.length = di.length

/-- The value returned by `proof_verify_init`. -/
def initOf (π : PoKSignature S G1) (base Q1 : G1) (Hs : List G1) (domain : S) (dm : List S)
    (di : List Nat) : ProofInitResult S G1 :=
  ⟨π.Abar, π.Bbar, π.D, T1 π,
    T2 π (Bv base Q1 domain Hs di dm) Hs (getRemainingIndexes (π.mCap.length + di.length) di),
    domain⟩

/-- Characterisation of `proofVerifyInit`: it succeeds iff the structural checks pass, the
generator list has `U + R + 1` elements and the domain can be computed; the result is given by
explicit formulas. (In particular the index sums never panic once the checks have passed.) -/
theorem proofVerifyInit_ok_iff (cs : Suite G1) (pk : G2) (π : PoKSignature S G1)
    (gens : Generators G1) (header : Option Bytes) (dm : List S) (di : List Nat)
    (apiId : Option Bytes) (init : ProofInitResult S G1) :
    proofVerifyInit env cs pk π gens header dm di apiId = .ok init ↔
      Structural π dm di ∧ ∃ Q1 Hs domain, gens.values = Q1 :: Hs ∧
        Hs.length = π.mCap.length + di.length ∧
        calculateDomain env cs pk Q1 Hs header apiId = .ok domain ∧
        init = initOf π gens.base Q1 Hs domain dm di := by
  unfold proofVerifyInit Structural
  dsimp only
  split
  · rename_i h0
    constructor
    · intro h; cases h
    · rintro ⟨⟨a, b, c, _⟩, _⟩
      rcases h0 with h0 | h0 | h0 <;> contradiction
  rename_i h0
  have hA : π.Abar ≠ 0 := fun h => h0 (Or.inl h)
  have hB : π.Bbar ≠ 0 := fun h => h0 (Or.inr (Or.inl h))
  have hD : π.D ≠ 0 := fun h => h0 (Or.inr (Or.inr h))
  split
  · rename_i h1
    constructor
    · intro h; cases h
    · rintro ⟨⟨_, _, _, hr, _⟩, _⟩
      simp only [List.any_eq_true, decide_eq_true_eq] at h1
      obtain ⟨i, hi, hgt⟩ := h1
      have := hr i hi; omega
  rename_i h1
  have hr : ∀ i ∈ di, i ≤ π.mCap.length + di.length - 1 := by
    intro i hi
    simp only [List.any_eq_true, decide_eq_true_eq, not_exists, not_and] at h1
    have := h1 i hi; omega
  split
  · rename_i h2
    constructor
    · intro h; cases h
    · rintro ⟨⟨_, _, _, _, hl⟩, _⟩; exact absurd hl h2
  rename_i h2
  have hdl : dm.length = di.length := by simpa using h2
  split
  · rename_i h3
    constructor
    · intro h; cases h
    · rintro ⟨_, Q1, Hs, d, hv, hlen, _⟩
      rw [hv] at h3; simp [hlen] at h3
  rename_i h3
  cases hv : gens.values with
  | nil => rw [hv] at h3; simp at h3
  | cons Q1 Hs =>
    rw [hv] at h3
    have hlen : Hs.length = π.mCap.length + di.length := by simpa using h3
    simp only
    cases hd : calculateDomain env cs pk Q1 Hs header apiId with
    | err =>
      constructor
      · intro h; cases h
      · rintro ⟨_, Q1', Hs', d', hcons, _, hd', _⟩
        obtain ⟨rfl, rfl⟩ := List.cons.inj hcons
        rw [hd] at hd'; cases hd'
    | panic =>
      constructor
      · intro h; cases h
      · rintro ⟨_, Q1', Hs', d', hcons, _, hd', _⟩
        obtain ⟨rfl, rfl⟩ := List.cons.inj hcons
        rw [hd] at hd'; cases hd'
    | ok domain =>
      simp only
      have hbv : sumIndexed Hs (gens.base + domain • Q1) di dm
          = .ok (Bv gens.base Q1 domain Hs di dm) := by
        rw [sumIndexed_ok_iff]
        refine ⟨by omega, ?_, rfl⟩
        intro i hi
        have hi' := hr i (List.mem_of_mem_take hi)
        have : di.length ≠ 0 := by
          intro h0; rw [List.length_eq_zero_iff.mp h0] at hi; simp at hi
        omega
      rw [hbv]
      simp only
      have ht2 : sumIndexed Hs (π.challenge • Bv gens.base Q1 domain Hs di dm + π.r3Cap • π.D)
          (getRemainingIndexes (π.mCap.length + di.length) di) π.mCap
          = .ok (T2 π (Bv gens.base Q1 domain Hs di dm) Hs
              (getRemainingIndexes (π.mCap.length + di.length) di)) := by
        rw [sumIndexed_ok_iff]
        refine ⟨?_, ?_, rfl⟩
        · have := getRemainingIndexes_length (π.mCap.length + di.length) di
          omega
        · intro i hi
          have := (mem_getRemainingIndexes.mp (List.mem_of_mem_take hi)).1
          omega
      rw [ht2]
      simp only [Res.ok.injEq]
      constructor
      · intro h
        refine ⟨⟨hA, hB, hD, hr, hdl⟩, Q1, Hs, domain, rfl, hlen, hd, ?_⟩
        rw [← h]; rfl
      · rintro ⟨_, Q1', Hs', d', hcons, _, hd', hinit⟩
        obtain ⟨rfl, rfl⟩ := List.cons.inj hcons
        rw [hd] at hd'; cases hd'
        rw [hinit]; rfl

/-! ### `coreProofVerify` -/

/-- The Fiat–Shamir check of `core_proof_verify`: the hash of the challenge input rebuilt from
the recomputed `(T1, T2)` is the challenge carried by the proof. -/
def ChallengeOk (env : Env S G1 G2) (cs : Suite G1) (π : PoKSignature S G1) (base Q1 : G1)
    (Hs : List G1) (domain : S) (ph : Option Bytes) (dm : List S) (di : List Nat)
    (apiId : Option Bytes) : Prop :=
  hashToScalar env cs (challengeInput env (initOf π base Q1 Hs domain dm di) di dm (ph.getD []))
    (apiId.getD [] ++ cs.h2s) = .ok π.challenge

/-- Characterisation of `coreProofVerify` for an arbitrary public key (no assumption on the
environment): structural checks, Fiat–Shamir check, pairing check. -/
theorem coreProofVerify_ok_iff_pairing (cs : Suite G1) (pk : G2) (π : PoKSignature S G1)
    (gens : Generators G1) (header ph : Option Bytes) (dm : List S) (di : List Nat)
    (apiId : Option Bytes) :
    coreProofVerify env cs pk π gens header ph dm di apiId = .ok () ↔
      Structural π dm di ∧ ∃ Q1 Hs domain, gens.values = Q1 :: Hs ∧
        Hs.length = π.mCap.length + di.length ∧
        calculateDomain env cs pk Q1 Hs header apiId = .ok domain ∧
        ChallengeOk env cs π gens.base Q1 Hs domain ph dm di apiId ∧
        env.pairingCheck [(π.Abar, pk), (π.Bbar, -env.bp2)] = true := by
  unfold coreProofVerify
  cases hi : proofVerifyInit env cs pk π gens header dm di apiId with
  | err =>
    simp only
    constructor
    · intro h; cases h
    · rintro ⟨hs, Q1, Hs, d, hv, hlen, hd, _⟩
      have := (proofVerifyInit_ok_iff cs pk π gens header dm di apiId _).mpr
        ⟨hs, Q1, Hs, d, hv, hlen, hd, rfl⟩
      rw [hi] at this; cases this
  | panic =>
    simp only
    constructor
    · intro h; cases h
    · rintro ⟨hs, Q1, Hs, d, hv, hlen, hd, _⟩
      have := (proofVerifyInit_ok_iff cs pk π gens header dm di apiId _).mpr
        ⟨hs, Q1, Hs, d, hv, hlen, hd, rfl⟩
      rw [hi] at this; cases this
  | ok init =>
    simp only
    obtain ⟨hs, Q1, Hs, d, hv, hlen, hd, rfl⟩ :=
      (proofVerifyInit_ok_iff cs pk π gens header dm di apiId init).mp hi
    have hdl : dm.length = di.length := hs.2.2.2.2
    have key : ∀ P : Prop, (Structural π dm di ∧ ∃ Q1' Hs' domain', gens.values = Q1' :: Hs' ∧
        Hs'.length = π.mCap.length + di.length ∧
        calculateDomain env cs pk Q1' Hs' header apiId = .ok domain' ∧
        ChallengeOk env cs π gens.base Q1' Hs' domain' ph dm di apiId ∧ P) ↔
        (ChallengeOk env cs π gens.base Q1 Hs d ph dm di apiId ∧ P) := by
      intro P
      constructor
      · rintro ⟨_, Q1', Hs', d', hcons, _, hd', hc, hp⟩
        rw [hv] at hcons
        obtain ⟨rfl, rfl⟩ := List.cons.inj hcons
        rw [hd] at hd'; cases hd'
        exact ⟨hc, hp⟩
      · rintro ⟨hc, hp⟩
        exact ⟨hs, Q1, Hs, d, hv, hlen, hd, hc, hp⟩
    rw [key]
    unfold ChallengeOk proofChallengeCalculate
    rw [if_neg (by simp [hdl])]
    dsimp only
    cases hh : hashToScalar env cs
        (challengeInput env (initOf π gens.base Q1 Hs d dm di) di dm (ph.getD []))
        (apiId.getD [] ++ cs.h2s) with
    | err => simp
    | panic => simp
    | ok c =>
      simp only [Res.ok.injEq]
      by_cases hc : π.challenge = c
      · subst hc
        simp only [ne_eq, not_true_eq_false, if_false, true_and]
        split <;> simp_all
      · have hc' : c ≠ π.challenge := fun h => hc h.symm
        simp [hc, hc']

/-- **Characterisation of `coreProofVerify`** for `pk = sk • BP2` in a lawful environment:
accepted iff the structural checks pass, the challenge recomputed from
`T1 = c•Bbar + ê•Abar + r̂1•D` and `T2 = c•Bv + r̂3•D + Σ m̂_j•H_{u_j}` is the proof's challenge,
and `sk • Abar = Bbar`. -/
theorem coreProofVerify_ok_iff (hl : Lawful env pair) (cs : Suite G1) (sk : S)
    (π : PoKSignature S G1) (gens : Generators G1) (header ph : Option Bytes) (dm : List S)
    (di : List Nat) (apiId : Option Bytes) :
    coreProofVerify env cs (sk • env.bp2) π gens header ph dm di apiId = .ok () ↔
      Structural π dm di ∧ ∃ Q1 Hs domain, gens.values = Q1 :: Hs ∧
        Hs.length = π.mCap.length + di.length ∧
        calculateDomain env cs (sk • env.bp2) Q1 Hs header apiId = .ok domain ∧
        ChallengeOk env cs π gens.base Q1 Hs domain ph dm di apiId ∧
        sk • π.Abar = π.Bbar := by
  rw [coreProofVerify_ok_iff_pairing]
  simp only [pairing_proof_iff hl]

/-! ### Algebra of the special-soundness extractor -/

theorem lin_zipWith_sub (Hs : List G1) (k : S) (is : List Nat) (ss ss' : List S)
    (hlen : ss.length = ss'.length) :
    lin Hs is (List.zipWith (fun a b => k * (a - b)) ss ss')
      = k • (lin Hs is ss - lin Hs is ss') := by
  induction is generalizing ss ss' with
  | nil => simp
  | cons i is ih =>
    cases ss with
    | nil => cases ss' with
      | nil => simp
      | cons _ _ => simp at hlen
    | cons a ss => cases ss' with
      | nil => simp at hlen
      | cons b ss' =>
        simp only [List.zipWith_cons_cons, lin_cons]
        rw [ih ss ss' (by simpa using hlen)]
        module

theorem smul_cancel {d : S} (hd : d ≠ 0) {X Y : G1} (h : d • X = d • Y) : X = Y := by
  have := congrArg (d⁻¹ • ·) h
  simpa [smul_smul, inv_mul_cancel₀ hd] using this

/-- What the extractor computes from two proofs `π`, `π'` (no secret involved). -/
structure Extracted (S G1 : Type) where
  e : S
  r1 : S
  r3 : S
  ms : List S
  A : G1

/-- The special-soundness extractor: with `Δ = (c − c')⁻¹`,
`e* = Δ(ê − ê')`, `r1* = −Δ(r̂1 − r̂1')`, `r3* = −Δ(r̂3 − r̂3')`, `m*_j = Δ(m̂_j − m̂'_j)`,
`A* = (r3*/r1*) • Abar`. -/
def extract (π π' : PoKSignature S G1) : Extracted S G1 :=
  let Δ := (π.challenge - π'.challenge)⁻¹
  let r1 := -(Δ * (π.r1Cap - π'.r1Cap))
  let r3 := -(Δ * (π.r3Cap - π'.r3Cap))
  { e := Δ * (π.eCap - π'.eCap)
    r1 := r1
    r3 := r3
    ms := List.zipWith (fun a b => Δ * (a - b)) π.mCap π'.mCap
    A := (r3 * r1⁻¹) • π.Abar }

/-- Pure algebra of the extractor. From two transcripts with the same `(Abar, Bbar, D, T1, T2)`
and different challenges: `Bbar = r1*•D − e*•Abar` and `Bv + Σ m*_j•H_j = r3*•D`. -/
theorem extract_eqs (π π' : PoKSignature S G1) (bv : G1) (Hs : List G1) (ud : List Nat)
    (hA : π'.Abar = π.Abar) (hB : π'.Bbar = π.Bbar) (hD : π'.D = π.D)
    (hlen : π.mCap.length = π'.mCap.length) (hc : π.challenge ≠ π'.challenge)
    (hT1 : T1 π = T1 π') (hT2 : T2 π bv Hs ud = T2 π' bv Hs ud) :
    π.Bbar = (extract π π').r1 • π.D - (extract π π').e • π.Abar ∧
      bv + lin Hs ud (extract π π').ms = (extract π π').r3 • π.D := by
  have hd : π.challenge - π'.challenge ≠ 0 := sub_ne_zero.mpr hc
  unfold T1 at hT1
  unfold T2 at hT2
  rw [hA, hB, hD] at hT1
  rw [hD] at hT2
  constructor
  · apply smul_cancel hd
    simp only [extract, smul_sub, smul_smul, mul_neg, mul_inv_cancel_left₀ hd]
    linear_combination (norm := module) hT1
  · apply smul_cancel hd
    simp only [extract, lin_zipWith_sub _ _ _ _ _ hlen, smul_add, smul_smul, mul_neg,
      mul_inv_cancel_left₀ hd, mul_inv_cancel₀ hd, one_smul]
    linear_combination (norm := module) hT2

/-- Pure algebra, second half: with `Bbar = sk • Abar`, either `r1* ≠ 0` and
`A* = (r3*/r1*) • Abar` is a BBS signature with exponent `e*` on the completed message vector,
or `r1* = 0` and (because `Abar ≠ 0`) the secret key is `−e*`. -/
theorem extract_sig (sk : S) (π π' : PoKSignature S G1) (bv : G1) (Hs : List G1) (ud : List Nat)
    (hA : π'.Abar = π.Abar) (hB : π'.Bbar = π.Bbar) (hD : π'.D = π.D)
    (hlen : π.mCap.length = π'.mCap.length) (hc : π.challenge ≠ π'.challenge)
    (hT1 : T1 π = T1 π') (hT2 : T2 π bv Hs ud = T2 π' bv Hs ud)
    (hsk : sk • π.Abar = π.Bbar) :
    ((extract π π').r1 ≠ 0 →
        (sk + (extract π π').e) • (extract π π').A = bv + lin Hs ud (extract π π').ms) ∧
      ((extract π π').r1 = 0 → π.Abar ≠ 0 → sk = -(extract π π').e) := by
  obtain ⟨h1, h2⟩ := extract_eqs π π' bv Hs ud hA hB hD hlen hc hT1 hT2
  rw [← hsk] at h1
  constructor
  · intro hr
    rw [h2]
    have hA' : (extract π π').A = ((extract π π').r3 * (extract π π').r1⁻¹) • π.Abar := rfl
    rw [hA']
    apply smul_cancel hr
    simp only [smul_smul]
    have : (extract π π').r1 * ((sk + (extract π π').e) * ((extract π π').r3 * (extract π π').r1⁻¹))
        = (extract π π').r3 * (sk + (extract π π').e) := by
      field_simp
    rw [this, mul_comm ((extract π π').r1), ← smul_smul, ← smul_smul]
    congr 1
    linear_combination (norm := module) h1
  · intro hr hne
    rw [hr, zero_smul, zero_sub] at h1
    have : (sk + (extract π π').e) • π.Abar = 0 := by
      linear_combination (norm := module) h1
    rcases smul_eq_zero_field this with h | h
    · linear_combination h
    · exact absurd h hne

/-! ### The completed message vector -/

/-- Sum of the scalars `ss[j]` whose index `is[j]` is `k`. -/
def coef (is : List Nat) (ss : List S) (k : Nat) : S :=
  (((is.zip ss).filter fun p => p.1 = k).map fun p => p.2).sum

/-- The message vector of length `L` with `dm[k]` at position `di[k]` and `um[j]` at position
`ud[j]` (contributions to the same position add up; they never collide when `di` has no
repetition and `ud` is the list of remaining indexes, see `fullMsgs_getElem_di/ud`). -/
def fullMsgs (L : Nat) (di : List Nat) (dm : List S) (ud : List Nat) (um : List S) : List S :=
  (List.range L).map fun k => coef di dm k + coef ud um k

@[simp] theorem fullMsgs_length (L : Nat) (di : List Nat) (dm : List S) (ud : List Nat)
    (um : List S) : (fullMsgs L di dm ud um).length = L := by simp [fullMsgs]

theorem dot_range (Hs : List G1) (f : Nat → S) :
    ((Hs.zip ((List.range Hs.length).map f)).map fun hm => hm.2 • hm.1).sum
      = ∑ k ∈ Finset.range Hs.length, f k • Hs.getD k 0 := by
  induction Hs generalizing f with
  | nil => simp
  | cons H Hs ih =>
    rw [List.length_cons, List.range_succ_eq_map, Finset.sum_range_succ']
    simp only [List.map_cons, List.map_map, List.zip_cons_cons, List.sum_cons]
    have := ih (f ∘ Nat.succ)
    simp only [Function.comp_def] at this ⊢
    rw [this]
    simp [add_comm]

theorem lin_eq_sum (Hs : List G1) (L : Nat) (is : List Nat) (ss : List S)
    (h : ∀ i ∈ is.take ss.length, i < L) :
    lin Hs is ss = ∑ k ∈ Finset.range L, coef is ss k • Hs.getD k 0 := by
  induction is generalizing ss with
  | nil => simp [coef]
  | cons i is ih =>
    cases ss with
    | nil => simp [coef]
    | cons s ss =>
      simp only [List.length_cons, List.take_succ_cons, List.mem_cons, forall_eq_or_imp] at h
      rw [lin_cons, ih ss h.2]
      have hc : ∀ k, coef (i :: is) (s :: ss) k = (if i = k then s else 0) + coef is ss k := by
        intro k
        simp only [coef, List.zip_cons_cons, List.filter_cons]
        by_cases hik : i = k <;> simp [hik]
      simp only [hc, add_smul, Finset.sum_add_distrib, ite_smul, zero_smul]
      rw [Finset.sum_ite_eq]
      simp [h.1]

/-- `Bv + Σ_j um[j] • H_{ud[j]}` is the `B` of the completed message vector. -/
theorem Bv_add_lin_eq_calcB (base Q1 : G1) (domain : S) (Hs : List G1) (di : List Nat)
    (dm : List S) (ud : List Nat) (um : List S)
    (hdi : ∀ i ∈ di.take dm.length, i < Hs.length) (hud : ∀ i ∈ ud.take um.length, i < Hs.length) :
    Bv base Q1 domain Hs di dm + lin Hs ud um
      = calcB base Q1 domain Hs (fullMsgs Hs.length di dm ud um) := by
  rw [calcB_eq, fullMsgs, dot_range, Bv, lin_eq_sum Hs Hs.length di dm hdi,
    lin_eq_sum Hs Hs.length ud um hud]
  simp only [add_smul, Finset.sum_add_distrib, add_assoc]

theorem coef_eq_of_nodup (is : List Nat) (ss : List S) (hn : is.Nodup) (j : Nat)
    (h1 : j < is.length) (h2 : j < ss.length) : coef is ss is[j] = ss[j] := by
  induction is generalizing ss j with
  | nil => simp at h1
  | cons i is ih =>
    cases ss with
    | nil => simp at h2
    | cons s ss =>
      have hni : i ∉ is := (List.nodup_cons.mp hn).1
      have hn' : is.Nodup := (List.nodup_cons.mp hn).2
      cases j with
      | zero =>
        simp only [coef, List.zip_cons_cons, List.getElem_cons_zero, List.filter_cons,
          decide_true, if_true, List.map_cons, List.sum_cons]
        have : (is.zip ss).filter (fun p => decide (p.1 = i)) = [] := by
          rw [List.filter_eq_nil_iff]
          intro p hp
          have := (List.of_mem_zip hp).1
          simp only [decide_eq_true_eq]
          rintro rfl; exact hni this
        rw [this]; simp
      | succ j =>
        simp only [List.getElem_cons_succ]
        have hne : i ≠ is[j]'(by simpa using h1) := by
          intro h; exact hni (h ▸ List.getElem_mem _)
        have := ih ss hn' j (by simpa using h1) (by simpa using h2)
        rw [← this]
        simp [coef, List.filter_cons, hne]

theorem coef_eq_zero_of_not_mem (is : List Nat) (ss : List S) (k : Nat) (h : k ∉ is) :
    coef is ss k = 0 := by
  have : (is.zip ss).filter (fun p => decide (p.1 = k)) = [] := by
    rw [List.filter_eq_nil_iff]
    intro p hp
    have := (List.of_mem_zip hp).1
    simp only [decide_eq_true_eq]
    rintro rfl; exact h this
  simp [coef, this]

/-- The completed vector carries the disclosed message `dm[j]` at position `di[j]`
(`di` without repetition, `ud` disjoint from `di`). -/
theorem fullMsgs_getElem_di (L : Nat) (di : List Nat) (dm : List S) (ud : List Nat) (um : List S)
    (hn : di.Nodup) (hdisj : ∀ i ∈ di, i ∉ ud) (j : Nat) (h1 : j < di.length)
    (h2 : j < dm.length) (hL : di[j] < L) :
    (fullMsgs L di dm ud um)[di[j]]'(by simpa using hL) = dm[j] := by
  simp only [fullMsgs, List.getElem_map, List.getElem_range]
  rw [coef_eq_of_nodup di dm hn j h1 h2,
    coef_eq_zero_of_not_mem ud um _ (hdisj _ (List.getElem_mem _)), add_zero]

/-- The completed vector carries the extracted message `um[j]` at position `ud[j]`. -/
theorem fullMsgs_getElem_ud (L : Nat) (di : List Nat) (dm : List S) (ud : List Nat) (um : List S)
    (hn : ud.Nodup) (hdisj : ∀ i ∈ ud, i ∉ di) (j : Nat) (h1 : j < ud.length)
    (h2 : j < um.length) (hL : ud[j] < L) :
    (fullMsgs L di dm ud um)[ud[j]]'(by simpa using hL) = um[j] := by
  simp only [fullMsgs, List.getElem_map, List.getElem_range]
  rw [coef_eq_of_nodup ud um hn j h1 h2,
    coef_eq_zero_of_not_mem di dm _ (hdisj _ (List.getElem_mem _)), zero_add]

/-! ### Commitments (Blind BBS) -/

/-- `Σ_i ss[i] • Js[i]` over the common prefix. -/
def linZ (Js : List G1) (ss : List S) : G1 := ((Js.zip ss).map fun p => p.2 • p.1).sum

@[simp] theorem linZ_nil_left (ss : List S) : linZ ([] : List G1) ss = 0 := by simp [linZ]
@[simp] theorem linZ_nil_right (Js : List G1) : linZ Js ([] : List S) = 0 := by simp [linZ]
@[simp] theorem linZ_cons (J : G1) (Js : List G1) (s : S) (ss : List S) :
    linZ (J :: Js) (s :: ss) = s • J + linZ Js ss := by simp [linZ]

theorem sumZip_eq (acc : G1) (Js : List G1) (ss : List S) :
    sumZip acc Js ss = acc + linZ Js ss := by
  unfold sumZip linZ
  induction Js.zip ss generalizing acc with
  | nil => simp
  | cons a l ih => simp only [List.foldl_cons, List.map_cons, List.sum_cons]; rw [ih, add_assoc]

theorem linZ_zipWith_sub (k : S) (Js : List G1) (ss ss' : List S)
    (hlen : ss.length = ss'.length) :
    linZ Js (List.zipWith (fun a b => k * (a - b)) ss ss') = k • (linZ Js ss - linZ Js ss') := by
  induction Js generalizing ss ss' with
  | nil => simp
  | cons J Js ih =>
    cases ss with
    | nil => cases ss' with
      | nil => simp
      | cons _ _ => simp at hlen
    | cons a ss => cases ss' with
      | nil => simp at hlen
      | cons b ss' =>
        simp only [List.zipWith_cons_cons, linZ_cons]
        rw [ih ss ss' (by simpa using hlen)]
        module

/-- `Cbar` as recomputed by `core_commit_verify`: `ŝ•Q2 + Σ m̂_i•J_i − c•C`. -/
def Cbar (C : G1) (z : ZKPoK S) (Q2 : G1) (Js : List G1) : G1 :=
  z.sCap • Q2 + linZ Js z.mCap - z.challenge • C

/-- **Characterisation of `coreCommitVerify`** (no assumption on the environment): accepted iff
there are at least `M + 1` blind generators `Q2, J_1, …, J_M, …` and the challenge recomputed from
`Cbar = ŝ•Q2 + Σ m̂_i•J_i − c•C` over the first `M + 1` of them is the proof's challenge. -/
theorem coreCommitVerify_ok_iff (cs : Suite G1) (C : G1) (z : ZKPoK S) (blindGens : List G1)
    (apiId : Option Bytes) :
    coreCommitVerify env cs C z blindGens apiId = .ok () ↔
      ∃ Q2 Js, blindGens.take (z.mCap.length + 1) = Q2 :: Js ∧ Js.length = z.mCap.length ∧
        hashToScalar env cs (blindChallengeInput env C (Cbar C z Q2 Js) (Q2 :: Js))
          (apiId.getD [] ++ cs.h2s) = .ok z.challenge := by
  unfold coreCommitVerify
  dsimp only
  split
  · rename_i hlt
    constructor
    · intro h; cases h
    · rintro ⟨Q2, Js, ht, hl, _⟩
      have := congrArg List.length ht
      simp only [List.length_take, List.length_cons] at this
      omega
  · rename_i hge
    cases ht : blindGens.take (z.mCap.length + 1) with
    | nil =>
      have := congrArg List.length ht
      simp only [List.length_take, List.length_nil] at this
      omega
    | cons Q2 Js =>
      have hl : Js.length = z.mCap.length := by
        have := congrArg List.length ht
        simp only [List.length_take, List.length_cons] at this
        omega
      simp only
      have hcb : sumZip (z.sCap • Q2) Js z.mCap + (-z.challenge) • C = Cbar C z Q2 Js := by
        rw [sumZip_eq, Cbar, neg_smul, sub_eq_add_neg]
      rw [hcb]
      unfold calculateBlindChallenge
      rw [if_neg (by simp)]
      simp only [Option.getD_some]
      cases hh : hashToScalar env cs (blindChallengeInput env C (Cbar C z Q2 Js) (Q2 :: Js))
          (apiId.getD [] ++ cs.h2s) with
      | err =>
        simp only
        constructor
        · intro h; cases h
        · rintro ⟨Q2', Js', hcons, _, h⟩
          obtain ⟨rfl, rfl⟩ := List.cons.inj hcons
          rw [hh] at h; cases h
      | panic =>
        simp only
        constructor
        · intro h; cases h
        · rintro ⟨Q2', Js', hcons, _, h⟩
          obtain ⟨rfl, rfl⟩ := List.cons.inj hcons
          rw [hh] at h; cases h
      | ok cv =>
        simp only
        constructor
        · intro h
          split at h
          · cases h
          · rename_i hc
            exact ⟨Q2, Js, rfl, hl, by rw [hh]; congr 1; simpa using hc⟩
        · rintro ⟨Q2', Js', hcons, _, h⟩
          obtain ⟨rfl, rfl⟩ := List.cons.inj hcons
          rw [hh] at h
          cases h
          simp

/-- Extractor for commitment proofs: `s* = Δ(ŝ − ŝ')`, `m*_i = Δ(m̂_i − m̂'_i)`, `Δ = (c − c')⁻¹`. -/
def extractOpening (z z' : ZKPoK S) : S × List S :=
  let Δ := (z.challenge - z'.challenge)⁻¹
  (Δ * (z.sCap - z'.sCap), List.zipWith (fun a b => Δ * (a - b)) z.mCap z'.mCap)

/-- Pure algebra: two commitment transcripts with the same `Cbar` and different challenges give
an opening of `C`. -/
theorem extractOpening_opens (C : G1) (z z' : ZKPoK S) (Q2 : G1) (Js : List G1)
    (hlen : z.mCap.length = z'.mCap.length) (hc : z.challenge ≠ z'.challenge)
    (hCbar : Cbar C z Q2 Js = Cbar C z' Q2 Js) :
    C = (extractOpening z z').1 • Q2 + linZ Js (extractOpening z z').2 := by
  have hd : z.challenge - z'.challenge ≠ 0 := sub_ne_zero.mpr hc
  unfold Cbar at hCbar
  apply smul_cancel hd
  simp only [extractOpening, linZ_zipWith_sub _ _ _ _ hlen, smul_add, smul_smul,
    mul_inv_cancel_left₀ hd, mul_inv_cancel₀ hd, one_smul]
  linear_combination (norm := module) -hCbar

/-! ### Binding through the hash -/

theorem eq_or_collision {cs : Suite G1} {x y dst : Bytes} {s : S}
    (hx : hashToScalar env cs x dst = .ok s) (hy : hashToScalar env cs y dst = .ok s) :
    x = y ∨ HashCollision env cs := by
  by_cases h : x = y
  · exact Or.inl h
  · exact Or.inr ⟨x, y, dst, s, h, hx, hy⟩

theorem calculateDomain_eq (cs : Suite G1) (pk : G2) (Q1 : G1) (Hs : List G1)
    (header apiId : Option Bytes) :
    calculateDomain env cs pk Q1 Hs header apiId
      = hashToScalar env cs (domainInput env pk Q1 Hs (header.getD []) (apiId.getD []))
          (apiId.getD [] ++ cs.h2s) := rfl

/-- **Binding.** Two accepted proofs carrying the same challenge value (for possibly different
statements, same `api_id`): unless a hash collision is exhibited, everything that enters the
two hashes coincides — the commitments `Abar, Bbar, D`, the recomputed `T1, T2`, the disclosed
indexes and messages, the presentation header, the public key, the generators, the header, and
the number of hidden messages. -/
theorem proof_binding (hl : Lawful env pair) (cs : Suite G1) (pk pk' : G2)
    (π π' : PoKSignature S G1) (gens gens' : Generators G1) (header header' ph ph' : Option Bytes)
    (dm dm' : List S) (di di' : List Nat) (apiId : Option Bytes)
    (hsz : gens.values.length ≤ 2 ^ 64) (hsz' : gens'.values.length ≤ 2 ^ 64)
    (h : coreProofVerify env cs pk π gens header ph dm di apiId = .ok ())
    (h' : coreProofVerify env cs pk' π' gens' header' ph' dm' di' apiId = .ok ())
    (hc : π.challenge = π'.challenge) :
    HashCollision env cs ∨
      (π'.Abar = π.Abar ∧ π'.Bbar = π.Bbar ∧ π'.D = π.D ∧ di' = di ∧ dm' = dm ∧
        ph'.getD [] = ph.getD [] ∧ pk' = pk ∧ gens'.values = gens.values ∧
        header'.getD [] = header.getD [] ∧ π'.mCap.length = π.mCap.length ∧
        ∃ Q1 Hs domain, gens.values = Q1 :: Hs ∧
          Hs.length = π.mCap.length + di.length ∧
          calculateDomain env cs pk Q1 Hs header apiId = .ok domain ∧
          T1 π' = T1 π ∧
          T2 π' (Bv gens'.base Q1 domain Hs di dm) Hs
              (getRemainingIndexes (π.mCap.length + di.length) di)
            = T2 π (Bv gens.base Q1 domain Hs di dm) Hs
              (getRemainingIndexes (π.mCap.length + di.length) di)) := by
  obtain ⟨hs, Q1, Hs, d, hv, hlen, hd, hch, _⟩ :=
    (coreProofVerify_ok_iff_pairing cs pk π gens header ph dm di apiId).mp h
  obtain ⟨hs', Q1', Hs', d', hv', hlen', hd', hch', _⟩ :=
    (coreProofVerify_ok_iff_pairing cs pk' π' gens' header' ph' dm' di' apiId).mp h'
  unfold ChallengeOk at hch hch'
  rw [← hc] at hch'
  rcases eq_or_collision hch hch' with heq | hcol
  swap
  · exact Or.inl hcol
  have hL : Hs.length < 2 ^ 64 := by rw [hv] at hsz; simp at hsz; omega
  have hL' : Hs'.length < 2 ^ 64 := by rw [hv'] at hsz'; simp at hsz'; omega
  obtain ⟨_, _, _, hr, hdl⟩ := hs
  obtain ⟨_, _, _, hr', hdl'⟩ := hs'
  have hbound : ∀ i ∈ di, i < 2 ^ 64 := by
    intro i hi
    have := hr i hi
    have : di.length ≠ 0 := by
      intro h0; rw [List.length_eq_zero_iff.mp h0] at hi; simp at hi
    omega
  have hbound' : ∀ i ∈ di', i < 2 ^ 64 := by
    intro i hi
    have := hr' i hi
    have : di'.length ≠ 0 := by
      intro h0; rw [List.length_eq_zero_iff.mp h0] at hi; simp at hi
    omega
  obtain ⟨hdi, hdm, hA, hB, hD, hT1, hT2, hdom, hph⟩ :=
    challengeInput_injective hl hdl.symm hdl'.symm (by omega) (by omega) hbound hbound' heq
  simp only [initOf] at hA hB hD hT1 hT2 hdom
  subst hdi hdm hdom
  rw [calculateDomain_eq] at hd hd'
  rcases eq_or_collision hd hd' with heq2 | hcol
  swap
  · exact Or.inl hcol
  obtain ⟨hpk, hQ, hHs, hhdr⟩ := domainInput_injective hl hL hL' heq2
  subst hpk hQ hHs
  have hU : π'.mCap.length = π.mCap.length := by omega
  right
  refine ⟨hA.symm, hB.symm, hD.symm, rfl, rfl, hph.symm, rfl, by rw [hv, hv'], hhdr.symm, hU,
    Q1, Hs, d, hv, hlen, ?_, hT1.symm, ?_⟩
  · rw [calculateDomain_eq]; exact hd
  · rw [hU] at hT2; exact hT2.symm

/-- Under ONE environment the challenge is a function of the hashed data: two accepted proofs
for the same statement with the same `(Abar, Bbar, D)` and the same recomputed `(T1, T2)` carry
the same challenge. (This is why special soundness is stated for two environments that may
differ in their hash functions — the reprogrammed random oracle of the forking argument.) -/
theorem same_commitment_same_challenge (cs : Suite G1) (pk : G2) (π π' : PoKSignature S G1)
    (gens : Generators G1) (header ph : Option Bytes) (dm : List S) (di : List Nat)
    (apiId : Option Bytes)
    (h : coreProofVerify env cs pk π gens header ph dm di apiId = .ok ())
    (h' : coreProofVerify env cs pk π' gens header ph dm di apiId = .ok ())
    (hinit : ∀ Q1 Hs domain, initOf π' gens.base Q1 Hs domain dm di
      = initOf π gens.base Q1 Hs domain dm di) :
    π'.challenge = π.challenge := by
  obtain ⟨hs, Q1, Hs, d, hv, hlen, hd, hch, _⟩ :=
    (coreProofVerify_ok_iff_pairing cs pk π gens header ph dm di apiId).mp h
  obtain ⟨hs', Q1', Hs', d', hv', hlen', hd', hch', _⟩ :=
    (coreProofVerify_ok_iff_pairing cs pk π' gens header ph dm di apiId).mp h'
  rw [hv] at hv'
  obtain ⟨rfl, rfl⟩ := List.cons.inj hv'
  rw [hd] at hd'; cases hd'
  unfold ChallengeOk at hch hch'
  rw [hinit, hch] at hch'
  exact (Res.ok.inj hch').symm

/-! ### Changing one response -/

theorem lin_set (Hs : List G1) (is : List Nat) (ss : List S) (j : Nat) (m : S)
    (h1 : j < is.length) (h2 : j < ss.length) :
    lin Hs is (ss.set j m) = lin Hs is ss + (m - ss[j]) • Hs.getD is[j] 0 := by
  induction is generalizing ss j with
  | nil => simp at h1
  | cons i is ih =>
    cases ss with
    | nil => simp at h2
    | cons s ss =>
      cases j with
      | zero => simp only [List.set_cons_zero, lin_cons, List.getElem_cons_zero]; module
      | succ j =>
        simp only [List.set_cons_succ, lin_cons, List.getElem_cons_succ]
        rw [ih ss j (by simpa using h1) (by simpa using h2)]
        module

theorem linZ_set (Js : List G1) (ss : List S) (j : Nat) (m : S)
    (h1 : j < Js.length) (h2 : j < ss.length) :
    linZ Js (ss.set j m) = linZ Js ss + (m - ss[j]) • Js[j] := by
  induction Js generalizing ss j with
  | nil => simp at h1
  | cons J Js ih =>
    cases ss with
    | nil => simp at h2
    | cons s ss =>
      cases j with
      | zero => simp only [List.set_cons_zero, linZ_cons, List.getElem_cons_zero]; module
      | succ j =>
        simp only [List.set_cons_succ, linZ_cons, List.getElem_cons_succ]
        rw [ih ss j (by simpa using h1) (by simpa using h2)]
        module

/-- Two different message lists mapped to the same scalars exhibit a hash collision. -/
theorem messagesToScalar_inj_or_collision (cs : Suite G1) (apiId : Bytes) (l l' : List Bytes)
    (ms : List S) (h : messagesToScalar env cs l apiId = .ok ms)
    (h' : messagesToScalar env cs l' apiId = .ok ms) : l = l' ∨ HashCollision env cs := by
  unfold messagesToScalar at h h'
  induction l generalizing l' ms with
  | nil =>
    cases l' with
    | nil => exact Or.inl rfl
    | cons b l' =>
      simp only [mapRes] at h h'
      cases h
      cases hb : hashToScalar env cs b (apiId ++ cs.mapMsgScalar) with
      | err => rw [hb] at h'; cases h'
      | panic => rw [hb] at h'; cases h'
      | ok x =>
        rw [hb] at h'; simp only at h'
        cases hr : mapRes (fun m => hashToScalar env cs m (apiId ++ cs.mapMsgScalar)) l' with
        | err => rw [hr] at h'; cases h'
        | panic => rw [hr] at h'; cases h'
        | ok r => rw [hr] at h'; cases h'
  | cons a l ih =>
    simp only [mapRes] at h
    cases ha : hashToScalar env cs a (apiId ++ cs.mapMsgScalar) with
    | err => rw [ha] at h; cases h
    | panic => rw [ha] at h; cases h
    | ok x =>
      rw [ha] at h; simp only at h
      cases hr : mapRes (fun m => hashToScalar env cs m (apiId ++ cs.mapMsgScalar)) l with
      | err => rw [hr] at h; cases h
      | panic => rw [hr] at h; cases h
      | ok r =>
        rw [hr] at h; simp only [Res.ok.injEq] at h
        subst h
        cases l' with
        | nil => simp only [mapRes] at h'; cases h'
        | cons b l' =>
          simp only [mapRes] at h'
          cases hb : hashToScalar env cs b (apiId ++ cs.mapMsgScalar) with
          | err => rw [hb] at h'; cases h'
          | panic => rw [hb] at h'; cases h'
          | ok y =>
            rw [hb] at h'; simp only at h'
            cases hr' : mapRes (fun m => hashToScalar env cs m (apiId ++ cs.mapMsgScalar)) l' with
            | err => rw [hr'] at h'; cases h'
            | panic => rw [hr'] at h'; cases h'
            | ok r' =>
              rw [hr'] at h'; simp only [Res.ok.injEq, List.cons.injEq] at h'
              obtain ⟨rfl, rfl⟩ := h'
              rcases eq_or_collision ha hb with hab | hcol
              · rcases ih l' r' hr hr' with hll | hcol
                · left; rw [hab, hll]
                · exact Or.inr hcol
              · exact Or.inr hcol

/-! ### Binding of commitment proofs -/

/-- Two accepted commitment proofs carrying the same challenge (same `api_id`): unless a hash
collision is exhibited, the number of committed messages, the generators used, the commitment
and the recomputed `Cbar` coincide. -/
theorem commit_binding (hl : Lawful env pair) (cs : Suite G1) (C C' : G1) (z z' : ZKPoK S)
    (bg bg' : List G1) (apiId : Option Bytes)
    (h : coreCommitVerify env cs C z bg apiId = .ok ())
    (h' : coreCommitVerify env cs C' z' bg' apiId = .ok ())
    (hc : z.challenge = z'.challenge) :
    HashCollision env cs ∨
      (z'.mCap.length = z.mCap.length ∧ C' = C ∧
        ∃ Q2 Js, bg.take (z.mCap.length + 1) = Q2 :: Js ∧
          bg'.take (z.mCap.length + 1) = Q2 :: Js ∧ Js.length = z.mCap.length ∧
          Cbar C z' Q2 Js = Cbar C z Q2 Js) := by
  obtain ⟨Q2, Js, ht, hlen, hh⟩ := (coreCommitVerify_ok_iff cs C z bg apiId).mp h
  obtain ⟨Q2', Js', ht', hlen', hh'⟩ := (coreCommitVerify_ok_iff cs C' z' bg' apiId).mp h'
  rw [← hc] at hh'
  rcases eq_or_collision hh hh' with heq | hcol
  swap
  · exact Or.inl hcol
  obtain ⟨hg, hC, hCb⟩ := blindChallengeInput_injective hl heq
  obtain ⟨rfl, rfl⟩ := List.cons.inj hg
  subst hC
  right
  have hM : z'.mCap.length = z.mCap.length := by omega
  exact ⟨hM, rfl, Q2, Js, ht, by rw [← hM]; exact ht', hlen, hCb.symm⟩

/-! ### Generators -/

theorem genLoop_length (cs : Suite G1) (seedDst genDst : Bytes) (n i : Nat) (v : Bytes)
    (gs : List G1) (h : genLoop env cs seedDst genDst n i v = .ok gs) : gs.length = n := by
  induction n generalizing i v gs with
  | zero => simp only [genLoop, Res.ok.injEq] at h; subst h; rfl
  | succ n ih =>
    simp only [genLoop] at h
    cases he : env.expand cs.xof (v ++ i2osp 8 i) seedDst cs.expandLen with
    | none => rw [he] at h; cases h
    | some v' =>
      rw [he] at h; simp only at h
      cases hg : env.hashToG1 cs.xof v' genDst with
      | none => rw [hg] at h; cases h
      | some g =>
        rw [hg] at h; simp only at h
        cases hr : genLoop env cs seedDst genDst n (i + 1) v' with
        | err => rw [hr] at h; cases h
        | panic => rw [hr] at h; cases h
        | ok gs' =>
          rw [hr] at h; simp only [Res.ok.injEq] at h
          subst h
          simp [ih _ _ _ hr]

theorem create_length (cs : Suite G1) (n : Nat) (apiId : Option Bytes) (g : Generators G1)
    (h : Generators.create env cs n apiId = .ok g) : g.values.length = n ∧ g.base = cs.p1 := by
  unfold Generators.create at h
  cases hc : createGenerators env cs n apiId with
  | err => rw [hc] at h; cases h
  | panic => rw [hc] at h; cases h
  | ok vs =>
    rw [hc] at h; simp only [Res.ok.injEq] at h
    subst h
    unfold createGenerators at hc
    dsimp only at hc
    cases he : env.expand cs.xof (apiId.getD [] ++ cs.generatorSeed)
        (apiId.getD [] ++ cs.generatorSeedDst) cs.expandLen with
    | none => rw [he] at hc; cases hc
    | some v =>
      rw [he] at hc
      exact ⟨genLoop_length cs _ _ _ _ _ _ hc, rfl⟩

theorem mapRes_length {α β} (f : α → Res β) (l : List α) (r : List β)
    (h : mapRes f l = .ok r) : r.length = l.length := by
  induction l generalizing r with
  | nil => simp only [mapRes, Res.ok.injEq] at h; subst h; rfl
  | cons a l ih =>
    simp only [mapRes] at h
    cases ha : f a with
    | err => rw [ha] at h; cases h
    | panic => rw [ha] at h; cases h
    | ok b =>
      rw [ha] at h; simp only at h
      cases hr : mapRes f l with
      | err => rw [hr] at h; cases h
      | panic => rw [hr] at h; cases h
      | ok bs =>
        rw [hr] at h; simp only [Res.ok.injEq] at h
        subst h
        simp [ih bs hr]

theorem messagesToScalar_length (cs : Suite G1) (msgs : List Bytes) (apiId : Bytes) (ms : List S)
    (h : messagesToScalar env cs msgs apiId = .ok ms) : ms.length = msgs.length :=
  mapRes_length _ _ _ h

end
end Zk.Sound
