/-
Naturality of the BBS model, part 3: `src/bbsplus/commitment.rs` and `src/bbsplus/blind.rs`.
-/
import ZkProofs.Lemmas.Naturality2
set_option linter.unusedSectionVars false
set_option linter.unusedVariables false

namespace Zk
namespace Transfer

section
variable {S G1 G2 : Type}
variable [Zero S] [One S] [Add S] [Sub S] [Neg S] [Mul S] [DecidableEq S]
variable [Zero G1] [Add G1] [Sub G1] [Neg G1] [SMul S G1] [DecidableEq G1]
variable [Zero G2] [Add G2] [Neg G2] [SMul S G2] [DecidableEq G2]
variable {S' G1' G2' : Type}
variable [Zero S'] [One S'] [Add S'] [Sub S'] [Neg S'] [Mul S'] [DecidableEq S']
variable [Zero G1'] [Add G1'] [Sub G1'] [Neg G1'] [SMul S' G1'] [DecidableEq G1']
variable [Zero G2'] [Add G2'] [Neg G2'] [SMul S' G2'] [DecidableEq G2']
variable {env : Env S G1 G2} {env' : Env S' G1' G2'} {fS : S → S'} {f1 : G1 → G1'} {f2 : G2 → G2'}

/-! ### `src/bbsplus/commitment.rs` -/

theorem cons_map {α β} (ψ : α → β) (a : α) (l : List α) : ψ a :: l.map ψ = (a :: l).map ψ := rfl

theorem Commitment.toBytes_nat (H : Hom env env' fS f1 f2) (c : Commitment S G1) :
    (c.map fS f1).toBytes env' = c.toBytes env := by
  unfold Commitment.toBytes
  simp only [Commitment.map_commitment, Commitment.map_proof, H.g1Enc, ZKPoK.toBytes_nat H]

theorem Commitment.fromBytes_nat (H : Hom env env' fS f1 f2) (b : Bytes) :
    Commitment.fromBytes env' b = (Commitment.fromBytes env b).map (Commitment.map fS f1) := by
  unfold Commitment.fromBytes
  simp only [H.g1Dec, ZKPoK.fromBytes_nat H]
  split
  · rfl
  · cases env.g1Dec (b.take 48) with
    | none => rfl
    | some C =>
      simp only [Option.map_some]
      cases ZKPoK.fromBytes env (b.drop 48) <;> rfl

theorem sumZip_nat (H : Hom env env' fS f1 f2) (acc : G1) (Js : List G1) (scal : List S) :
    sumZip (f1 acc) (Js.map f1) (scal.map fS) = f1 (sumZip acc Js scal) := by
  unfold sumZip
  rw [zip_map_nat]
  exact foldl_nat f1 (Prod.map f1 fS) _ _
    (fun B hm => by simp only [Prod.map_fst, Prod.map_snd, ← H.G1_smul, ← H.G1_add]) _ _

theorem coreCommit_nat (H : Hom env env' fS f1 f2) (cs : Suite G1) (blindGens : List G1)
    (cms : Option (List S)) (apiId : Option Bytes) (tape : List S) :
    coreCommit env' (cs.map f1) (blindGens.map f1) (cms.map (List.map fS)) apiId (tape.map fS)
      = (coreCommit env cs blindGens cms apiId tape).map
          (Prod.map (Commitment.map fS f1) fS) := by
  have hcms : (cms.map (List.map fS)).getD [] = (cms.getD []).map fS := by cases cms <;> rfl
  unfold coreCommit
  simp only [hcms, List.length_map, ← List.map_take]
  generalize cms.getD [] = cm
  split
  · rfl
  · rcases blindGens with _ | ⟨Q2, Js⟩
    · rfl
    · rcases h : tape.take (cm.length + 2) with _ | ⟨blind, _ | ⟨sT, mT⟩⟩
      · rfl
      · rfl
      · simp only [List.map_cons, List.length_map]
        split
        · rfl
        · simp only [← H.G1_smul, sumZip_nat H, cons_map f1,
            calculateBlindChallenge_nat H]
          cases calculateBlindChallenge env cs (sumZip (blind • Q2) Js cm)
              (sumZip (sT • Q2) Js mT) (Q2 :: Js) (some (apiId.getD [])) with
          | err => rfl
          | panic => rfl
          | ok c =>
            simp only [Res.map_ok, Prod.map_apply, Commitment.map_mk, ZKPoK.map_mk, zipLin_nat H,
              H.S_add, H.S_mul]

theorem commitWith_nat (H : Hom env env' fS f1 f2) (cs : Suite G1)
    (committedMessages : Option (List Bytes)) (apiId : Option Bytes) (tape : List S) :
    commitWith env' (cs.map f1) committedMessages apiId (tape.map fS)
      = (commitWith env cs committedMessages apiId tape).map
          (Prod.map (Commitment.map fS f1) fS) := by
  unfold commitWith
  simp only [messagesToScalar_nat H, Generators.create_nat H]
  cases messagesToScalar env cs (committedMessages.getD []) (apiId.getD []) with
  | err => rfl
  | panic => rfl
  | ok cms =>
    simp only [Res.map_ok, List.length_map]
    cases Generators.create env cs (cms.length + 1)
        (some (Bytes.ofAscii "BLIND_" ++ apiId.getD [])) with
    | err => rfl
    | panic => rfl
    | ok bg =>
      simp only [Res.map_ok, Generators.map_values]
      exact coreCommit_nat H cs bg.values (some cms) _ tape

theorem commit_nat (H : Hom env env' fS f1 f2) (cs : Suite G1)
    (committedMessages : Option (List Bytes)) (tape : List S) :
    commit env' (cs.map f1) committedMessages (tape.map fS)
      = (commit env cs committedMessages tape).map (Prod.map (Commitment.map fS f1) fS) := by
  unfold commit
  exact commitWith_nat H cs committedMessages _ tape

theorem coreCommitVerify_nat (H : Hom env env' fS f1 f2) (cs : Suite G1) (C : G1) (z : ZKPoK S)
    (blindGens : List G1) (apiId : Option Bytes) :
    coreCommitVerify env' (cs.map f1) (f1 C) (z.map fS) (blindGens.map f1) apiId
      = coreCommitVerify env cs C z blindGens apiId := by
  unfold coreCommitVerify
  simp only [ZKPoK.map_mCap, ZKPoK.map_sCap, ZKPoK.map_challenge, List.length_map,
    ← List.map_take]
  split
  · rfl
  · rcases h : blindGens.take (z.mCap.length + 1) with _ | ⟨G2', Js⟩
    · rfl
    · simp only [List.map_cons]
      simp only [← H.S_neg, ← H.G1_smul, sumZip_nat H, ← H.G1_add,
        cons_map f1, calculateBlindChallenge_nat H]
      cases calculateBlindChallenge env cs C
          (sumZip (z.sCap • G2') Js z.mCap + -z.challenge • C) (G2' :: Js)
          (some (apiId.getD [])) with
      | err => rfl
      | panic => rfl
      | ok cv => simp only [Res.map_ok, ne_eq, H.fS_inj.eq_iff]

theorem deserializeAndValidateCommit_nat (H : Hom env env' fS f1 f2) (cs : Suite G1)
    (cwp : Option Bytes) (blindGens : Generators G1) (apiId : Option Bytes) :
    deserializeAndValidateCommit env' (cs.map f1) cwp (blindGens.map f1) apiId
      = (deserializeAndValidateCommit env cs cwp blindGens apiId).map f1 := by
  unfold deserializeAndValidateCommit
  simp only [Commitment.fromBytes_nat H, Generators.map_values, List.length_map]
  split
  · simp only [Res.map_ok, H.G1_zero]
  · cases Commitment.fromBytes env (cwp.getD []) with
    | err => rfl
    | panic => rfl
    | ok c =>
      simp only [Res.map_ok, Commitment.map_proof, Commitment.map_commitment, ZKPoK.map_mCap,
        List.length_map, coreCommitVerify_nat H]
      split
      · rfl
      · cases coreCommitVerify env cs c.commitment c.proof blindGens.values
          (some (apiId.getD [])) <;> rfl

/-! ### `src/bbsplus/blind.rs` -/

theorem prepareParameters_nat (H : Hom env env' fS f1 f2) (cs : Suite G1)
    (messages committed : Option (List Bytes)) (generatorsNumber blindGeneratorsNumber : Nat)
    (secretProverBlind : Option S) (apiId : Option Bytes) :
    prepareParameters env' (cs.map f1) messages committed generatorsNumber blindGeneratorsNumber
        (secretProverBlind.map fS) apiId
      = (prepareParameters env cs messages committed generatorsNumber blindGeneratorsNumber
          secretProverBlind apiId).map (Prod.map (List.map fS) (Generators.map f1)) := by
  unfold prepareParameters
  simp only [messagesToScalar_nat H, Generators.create_nat H]
  cases messagesToScalar env cs (messages.getD []) (apiId.getD []) with
  | err => rfl
  | panic => rfl
  | ok ms =>
    simp only [Res.map_ok]
    cases messagesToScalar env cs (committed.getD []) (apiId.getD []) with
    | err => rfl
    | panic => rfl
    | ok cms =>
      simp only [Res.map_ok]
      cases Generators.create env cs generatorsNumber (some (apiId.getD [])) with
      | err => rfl
      | panic => rfl
      | ok gens =>
        simp only [Res.map_ok]
        cases Generators.create env cs blindGeneratorsNumber
            (some (Bytes.ofAscii "BLIND_" ++ apiId.getD [])) with
        | err => rfl
        | panic => rfl
        | ok bgens =>
          cases secretProverBlind <;>
            simp [Generators.map]

theorem calculateB_nat (H : Hom env env' fS f1 f2) (gens : Generators G1) (commitment : Option G1)
    (ms : List S) :
    calculateB (S := S') (gens.map f1) (commitment.map f1) (ms.map fS)
      = (calculateB gens commitment ms).map f1 := by
  obtain ⟨base, values⟩ := gens
  have hC : (commitment.map f1).getD 0 = f1 (commitment.getD 0) := by
    cases commitment
    · exact H.G1_zero.symm
    · rfl
  unfold calculateB
  simp only [Generators.map_mk, List.length_map, hC]
  split
  · rfl
  · rcases values with _ | ⟨Q1, Hs⟩
    · rfl
    · simp only [List.map_cons, sumZip_nat H, ← H.G1_add, H.f1_eq_zero_iff]
      split <;> rfl

theorem finalizeBlindSign_nat (H : Hom env env' fS f1 f2) (cs : Suite G1) (sk : S) (pk : G2)
    (B : G1) (gens blindGens : Generators G1) (header apiId : Option Bytes) :
    finalizeBlindSign env' (cs.map f1) (fS sk) (f2 pk) (f1 B) (gens.map f1) (blindGens.map f1)
        header apiId
      = (finalizeBlindSign env cs sk pk B gens blindGens header apiId).map
          (Signature.map fS f1) := by
  obtain ⟨base, values⟩ := gens
  obtain ⟨bbase, bvalues⟩ := blindGens
  unfold finalizeBlindSign
  simp only [Generators.map_mk]
  rcases values with _ | ⟨Q1, Hs⟩
  · rfl
  · rcases bvalues with _ | ⟨Q2, bgTail⟩
    · rfl
    · have hl : List.map f1 Hs ++ [f1 Q2] ++ (List.map f1 bgTail).dropLast
          = List.map f1 (Hs ++ [Q2] ++ bgTail.dropLast) := by
        simp only [List.map_append, List.map_cons, List.map_nil, List.map_dropLast]
      simp only [List.map_cons, hl, calculateDomain_nat H]
      cases calculateDomain env cs pk Q1 (Hs ++ [Q2] ++ bgTail.dropLast) header
          (some (apiId.getD [])) with
      | err => rfl
      | panic => rfl
      | ok domain =>
        simp only [Res.map_ok, ← H.G1_smul, ← H.G1_add, H.sEnc, H.g1Enc, hashToScalar_nat H,
          Suite.map_h2s]
        cases hashToScalar env cs (env.sEnc sk ++ env.g1Enc (B + domain • Q1))
            (apiId.getD [] ++ cs.h2s) with
        | err => rfl
        | panic => rfl
        | ok e =>
          simp only [Res.map_ok, ← H.S_add, H.sInv]
          cases env.sInv (sk + e) with
          | none => rfl
          | some inv => simp only [Option.map_some, ← H.G1_smul, Res.map_ok, Signature.map_mk]

theorem blindSign_nat (H : Hom env env' fS f1 f2) (cs : Suite G1) (sk : S) (pk : G2)
    (cwp header : Option Bytes) (messages : Option (List Bytes)) :
    blindSign env' (cs.map f1) (fS sk) (f2 pk) cwp header messages
      = (blindSign env cs sk pk cwp header messages).map (Signature.map fS f1) := by
  unfold blindSign
  simp only [Generators.create_nat H, messagesToScalar_nat H, Suite.map_apiIdBlind]
  cases blindSignM (cwp.getD []).length with
  | none => rfl
  | some M =>
    simp only []
    cases Generators.create env cs ((messages.getD []).length + 1) (some cs.apiIdBlind) with
    | err => rfl
    | panic => rfl
    | ok gens =>
      simp only [Res.map_ok]
      cases Generators.create env cs (M + 1)
          (some (Bytes.ofAscii "BLIND_" ++ cs.apiIdBlind)) with
      | err => rfl
      | panic => rfl
      | ok bgens =>
        simp only [Res.map_ok, deserializeAndValidateCommit_nat H]
        cases deserializeAndValidateCommit env cs (some (cwp.getD [])) bgens
            (some cs.apiIdBlind) with
        | err => rfl
        | panic => rfl
        | ok C =>
          simp only [Res.map_ok]
          cases messagesToScalar env cs (messages.getD []) cs.apiIdBlind with
          | err => rfl
          | panic => rfl
          | ok ms =>
            simp only [Res.map_ok]
            have hB := calculateB_nat H gens (some C) ms
            simp only [Option.map_some] at hB
            simp only [hB]
            cases calculateB gens (some C) ms with
            | err => rfl
            | panic => rfl
            | ok B => simp only [Res.map_ok, finalizeBlindSign_nat H]

theorem verifyBlindSign_nat (H : Hom env env' fS f1 f2) (cs : Suite G1) (σ : Signature S G1)
    (pk : G2) (header : Option Bytes) (messages committed : Option (List Bytes))
    (secretProverBlind : Option S) :
    verifyBlindSign env' (cs.map f1) (σ.map fS f1) (f2 pk) header messages committed
        (secretProverBlind.map fS)
      = verifyBlindSign env cs σ pk header messages committed secretProverBlind := by
  have hb : (secretProverBlind.map fS).getD 0 = fS (secretProverBlind.getD 0) := by
    cases secretProverBlind
    · exact H.S_zero.symm
    · rfl
  unfold verifyBlindSign
  have hp := prepareParameters_nat H cs (some (messages.getD [])) (some (committed.getD []))
    ((messages.getD []).length + 1) ((committed.getD []).length + 1)
    (some (secretProverBlind.getD 0)) (some cs.apiIdBlind)
  simp only [Option.map_some] at hp
  simp only [hb, Suite.map_apiIdBlind, hp]
  cases prepareParameters env cs (some (messages.getD [])) (some (committed.getD []))
      ((messages.getD []).length + 1) ((committed.getD []).length + 1)
      (some (secretProverBlind.getD 0)) (some cs.apiIdBlind) with
  | err => rfl
  | panic => rfl
  | ok p =>
    obtain ⟨ms, gens⟩ := p
    simp only [Res.map_ok, Prod.map_apply, coreVerify_nat H]

theorem blindProofGen_nat (H : Hom env env' fS f1 f2) (cs : Suite G1) (pk : G2)
    (signature : Bytes) (header ph : Option Bytes) (messages committed : Option (List Bytes))
    (disclosedIndexes disclosedCommitmentIndexes : Option (List Nat))
    (secretProverBlind : Option S) (tape : List S) :
    blindProofGen env' (cs.map f1) (f2 pk) signature header ph messages committed
        disclosedIndexes disclosedCommitmentIndexes (secretProverBlind.map fS) (tape.map fS)
      = (blindProofGen env cs pk signature header ph messages committed disclosedIndexes
          disclosedCommitmentIndexes secretProverBlind tape).map (PoKSignature.map fS f1) := by
  have hb : (secretProverBlind.map fS).getD 0 = fS (secretProverBlind.getD 0) := by
    cases secretProverBlind
    · exact H.S_zero.symm
    · rfl
  unfold blindProofGen
  have hp := prepareParameters_nat H cs (some (messages.getD [])) (some (committed.getD []))
    ((messages.getD []).length + 1) ((committed.getD []).length + 1)
    (some (secretProverBlind.getD 0)) (some cs.apiIdBlind)
  simp only [Option.map_some] at hp
  simp only [Signature.fromBytes_nat H, hb, Suite.map_apiIdBlind, hp]
  cases Signature.fromBytes env signature with
  | err => rfl
  | panic => rfl
  | ok σ =>
    simp only [Res.map_ok]
    split
    · rfl
    · split
      · rfl
      · split
        · rfl
        · split
          · rfl
          · cases prepareParameters env cs (some (messages.getD [])) (some (committed.getD []))
                ((messages.getD []).length + 1) ((committed.getD []).length + 1)
                (some (secretProverBlind.getD 0)) (some cs.apiIdBlind) with
            | err => rfl
            | panic => rfl
            | ok p =>
              obtain ⟨ms, gens⟩ := p
              simp only [Res.map_ok, Prod.map_apply, coreProofGen_nat H]

theorem blindProofVerify_nat (H : Hom env env' fS f1 f2) (cs : Suite G1) (π : PoKSignature S G1)
    (pk : G2) (header ph : Option Bytes) (L : Option Nat)
    (disclosedMessages disclosedCommitted : Option (List Bytes))
    (disclosedIndexes disclosedCommitmentIndexes : Option (List Nat)) :
    blindProofVerify env' (cs.map f1) (π.map fS f1) (f2 pk) header ph L disclosedMessages
        disclosedCommitted disclosedIndexes disclosedCommitmentIndexes
      = blindProofVerify env cs π pk header ph L disclosedMessages disclosedCommitted
          disclosedIndexes disclosedCommitmentIndexes := by
  unfold blindProofVerify
  simp only [PoKSignature.map_mCap, List.length_map, Suite.map_apiIdBlind]
  cases uAdd? (L.getD 0) 1 with
  | none => rfl
  | some L1 =>
    simp only []
    cases uSub? ((sortDedup (disclosedIndexes.getD [])).length
        + (sortDedup (disclosedCommitmentIndexes.getD [])).length + π.mCap.length) L1 with
    | none => rfl
    | some M =>
      simp only []
      split
      · rfl
      · have hp := prepareParameters_nat H cs (some (disclosedMessages.getD []))
          (some (disclosedCommitted.getD [])) (L.getD 0 + 1) (M + 1) none (some cs.apiIdBlind)
        simp only [Option.map_none] at hp
        simp only [hp]
        cases prepareParameters env cs (some (disclosedMessages.getD []))
            (some (disclosedCommitted.getD [])) (L.getD 0 + 1) (M + 1) none
            (some cs.apiIdBlind) with
        | err => rfl
        | panic => rfl
        | ok p =>
          obtain ⟨ms, gens⟩ := p
          simp only [Res.map_ok, Prod.map_apply, coreProofVerify_nat H]

end
end Transfer
end Zk
