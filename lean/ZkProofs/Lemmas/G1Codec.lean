/-
Helper lemmas for `ZkProofs/Props/C09G1.lean`: the executable zcash codec of BLS12-381 G1
(`ZkModel/L0/G1.lean`) is canonical.

* byte facts about the three flag bits of the first byte (all 256 bytes checked by kernel
  evaluation, `decide +kernel` over `Fin 256`);
* `os2ip (a :: l)`, the first byte of `i2osp 48 x` for `x < P` has its top three bits clear;
* the field `ZMod P` behind `Fp.add/mul/sq/neg` and `G1.rhs`;
* `x³ + 4 ≠ 0` in `Fp` (E1 has no point of order 2): `−4` is not a cube, because
  `(−4)^((P−1)/3) ≠ 1` (a closed computation, `Primes.modpow`);
* `Fp.sqrt?`: what an answer satisfies, and that it answers `±y` on `y²` (`P ≡ 3 mod 4`);
* `Fp.lexLargest (Fp.neg r) = !Fp.lexLargest r` for `0 < r < P`.
-/
import ZkProofs.Lemmas.ConcreteScalar
import ZkModel.L0.G1
namespace Zk.G1Codec
open Zk Zk.Primes Zk.ConcreteScalar Zk.Codecs.ScalarCodec

/-! ### flag bits of the first byte -/

theorem forall_uint8 {p : UInt8 → Prop} (h : ∀ i : Fin 256, p ⟨⟨i⟩⟩) : ∀ b, p b := by
  intro b
  obtain ⟨⟨i⟩⟩ := b
  exact h i

/-- Recombination performed by `to_compressed` on a byte accepted by the point branch of
`from_compressed`: compression set, infinity clear, sort flag `s`. -/
theorem byte_point : ∀ b : UInt8, ∀ s : Bool, (b &&& 0x80 != 0) = true → (b &&& 0x40 != 0) = false →
    (b &&& 0x20 != 0) = s → ((b &&& 0x1f) ||| 0x80 ||| 0 ||| (if s then 0x20 else 0)) = b := by
  apply forall_uint8
  decide +kernel

/-- The only first byte accepted by the identity branch is `0xc0`. -/
theorem byte_identity : ∀ b : UInt8, (b &&& 0x80 != 0) = true → (b &&& 0x40 != 0) = true →
    (b &&& 0x20 != 0) = false → b &&& 0x1f = 0 → b = 0xc0 := by
  apply forall_uint8
  decide +kernel

/-- Flag recovery: a byte below `0x20` with the flags or-ed in gives back the byte and the flags. -/
theorem byte_flags : ∀ b : UInt8, ∀ s : Bool, b.toNat < 32 →
    ((b ||| 0x80 ||| 0 ||| (if s then 0x20 else 0)) &&& 0x1f = b) ∧
    ((b ||| 0x80 ||| 0 ||| (if s then 0x20 else 0)) &&& 0x80 != 0) = true ∧
    ((b ||| 0x80 ||| 0 ||| (if s then 0x20 else 0)) &&& 0x40 != 0) = false ∧
    ((b ||| 0x80 ||| 0 ||| (if s then 0x20 else 0)) &&& 0x20 != 0) = s := by
  apply forall_uint8
  decide +kernel

/-- Masking and re-adding the flag bits is the identity. -/
theorem byte_split : ∀ b : UInt8, (b &&& 0x1f) ||| (b &&& 0xe0) = b := by
  apply forall_uint8
  decide +kernel

/-! ### big-endian integers -/

theorem foldl_acc (l : Bytes) (acc : Nat) :
    l.foldl (fun acc x => acc * 256 + x.toNat) acc =
      acc * 256 ^ l.length + l.foldl (fun acc x => acc * 256 + x.toNat) 0 := by
  induction l generalizing acc with
  | nil => simp
  | cons a l ih =>
    simp only [List.foldl_cons, List.length_cons]
    rw [ih, ih (0 * 256 + a.toNat)]
    ring

theorem os2ip_cons (a : UInt8) (l : Bytes) :
    os2ip (a :: l) = a.toNat * 256 ^ l.length + os2ip l := by
  rw [os2ip, List.foldl_cons, foldl_acc]; simp [os2ip]

theorem P_pos : 0 < P := P_prime.pos
theorem P_lt_bits : P < 32 * 256 ^ 47 := by decide
theorem P_lt_bytes : P < 256 ^ 48 := by decide

/-- `i2osp 48 x` for a canonical field element: 48 bytes, the top three bits of the first byte are
clear, and the bytes read back as `x`. -/
theorem i2osp48_canonical {x : Nat} (hx : x < P) :
    ∃ b0 rest, i2osp 48 x = b0 :: rest ∧ rest.length = 47 ∧ b0.toNat < 32 ∧
      os2ip (b0 :: rest) = x := by
  have hlen := i2ospAux_length 48 x
  have hval := os2ip_i2ospAux 48 x
  rw [Nat.mod_eq_of_lt (Nat.lt_trans hx P_lt_bytes)] at hval
  unfold i2osp
  cases hi : i2ospAux 48 x with
  | nil => rw [hi] at hlen; simp at hlen
  | cons b0 rest =>
    rw [hi] at hlen hval
    have hl : rest.length = 47 := by simpa using hlen
    refine ⟨b0, rest, rfl, hl, ?_, hval⟩
    rw [os2ip_cons, hl] at hval
    have h1 : b0.toNat * 256 ^ 47 < 32 * 256 ^ 47 := by
      have := P_lt_bits; omega
    exact Nat.lt_of_mul_lt_mul_right h1

/-- A 48-byte string is the `i2osp` of its value. -/
theorem i2osp48_os2ip (b0 : UInt8) (rest : Bytes) (hl : rest.length = 47) :
    i2osp 48 (os2ip (b0 :: rest)) = b0 :: rest := by
  have := i2ospAux_os2ip (b0 :: rest)
  rwa [List.length_cons, hl] at this

theorem i2osp48_zero : i2osp 48 0 = 0 :: List.replicate 47 0 := by decide

/-! ### the field behind `Fp` -/

theorem cast_inj {a b : Nat} (ha : a < P) (hb : b < P) (h : (a : ZMod P) = (b : ZMod P)) :
    a = b := by
  have h' := (ZMod.natCast_eq_natCast_iff' a b P).mp h
  rwa [Nat.mod_eq_of_lt ha, Nat.mod_eq_of_lt hb] at h'

theorem cast_eq_zero {a : Nat} (ha : a < P) (h : (a : ZMod P) = 0) : a = 0 :=
  cast_inj ha P_pos (by rw [h, Nat.cast_zero])

theorem rhs_lt (x : Nat) : G1.rhs x < P := Nat.mod_lt _ P_pos

theorem rhs_cast (x : Nat) : ((G1.rhs x : Nat) : ZMod P) = (x : ZMod P) ^ 3 + 4 := by
  show ((((x * x % P) * x % P + 4) % P : Nat) : ZMod P) = _
  rw [ZMod.natCast_mod, Nat.cast_add, ZMod.natCast_mod, Nat.cast_mul, ZMod.natCast_mod,
    Nat.cast_mul]
  push_cast
  ring

theorem sq_lt (y : Nat) : Fp.sq y < P := Nat.mod_lt _ P_pos

theorem sq_cast (y : Nat) : ((Fp.sq y : Nat) : ZMod P) = (y : ZMod P) ^ 2 := by
  show ((y * y % P : Nat) : ZMod P) = _
  rw [ZMod.natCast_mod, Nat.cast_mul, sq]

theorem neg_lt (a : Nat) : Fp.neg a < P := Nat.mod_lt _ P_pos

theorem neg_cast (a : Nat) : ((Fp.neg a : Nat) : ZMod P) = -(a : ZMod P) := by
  show (((P - a % P) % P : Nat) : ZMod P) = _
  have hlt : a % P < P := Nat.mod_lt _ P_pos
  rw [ZMod.natCast_mod, Nat.cast_sub hlt.le, ZMod.natCast_self, zero_sub, ZMod.natCast_mod]

theorem neg_neg {a : Nat} (ha : a < P) : Fp.neg (Fp.neg a) = a :=
  cast_inj (neg_lt _) ha (by rw [neg_cast, neg_cast, _root_.neg_neg])

theorem P_odd : P % 2 = 1 := by decide

/-- Negation flips the "lexicographically largest" flag of a non-zero element (`P` is odd). -/
theorem lexLargest_neg {r : Nat} (h0 : r ≠ 0) (hr : r < P) :
    Fp.lexLargest (Fp.neg r) = !Fp.lexLargest r := by
  have hodd := P_odd
  have h1 : Fp.neg r = P - r := by
    show (P - r % P) % P = P - r
    rw [Nat.mod_eq_of_lt hr, Nat.mod_eq_of_lt (by omega)]
  rw [h1]
  unfold Fp.lexLargest
  by_cases hc : r > (P - 1) / 2
  · rw [decide_eq_true hc, Bool.not_true, decide_eq_false_iff_not]; omega
  · rw [decide_eq_false hc, Bool.not_false, decide_eq_true_eq]; omega

/-! ### no point of order 2: `x³ + 4 ≠ 0` -/

theorem neg4_not_cube : modpow (P - 4) ((P - 1) / 3) P ≠ 1 := by decide +kernel

theorem three_dvd : 3 * ((P - 1) / 3) = P - 1 := by decide

theorem four_ne_zero : (4 : ZMod P) ≠ 0 := by
  intro h
  have h' : ((4 : Nat) : ZMod P) = 0 := by exact_mod_cast h
  rw [ZMod.natCast_eq_zero_iff] at h'
  have := Nat.le_of_dvd (by decide) h'
  exact absurd this (by decide)

/-- `x³ + 4 ≠ 0` in `Fp` for EVERY natural `x` (reduced or not): `−4` is not a cube modulo `P`.
Hence E1 has no affine point with `y = 0`. -/
theorem rhs_ne_zero (x : Nat) : G1.rhs x ≠ 0 := by
  intro h
  have hc := rhs_cast x
  rw [h, Nat.cast_zero] at hc
  have hx0 : (x : ZMod P) ≠ 0 := by
    intro h0
    rw [h0] at hc
    apply four_ne_zero
    rw [hc]; ring
  have hx3 : (x : ZMod P) ^ 3 = ((P - 4 : Nat) : ZMod P) := by
    rw [Nat.cast_sub (by decide), ZMod.natCast_self, zero_sub]
    push_cast
    linear_combination -hc
  have hf := ZMod.pow_card_sub_one_eq_one hx0
  rw [← three_dvd, pow_mul, hx3, ← Nat.cast_pow] at hf
  have h1 : (((P - 4) ^ ((P - 1) / 3) : Nat) : ZMod P) = ((1 : Nat) : ZMod P) := by
    rw [hf, Nat.cast_one]
  have h2 := (ZMod.natCast_eq_natCast_iff' _ _ _).mp h1
  rw [← modpow_spec, Nat.mod_eq_of_lt P_prime.one_lt] at h2
  exact neg4_not_cube h2

/-! ### `Fp.sqrt?` -/

theorem P_mod4 : 2 * ((P + 1) / 4) = (P + 1) / 2 := by decide
theorem P_half : (P + 1) / 2 * 2 = P + 1 := by decide

/-- What an answer of `Fp.sqrt?` satisfies. -/
theorem sqrt_some {a r : Nat} (h : Fp.sqrt? a = some r) :
    r = a ^ ((P + 1) / 4) % P ∧ r * r % P = a % P := by
  unfold Fp.sqrt? at h
  simp only [] at h
  split at h
  · rename_i hc
    cases h
    exact ⟨powMod_spec _ _ _ P_pos, by simpa using hc⟩
  · cases h

theorem sqrt_some_lt {a r : Nat} (h : Fp.sqrt? a = some r) : r < P := by
  rw [(sqrt_some h).1]; exact Nat.mod_lt _ P_pos

/-- `Fp.sqrt?` answers on every square, with one of the two roots (`P ≡ 3 mod 4`, Euler). -/
theorem sqrt_sq {y : Nat} (hy : y < P) :
    ∃ r, Fp.sqrt? (Fp.sq y) = some r ∧ r < P ∧ (r = y ∨ r = Fp.neg y) := by
  have hr : powMod (Fp.sq y) ((P + 1) / 4) P = Fp.sq y ^ ((P + 1) / 4) % P :=
    powMod_spec _ _ _ P_pos
  have hrlt : powMod (Fp.sq y) ((P + 1) / 4) P < P := by rw [hr]; exact Nat.mod_lt _ P_pos
  have hcast : ((powMod (Fp.sq y) ((P + 1) / 4) P : Nat) : ZMod P) ^ 2 = (y : ZMod P) ^ 2 := by
    rw [hr, ZMod.natCast_mod, Nat.cast_pow, sq_cast, ← pow_mul, ← pow_mul, ← mul_assoc, P_mod4, P_half,
      pow_succ, ZMod.pow_card, sq]
  refine ⟨powMod (Fp.sq y) ((P + 1) / 4) P, ?_, hrlt, ?_⟩
  · unfold Fp.sqrt?
    simp only []
    rw [if_pos]
    rw [beq_iff_eq]
    have : (((powMod (Fp.sq y) ((P + 1) / 4) P * powMod (Fp.sq y) ((P + 1) / 4) P : Nat)) : ZMod P)
        = ((Fp.sq y : Nat) : ZMod P) := by
      rw [Nat.cast_mul, ← sq, hcast, sq_cast]
    exact (ZMod.natCast_eq_natCast_iff' _ _ _).mp this
  · rcases sq_eq_sq_iff_eq_or_eq_neg.mp hcast with h | h
    · exact Or.inl (cast_inj hrlt hy h)
    · exact Or.inr (cast_inj hrlt (neg_lt _) (by rw [h, neg_cast]))

/-! ### the encoder on the two kinds of point -/

theorem toCompressed_inf (x y : Nat) :
    G1.toCompressed ⟨x, y, true⟩ = 0xc0 :: List.replicate 47 0 := by
  unfold G1.toCompressed
  simp [i2osp48_zero]
  decide

theorem toCompressed_point {x y : Nat} {b0 : UInt8} {rest : Bytes} (hi : i2osp 48 x = b0 :: rest) :
    G1.toCompressed ⟨x, y, false⟩ =
      (b0 ||| 0x80 ||| 0 ||| (if Fp.lexLargest y then 0x20 else 0)) :: rest := by
  unfold G1.toCompressed
  simp [hi]

/-! ### closed facts (kernel evaluation of the executable model) -/

theorem inSubgroup_zero : G1.inSubgroup G1Pt.zero = true := by decide +kernel
theorem onCurve_zero : G1.onCurve G1Pt.zero = true := by decide
theorem onCurve_gen : G1.onCurve G1.gen = true := by decide +kernel
theorem inSubgroup_gen : G1.inSubgroup G1.gen = true := by decide +kernel

end Zk.G1Codec
