/-
The specification `Zk.Cl.ArithOK` of the L0 integer primitives (`ZkModel/L0/IntArith.lean`),
proved outright: `Zk.Cl.arithOK`.  Also `Zk.Cl.bitLen_spec`, `Zk.Cl.tmod_eq_emod_of_nonneg`.
Everything else lives in the namespace `Zk.Cl.ArithSpec` (`powModNat_spec`, `powMod_nonneg`,
`powMod_neg`, `powMod_range`, `invMod_some`, `invMod_none`, `invMod_isSome_iff`, `isqrt_eq_sqrt`,
`bitLen_pos`, `lt_two_pow_of_bitLen`) to keep `Zk.Cl` free of clashes.
-/
import ZkProofs.ClSetting
import Mathlib.Data.Nat.Log
import Mathlib.Data.Int.ModEq
import Mathlib.Data.Nat.ModEq
import Mathlib.Tactic.Ring
import Mathlib.Tactic.Linarith
import Mathlib.Data.Nat.Sqrt
open Zk.IA
namespace Zk.Cl.ArithSpec

theorem forIn_range'_iter {σ : Type} (g : σ → σ) (f : Nat → σ → Id (ForInStep σ))
    (hf : ∀ x st, f x st = pure (ForInStep.yield (g st))) (k s : Nat) (init : σ) :
    forIn (m := Id) (List.range' s k 1) init f = pure (g^[k] init) := by
  induction k generalizing s init with
  | zero => simp
  | succ k ih =>
    simp only [List.range'_succ, List.forIn_cons, hf, Function.iterate_succ, Function.comp]
    simp [ih]

def pmStep (n : Nat) (st : Nat × Nat × Nat) : Nat × Nat × Nat :=
  (if st.2.2 % 2 = 1 then st.1 * st.2.1 % n else st.1, st.2.1 * st.2.1 % n, st.2.2 / 2)

theorem powModNat_eq_iter (b e n : Nat) :
    powModNat b e n = ((pmStep n)^[e.log2+1] (1 % n, b % n, e)).1 := by
  unfold powModNat
  simp only [Std.Legacy.Range.forIn_eq_forIn_range', Std.Legacy.Range.size]
  rw [forIn_range'_iter (pmStep n)]
  · simp
  · intro x st
    simp only [pmStep]
    split <;> simp_all

theorem pmStep_inv (n : Nat) (hn : 0 < n) (st : Nat × Nat × Nat) :
    (pmStep n st).1 * (pmStep n st).2.1 ^ (pmStep n st).2.2 ≡ st.1 * st.2.1 ^ st.2.2 [MOD n]
      ∧ (pmStep n st).2.2 = st.2.2 / 2 ∧ (st.1 < n → (pmStep n st).1 < n) := by
  obtain ⟨acc, base, e⟩ := st
  refine ⟨?_, rfl, ?_⟩
  · simp only [pmStep]
    have hb : (base * base % n) ^ (e / 2) ≡ (base * base) ^ (e / 2) [MOD n] :=
      (Nat.mod_modEq _ _).pow _
    have he := Nat.div_add_mod e 2
    split
    · next h =>
      have : acc * base ^ e = (acc * base) * (base * base) ^ (e / 2) := by
        conv_lhs => rw [← he, h]
        rw [pow_succ, pow_mul]; ring
      rw [this]
      exact (Nat.mod_modEq _ _).mul hb
    · next h =>
      have h0 : e % 2 = 0 := by omega
      have : acc * base ^ e = acc * (base * base) ^ (e / 2) := by
        conv_lhs => rw [← he, h0]
        rw [Nat.add_zero, pow_mul]; ring
      rw [this]
      exact (Nat.ModEq.refl _).mul hb
  · intro h
    simp only [pmStep]
    split
    · exact Nat.mod_lt _ hn
    · exact h

theorem pmIter_inv (n : Nat) (hn : 0 < n) (k : Nat) (st : Nat × Nat × Nat) :
    ((pmStep n)^[k] st).1 * ((pmStep n)^[k] st).2.1 ^ ((pmStep n)^[k] st).2.2
        ≡ st.1 * st.2.1 ^ st.2.2 [MOD n]
      ∧ ((pmStep n)^[k] st).2.2 = st.2.2 / 2 ^ k ∧ (st.1 < n → ((pmStep n)^[k] st).1 < n) := by
  induction k generalizing st with
  | zero => simp [Nat.ModEq.refl]
  | succ k ih =>
    rw [Function.iterate_succ, Function.comp]
    obtain ⟨h1, h2, h3⟩ := ih (pmStep n st)
    obtain ⟨g1, g2, g3⟩ := pmStep_inv n hn st
    refine ⟨h1.trans g1, ?_, fun h => h3 (g3 h)⟩
    rw [h2, g2, Nat.div_div_eq_div_mul, pow_succ, Nat.mul_comm]

/-- `powModNat` is modular exponentiation. -/
theorem powModNat_spec (b e n : Nat) (hn : 0 < n) : powModNat b e n = b ^ e % n := by
  rw [powModNat_eq_iter]
  obtain ⟨h1, h2, h3⟩ := pmIter_inv n hn (e.log2 + 1) (1 % n, b % n, e)
  have he : e / 2 ^ (e.log2 + 1) = 0 := Nat.div_eq_of_lt Nat.lt_log2_self
  simp only at h2 h3 h1
  rw [h2, he, pow_zero, Nat.mul_one] at h1
  have hlt := h3 (Nat.mod_lt _ hn)
  have : ((pmStep n)^[e.log2 + 1] (1 % n, b % n, e)).1 % n = b ^ e % n := by
    refine h1.trans ?_
    have := ((Nat.mod_modEq 1 n).mul ((Nat.mod_modEq b n).pow e))
    simpa using this
  rwa [Nat.mod_eq_of_lt hlt] at this

theorem powMod_nonneg (b e n : Int) (hn : 0 < n) (he : 0 ≤ e) :
    powMod b e n = some (b ^ e.toNat % n) := by
  unfold powMod
  rw [if_neg (by omega), if_pos (by omega)]
  have hn' : 0 < n.toNat := by omega
  rw [powModNat_spec _ _ _ hn']
  congr 1
  have hbn : 0 ≤ b % n := Int.emod_nonneg _ (by omega)
  simp only [Int.ofNat_eq_natCast]
  push_cast
  rw [Int.toNat_of_nonneg hbn, Int.toNat_of_nonneg hn.le]
  exact (Int.mod_modEq b n).pow e.toNat


/-! ### `invMod` -/

theorem sub_ediv_mul (a b : Int) : a - a / b * b = a % b := by rw [Int.emod_def]; ring

theorem gcd_emod_step (a b : Int) : Int.gcd a b = Int.gcd b (a % b) := by
  have : a % b = a + b * (-(a / b)) := by rw [Int.emod_def]; ring
  rw [this, Int.gcd_add_mul_left_right, Int.gcd_comm]

/-- soundness of the extended-Euclid invariant (no fuel argument needed). -/
theorem xgcdAux_modEq (a n : Int) (fuel : Nat) (r0 r1 s0 s1 : Int)
    (h0 : r0 ≡ a * s0 [ZMOD n]) (h1 : r1 ≡ a * s1 [ZMOD n]) :
    (xgcdAux fuel r0 r1 s0 s1).1 ≡ a * (xgcdAux fuel r0 r1 s0 s1).2 [ZMOD n] := by
  induction fuel generalizing r0 r1 s0 s1 with
  | zero => simpa [xgcdAux] using h0
  | succ k ih =>
    rw [xgcdAux]
    split
    · exact h0
    · apply ih _ _ _ _ h1
      have := h0.sub (h1.mul_left (r0 / r1))
      have e : a * s0 - r0 / r1 * (a * s1) = a * (s0 - r0 / r1 * s1) := by ring
      rwa [e] at this

/-- Euclid with enough fuel computes the gcd: the second remainder halves every two steps. -/
theorem xgcdAux_gcd_fuel (k : Nat) : ∀ (fuel : Nat) (r0 r1 s0 s1 : Int), 0 ≤ r1 → r1 ≤ r0 →
    r1 < 2 ^ k → 2 * k + 1 ≤ fuel → (xgcdAux fuel r0 r1 s0 s1).1 = Int.gcd r0 r1 := by
  induction k with
  | zero =>
    intro fuel r0 r1 s0 s1 h0 h1 hk hf
    obtain ⟨f, rfl⟩ : ∃ f, fuel = f + 1 := ⟨fuel - 1, by omega⟩
    have : r1 = 0 := by omega
    subst this
    simp only [xgcdAux, beq_self_eq_true, if_true, Int.gcd_zero_right,
      Int.natAbs_of_nonneg h1]
  | succ k ih =>
    intro fuel r0 r1 s0 s1 h0 h1 hk hf
    obtain ⟨f, rfl⟩ : ∃ f, fuel = f + 2 := ⟨fuel - 2, by omega⟩
    rw [xgcdAux]
    split
    · next h =>
      have : r1 = 0 := by simpa using h
      subst this
      simp only [Int.gcd_zero_right, Int.natAbs_of_nonneg h1]
    next h =>
    have hr1 : r1 ≠ 0 := by simpa using h
    have hr1p : 0 < r1 := by omega
    simp only [sub_ediv_mul]
    have hm0 : 0 ≤ r0 % r1 := Int.emod_nonneg _ hr1
    have hm1 : r0 % r1 < r1 := Int.emod_lt_of_pos _ hr1p
    have g1 : Int.gcd r0 r1 = Int.gcd r1 (r0 % r1) := gcd_emod_step _ _
    rw [xgcdAux]
    split
    · next h2 =>
      have : r0 % r1 = 0 := by simpa using h2
      rw [g1, this]
      simp only [Int.gcd_zero_right, Int.natAbs_of_nonneg h0]
    next h2 =>
    have hr2 : r0 % r1 ≠ 0 := by simpa using h2
    have hr2p : 0 < r0 % r1 := by omega
    simp only [sub_ediv_mul]
    have hm2 : 0 ≤ r1 % (r0 % r1) := Int.emod_nonneg _ hr2
    have hm3 : r1 % (r0 % r1) < r0 % r1 := Int.emod_lt_of_pos _ hr2p
    have g2 : Int.gcd r1 (r0 % r1) = Int.gcd (r0 % r1) (r1 % (r0 % r1)) := gcd_emod_step _ _
    rw [g1, g2]
    apply ih _ _ _ _ _ hm2 hm3.le _ (by omega)
    -- halving: 2 * (r1 % r2) < r1
    have hq : 1 ≤ r1 / (r0 % r1) := Int.le_ediv_of_mul_le hr2p (by omega)
    have hd := Int.emod_add_mul_ediv r1 (r0 % r1)
    have : 2 * (r1 % (r0 % r1)) < r1 := by nlinarith
    rw [pow_succ] at hk
    omega

theorem xgcd_main (a n : Int) (hn : 0 < n) :
    (xgcdAux (2 * (n.toNat.log2 + 2)) (a % n) n 1 0).1
        ≡ a * (xgcdAux (2 * (n.toNat.log2 + 2)) (a % n) n 1 0).2 [ZMOD n]
      ∧ (xgcdAux (2 * (n.toNat.log2 + 2)) (a % n) n 1 0).1 = Int.gcd a n := by
  constructor
  · apply xgcdAux_modEq
    · rw [mul_one]; exact Int.mod_modEq a n
    · rw [mul_zero]; exact (Int.emod_self (a := n) : n % n = 0 % n)
  · have hm0 : 0 ≤ a % n := Int.emod_nonneg _ (by omega)
    have hm1 : a % n < n := Int.emod_lt_of_pos _ hn
    have hfu : 2 * (n.toNat.log2 + 2) = (2 * (n.toNat.log2 + 1) + 1) + 1 := by ring
    rw [hfu, xgcdAux, if_neg (by simpa using (by omega : n ≠ 0))]
    simp only [sub_ediv_mul, Int.emod_emod_of_dvd _ (dvd_refl n)]
    rw [gcd_emod_step a n]
    apply xgcdAux_gcd_fuel (n.toNat.log2 + 1) _ _ _ _ _ hm0 hm1.le _ le_rfl
    have : n.toNat < 2 ^ (n.toNat.log2 + 1) := Nat.lt_log2_self
    have h2 : (n.toNat : Int) < 2 ^ (n.toNat.log2 + 1) := by exact_mod_cast this
    rw [Int.toNat_of_nonneg hn.le] at h2
    omega

theorem invMod_eq (a n : Int) (hn : 1 < n) :
    invMod a n = if Int.gcd a n = 1
      then some ((xgcdAux (2 * (n.toNat.log2 + 2)) (a % n) n 1 0).2 % n) else none := by
  obtain ⟨-, h2⟩ := xgcd_main a n (by omega)
  unfold invMod
  rw [if_neg (by omega)]
  simp only []
  rcases hx : xgcdAux (2 * (n.toNat.log2 + 2)) (a % n) n 1 0 with ⟨g, x⟩
  rw [hx] at h2
  simp only at h2 ⊢
  subst h2
  by_cases hg : Int.gcd a n = 1
  · simp [hg]
  · have : ¬ ((Int.gcd a n : Int) = 1) := by exact_mod_cast hg
    simp [hg, this]; omega

theorem invMod_some (a n x : Int) (hn : 1 < n) (h : invMod a n = some x) :
    0 ≤ x ∧ x < n ∧ a * x % n = 1 := by
  obtain ⟨h1, h2⟩ := xgcd_main a n (by omega)
  rw [invMod_eq a n hn] at h
  split at h
  · next hg =>
    injection h with h
    subst h
    refine ⟨Int.emod_nonneg _ (by omega), Int.emod_lt_of_pos _ (by omega), ?_⟩
    rw [h2, hg] at h1
    have : a * ((xgcdAux (2 * (n.toNat.log2 + 2)) (a % n) n 1 0).2 % n) ≡ 1 [ZMOD n] :=
      ((Int.ModEq.refl a).mul (Int.mod_modEq _ n)).trans h1.symm
    rw [this.eq]
    exact Int.emod_eq_of_lt (by omega) (by exact_mod_cast hn)
  · cases h

theorem invMod_none (a n : Int) (hn : 1 < n) (h : invMod a n = none) : Int.gcd a n ≠ 1 := by
  rw [invMod_eq a n hn] at h
  split at h
  · cases h
  · assumption

/-- `invert` succeeds exactly on units. -/
theorem invMod_isSome_iff (a n : Int) (hn : 1 < n) : (invMod a n).isSome ↔ Int.gcd a n = 1 := by
  rw [invMod_eq a n hn]; split <;> simp_all

theorem invMod_nonneg (a n x : Int) (hn : 0 < n) (h : invMod a n = some x) : 0 ≤ x ∧ x < n := by
  unfold invMod at h
  rw [if_neg (by omega)] at h
  simp only [] at h
  rcases hx : xgcdAux (2 * (n.toNat.log2 + 2)) (a % n) n 1 0 with ⟨g, y⟩
  rw [hx] at h
  simp only at h
  split at h
  · injection h with h; subst h
    exact ⟨Int.emod_nonneg _ (by omega), Int.emod_lt_of_pos _ hn⟩
  · split at h
    · injection h with h; subst h; omega
    · cases h

theorem powMod_neg (b e n : Int) (hn : 0 < n) (he : e < 0) :
    powMod b e n = (invMod b n).map fun bi => bi ^ (-e).toNat % n := by
  unfold powMod
  rw [if_neg (by omega), if_neg (by omega)]
  cases hi : invMod b n with
  | none => rfl
  | some bi =>
    obtain ⟨h0, -⟩ := invMod_nonneg b n bi hn hi
    have hn' : 0 < n.toNat := by omega
    simp only [Option.map_some, powModNat_spec _ _ _ hn', Int.ofNat_eq_natCast]
    push_cast
    rw [Int.toNat_of_nonneg h0, Int.toNat_of_nonneg hn.le]

/-- every `pow_mod` result lies in `[0, n)`. -/
theorem powMod_range {b e n v : Int} (h : powMod b e n = some v) : 0 ≤ v ∧ v < n := by
  unfold powMod at h
  split at h
  · cases h
  next hn =>
  have hn' : 0 < n.toNat := by omega
  have key : ∀ x y : Nat, 0 ≤ (Int.ofNat (powModNat x y n.toNat)) ∧
      (Int.ofNat (powModNat x y n.toNat)) < n := by
    intro x y
    rw [powModNat_spec _ _ _ hn']
    have := Nat.mod_lt (x ^ y) hn'
    simp only [Int.ofNat_eq_natCast]
    omega
  split at h
  · injection h with h; subst h; exact key _ _
  · split at h
    · cases h
    · injection h with h; subst h; exact key _ _

/-! ### `isqrt` -/

/-- Newton step never goes below the floor root. -/
theorem sqrt_le_newton (n x : Nat) (hx : 0 < x) : Nat.sqrt n ≤ (x + n / x) / 2 := by
  have hs : Nat.sqrt n * Nat.sqrt n ≤ n := Nat.sqrt_le n
  rw [Nat.le_div_iff_mul_le (by norm_num)]
  by_cases h : Nat.sqrt n * 2 ≤ x
  · exact le_trans h (Nat.le_add_right _ _)
  · have h1 : Nat.sqrt n * 2 - x ≤ n / x := by
      rw [Nat.le_div_iff_mul_le hx]
      refine le_trans ?_ hs
      obtain ⟨d, hd⟩ : ∃ d, Nat.sqrt n * 2 = x + d := ⟨Nat.sqrt n * 2 - x, by omega⟩
      rw [hd, Nat.add_sub_cancel_left]
      zify at hd ⊢
      nlinarith [sq_nonneg ((x : Int) - d)]
    omega

/-- above the root the Newton step lands at or below the midpoint of `x` and the root. -/
theorem newton_le_mid (n x : Nat) (hx : Nat.sqrt n < x) : (x + n / x) / 2 ≤ (x + Nat.sqrt n) / 2 := by
  have h1 : n / x ≤ Nat.sqrt n := by
    rw [← Nat.lt_succ_iff, Nat.div_lt_iff_lt_mul (by omega)]
    calc n < (Nat.sqrt n + 1) * (Nat.sqrt n + 1) := Nat.lt_succ_sqrt n
      _ ≤ (Nat.sqrt n + 1) * x := Nat.mul_le_mul_left _ hx
  omega

theorem isqrtAux_eq (n : Nat) : ∀ (fuel x : Nat), Nat.sqrt n ≤ x →
    x - Nat.sqrt n < 2 ^ fuel → isqrtAux fuel n x = Nat.sqrt n := by
  intro fuel
  induction fuel with
  | zero => intro x h1 h2; simp only [isqrtAux]; omega
  | succ k ih =>
    intro x h1 h2
    rw [isqrtAux]
    rcases Nat.eq_or_lt_of_le h1 with h | h
    · rw [if_pos]
      · exact h.symm
      · rcases Nat.eq_zero_or_pos x with h0 | h0
        · simp [h0]
        · have := sqrt_le_newton n x h0; omega
    · have hlo := sqrt_le_newton n x (by omega)
      have hmid := newton_le_mid n x h
      rw [if_neg (by omega)]
      apply ih _ hlo
      rw [pow_succ] at h2
      omega

/-- the model's integer square root is the floor square root. -/
theorem isqrt_eq_sqrt (n : Nat) : isqrt n = Nat.sqrt n := by
  unfold isqrt
  split
  · next h =>
    have : n = 0 ∨ n = 1 := by omega
    rcases this with rfl | rfl <;> simp
  · next h =>
    simp only []
    have hlt : n < 2 ^ (n.log2 + 1) := Nat.lt_log2_self
    have hle : 2 ^ (n.log2 + 1) ≤ 2 ^ (n.log2 / 2 + 1) * 2 ^ (n.log2 / 2 + 1) := by
      rw [← pow_add]; exact Nat.pow_le_pow_right (by norm_num) (by omega)
    have h1 : Nat.sqrt n < 2 ^ (n.log2 / 2 + 1) := Nat.sqrt_lt.2 (lt_of_lt_of_le hlt hle)
    apply isqrtAux_eq n _ _ h1.le
    calc 2 ^ (n.log2 / 2 + 1) - Nat.sqrt n ≤ 2 ^ (n.log2 / 2 + 1) := Nat.sub_le _ _
      _ < 2 ^ (n.log2 + 8) := Nat.pow_lt_pow_right (by norm_num) (by omega)

theorem isqrt_spec (n : Nat) : isqrt n ^ 2 ≤ n ∧ n < (isqrt n + 1) ^ 2 := by
  rw [isqrt_eq_sqrt]; exact ⟨Nat.sqrt_le' n, Nat.lt_succ_sqrt' n⟩

/-! ### the specification -/

/-- The L0 integer primitives meet their specification. -/
theorem _root_.Zk.Cl.arithOK : ArithOK where
  powMod_nonneg := powMod_nonneg
  powMod_neg := powMod_neg
  invMod_some := invMod_some
  invMod_none := invMod_none
  isqrt_spec := isqrt_spec

/-! ### `bitLen`, `tmod` -/

theorem bitLen_pos {v : Int} (hv : 0 < v) : bitLen v = v.toNat.log2 + 1 := by
  unfold bitLen
  rw [if_neg (by simpa using (by omega : v ≠ 0))]
  congr 2
  omega

/-- `significant_bits`: `v` has exactly `k` bits iff `2^(k-1) ≤ v < 2^k`. -/
theorem _root_.Zk.Cl.bitLen_spec {v : Int} {k : Nat} (hv : 0 < v) (hk : 1 ≤ k) :
    bitLen v = k ↔ (2 : Int) ^ (k - 1) ≤ v ∧ v < 2 ^ k := by
  rw [bitLen_pos hv]
  obtain ⟨j, rfl⟩ : ∃ j, k = j + 1 := ⟨k - 1, by omega⟩
  have hne : v.toNat ≠ 0 := by omega
  rw [Nat.add_right_cancel_iff, Nat.log2_eq_iff hne, Nat.add_sub_cancel]
  have hc : (v.toNat : Int) = v := Int.toNat_of_nonneg hv.le
  constructor
  · rintro ⟨h1, h2⟩
    rw [← hc]
    exact ⟨by exact_mod_cast h1, by exact_mod_cast h2⟩
  · rintro ⟨h1, h2⟩
    rw [← hc] at h1 h2
    exact ⟨by exact_mod_cast h1, by exact_mod_cast h2⟩

theorem bitLen_zero : bitLen 0 = 0 := rfl

/-- a value with `bitLen v = k` and `0 ≤ v` is below `2^k` (also for `k = 0`). -/
theorem lt_two_pow_of_bitLen {v : Int} {k : Nat} (hv : 0 ≤ v) (h : bitLen v = k) : v < 2 ^ k := by
  rcases hv.eq_or_lt with rfl | hv
  · positivity
  · have hk : 1 ≤ k := by rw [← h, bitLen_pos hv]; omega
    exact ((bitLen_spec hv hk).1 h).2

theorem _root_.Zk.Cl.tmod_eq_emod_of_nonneg {a n : Int} (ha : 0 ≤ a) (_hn : 0 < n) : tmod a n = a % n :=
  Int.tmod_eq_emod_of_nonneg ha

end Zk.Cl.ArithSpec
