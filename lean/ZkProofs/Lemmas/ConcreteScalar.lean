/-
The concrete scalar operations (`Zk.Fr`, `ZkModel/Concrete.lean` over `ZkModel/L0/Fp.lean`) are
the field `ZMod R`.

`toZ : Fr → ZMod R` sends a scalar to the class of its representative. It commutes with
`0, 1, +, -, *` for ALL representatives (reduced or not), is injective on reduced scalars
(`s.v < R`), every operation returns a reduced scalar, and — using `Zk.R_prime` and Fermat's
little theorem — the environment's `sInv` is field inversion:
`Concrete.env.sInv s = some t → toZ t = (toZ s)⁻¹`, and, on reduced scalars,
`Concrete.env.sInv s = none ↔ toZ s = 0`.
These are the `sInv_zero` / `sInv_ne` laws of `Lawful`, read through `toZ`; the codec law
`Lawful.sCodec` for the concrete scalar codec is `Zk.C09.scalar_codec_canonical`.

Last section: the reduced scalars `FrR = {s : Fr // s.v < R}` (the carrier of
`scalar_codec_canonical`) get the field structure of `ZMod R` (`fieldFrR`, scoped); its
operations ARE the model's (`coe_add`, `coe_mul`, `coe_sub`, `coe_neg`, `coe_zero`, `coe_one`)
and `sInvR` (the environment's `sInv`) satisfies `Lawful.sInv_zero` / `Lawful.sInv_ne`
literally (`sInvR_zero`, `sInvR_ne`).
-/
import ZkProofs.Lemmas.Primes
import ZkProofs.Lemmas.IntArithSpec
import ZkModel.Concrete
import Mathlib.Data.ZMod.Basic
import Mathlib.FieldTheory.Finite.Basic
import Mathlib.Algebra.Field.TransferInstance
import ZkProofs.Lemmas.Codecs
namespace Zk.ConcreteScalar
open Zk Zk.Codecs.ScalarCodec

instance factRPrime : Fact (Nat.Prime R) := ⟨R_prime⟩
instance factPPrime : Fact (Nat.Prime P) := ⟨P_prime⟩

theorem R_pos : 0 < R := R_prime.pos

/-! ### `powMod` is modular exponentiation -/

/-- The L0 `powMod` (Fp.lean) and the CL03 `powModNat` (IntArith.lean) are the same program. -/
theorem powMod_eq_powModNat (b e m : Nat) : powMod b e m = IA.powModNat b e m := rfl

theorem powMod_spec (b e m : Nat) (hm : 0 < m) : powMod b e m = b ^ e % m := by
  rw [powMod_eq_powModNat, Zk.Cl.ArithSpec.powModNat_spec b e m hm]

theorem Fr_inv_spec (a : Nat) : Fr.inv a = a ^ (R - 2) % R := powMod_spec _ _ _ R_pos

theorem Fp_inv_spec (a : Nat) : Fp.inv a = a ^ (P - 2) % P := powMod_spec _ _ _ P_prime.pos

theorem Fp_pow_spec (a e : Nat) : Fp.pow a e = a ^ e % P := powMod_spec _ _ _ P_prime.pos

/-! ### the map to `ZMod R` -/

/-- The class of the representative. -/
def toZ (s : Fr) : ZMod R := (s.v : ZMod R)

/-- The representative is reduced. Every scalar produced by decoding (`Concrete.sDec`), by
`okm` or by a field operation is reduced. -/
def Reduced (s : Fr) : Prop := s.v < R

@[simp] theorem toZ_zero : toZ 0 = 0 := by show ((0 : Nat) : ZMod R) = 0; simp
@[simp] theorem toZ_one : toZ 1 = 1 := by show ((1 : Nat) : ZMod R) = 1; simp

theorem toZ_add (a b : Fr) : toZ (a + b) = toZ a + toZ b := by
  show (((a.v + b.v) % R : Nat) : ZMod R) = (a.v : ZMod R) + (b.v : ZMod R)
  rw [ZMod.natCast_mod, Nat.cast_add]

theorem toZ_mul (a b : Fr) : toZ (a * b) = toZ a * toZ b := by
  show (((a.v * b.v) % R : Nat) : ZMod R) = (a.v : ZMod R) * (b.v : ZMod R)
  rw [ZMod.natCast_mod, Nat.cast_mul]

theorem toZ_sub (a b : Fr) : toZ (a - b) = toZ a - toZ b := by
  show (((a.v + R - b.v % R) % R : Nat) : ZMod R) = (a.v : ZMod R) - (b.v : ZMod R)
  have hlt : b.v % R < R := Nat.mod_lt _ R_pos
  rw [ZMod.natCast_mod, Nat.cast_sub (by omega), Nat.cast_add, ZMod.natCast_self, add_zero,
    ZMod.natCast_mod]

theorem toZ_neg (a : Fr) : toZ (-a) = - toZ a := by
  show (((R - a.v % R) % R : Nat) : ZMod R) = - (a.v : ZMod R)
  have hlt : a.v % R < R := Nat.mod_lt _ R_pos
  rw [ZMod.natCast_mod, Nat.cast_sub hlt.le, ZMod.natCast_self, zero_sub, ZMod.natCast_mod]

/-- `toZ` is injective on reduced scalars. -/
theorem toZ_injective {a b : Fr} (ha : Reduced a) (hb : Reduced b) (h : toZ a = toZ b) : a = b := by
  have h' := (ZMod.natCast_eq_natCast_iff' a.v b.v R).mp h
  rw [Nat.mod_eq_of_lt ha, Nat.mod_eq_of_lt hb] at h'
  cases a; cases b; simp only at h'; rw [h']

theorem toZ_eq_iff {a b : Fr} (ha : Reduced a) (hb : Reduced b) : toZ a = toZ b ↔ a = b :=
  ⟨toZ_injective ha hb, fun h => h ▸ rfl⟩

theorem toZ_eq_zero_iff {a : Fr} (ha : Reduced a) : toZ a = 0 ↔ a.v = 0 := by
  unfold toZ
  rw [ZMod.natCast_eq_zero_iff]
  constructor
  · intro h; exact Nat.eq_zero_of_dvd_of_lt h ha
  · intro h; rw [h]; exact dvd_zero _

/-- Without reducedness: the class is `0` iff `R` divides the representative. -/
theorem toZ_eq_zero_iff_dvd (a : Fr) : toZ a = 0 ↔ R ∣ a.v := ZMod.natCast_eq_zero_iff _ _

/-- Every element of `ZMod R` is the image of a (unique) reduced scalar. -/
theorem toZ_surjective (z : ZMod R) : ∃ s : Fr, Reduced s ∧ toZ s = z := by
  have : NeZero R := ⟨R_pos.ne'⟩
  exact ⟨⟨z.val⟩, ZMod.val_lt z, by simp [toZ]⟩

/-! ### closure: the operations return reduced scalars -/

theorem reduced_zero : Reduced (0 : Fr) := R_pos
theorem reduced_one : Reduced (1 : Fr) := R_prime.one_lt
theorem reduced_add (a b : Fr) : Reduced (a + b) := Nat.mod_lt _ R_pos
theorem reduced_sub (a b : Fr) : Reduced (a - b) := Nat.mod_lt _ R_pos
theorem reduced_neg (a : Fr) : Reduced (-a) := Nat.mod_lt _ R_pos
theorem reduced_mul (a b : Fr) : Reduced (a * b) := Nat.mod_lt _ R_pos
theorem reduced_okm (b : Bytes) : Reduced (Concrete.env.okm b) := Nat.mod_lt _ R_pos

theorem reduced_sDec (b : Bytes) (s : Fr) (h : Concrete.env.sDec b = some s) : Reduced s := by
  have h' : Concrete.sDec b = some s := h
  unfold Concrete.sDec at h'
  split at h'
  · cases h'
  · dsimp only at h'
    split at h'
    · rename_i hlt; cases h'; exact hlt
    · cases h'

theorem reduced_sInv (s t : Fr) (h : Concrete.env.sInv s = some t) : Reduced t := by
  have h' : (if s.v = 0 then none else some (⟨Fr.inv s.v⟩ : Fr)) = some t := h
  split at h'
  · cases h'
  · cases h'
    show Fr.inv s.v < R
    rw [Fr_inv_spec]; exact Nat.mod_lt _ R_pos

/-! ### inversion -/

/-- `Fr.inv` is Fermat inversion: the class of `a^(R-2) mod R` is the field inverse. -/
theorem toZ_Fr_inv (a : Nat) : ((Fr.inv a : Nat) : ZMod R) = ((a : Nat) : ZMod R)⁻¹ := by
  rw [Fr_inv_spec, ZMod.natCast_mod, Nat.cast_pow]
  by_cases ha : (a : ZMod R) = 0
  · rw [ha, inv_zero, zero_pow]
    have hR : 2 < R := by decide
    omega
  · have hf := ZMod.pow_card_sub_one_eq_one ha
    have hR : 2 < R := by decide
    have h2 : R - 1 = (R - 2) + 1 := by omega
    rw [h2, pow_succ] at hf
    exact eq_inv_of_mul_eq_one_left hf

/-- **`sInv` computes the field inverse** (whenever it answers). -/
theorem sInv_some (s t : Fr) (h : Concrete.env.sInv s = some t) : toZ t = (toZ s)⁻¹ := by
  have h' : (if s.v = 0 then none else some (⟨Fr.inv s.v⟩ : Fr)) = some t := h
  split at h'
  · cases h'
  · cases h'; exact toZ_Fr_inv s.v

/-- `sInv` refuses exactly the representative `0`. -/
theorem sInv_eq_none_iff (s : Fr) : Concrete.env.sInv s = none ↔ s.v = 0 := by
  show (if s.v = 0 then none else some (⟨Fr.inv s.v⟩ : Fr)) = none ↔ s.v = 0
  split <;> simp_all

/-- **`sInv s = none ↔ s = 0` in the field**, for reduced scalars. -/
theorem sInv_none_iff {s : Fr} (hs : Reduced s) : Concrete.env.sInv s = none ↔ toZ s = 0 := by
  rw [sInv_eq_none_iff, toZ_eq_zero_iff hs]

/-- `Lawful.sInv_zero` for the concrete environment. -/
theorem sInv_zero : Concrete.env.sInv 0 = none := rfl

/-- `Lawful.sInv_ne` for the concrete environment, on reduced scalars: a non-zero scalar has an
inverse, it is reduced, and it is the field inverse. -/
theorem sInv_ne {s : Fr} (hs : Reduced s) (hne : s ≠ 0) :
    ∃ t, Concrete.env.sInv s = some t ∧ Reduced t ∧ toZ t = (toZ s)⁻¹ ∧ s * t = 1 := by
  have hv : s.v ≠ 0 := by
    intro h; apply hne; cases s; simp only at h; subst h; rfl
  have hsome : Concrete.env.sInv s = some ⟨Fr.inv s.v⟩ := by
    show (if s.v = 0 then none else some (⟨Fr.inv s.v⟩ : Fr)) = _
    rw [if_neg hv]
  have hr := reduced_sInv s _ hsome
  have hz := sInv_some s _ hsome
  refine ⟨_, hsome, hr, hz, ?_⟩
  apply toZ_injective (reduced_mul _ _) reduced_one
  rw [toZ_mul, hz, toZ_one]
  have : toZ s ≠ 0 := fun h => hv ((toZ_eq_zero_iff hs).mp h)
  exact mul_inv_cancel₀ this

/-- The unreduced caveat, made explicit: `sInv` answers on the non-reduced representative `R`
of zero (it returns the representative `0`, which is then *not* an inverse). Reduced scalars
are the only ones the model ever produces (`reduced_*`). -/
theorem sInv_unreduced_zero : Concrete.env.sInv ⟨R⟩ ≠ none ∧ toZ ⟨R⟩ = 0 := by
  refine ⟨?_, by simp [toZ]⟩
  rw [Ne, sInv_eq_none_iff]
  decide


/-! ### the reduced scalars form the field `ZMod R`, with the model's operations -/

/-- Reduced scalars correspond bijectively to `ZMod R`. -/
def equivZ : FrR ≃ ZMod R where
  toFun s := toZ s.1
  invFun z := ⟨⟨z.val⟩, by have : NeZero R := ⟨R_pos.ne'⟩; exact ZMod.val_lt z⟩
  left_inv s := by
    obtain ⟨⟨v⟩, hv⟩ := s
    apply Subtype.ext
    show (⟨((v : Nat) : ZMod R).val⟩ : Fr) = ⟨v⟩
    rw [ZMod.val_natCast, Nat.mod_eq_of_lt hv]
  right_inv z := by
    have : NeZero R := ⟨R_pos.ne'⟩
    show ((z.val : Nat) : ZMod R) = z
    exact ZMod.natCast_zmod_val z

/-- The field structure on reduced scalars (transported from `ZMod R`; scoped to this
namespace). Its operations are the model's: `coe_add`, `coe_mul`, `coe_sub`, `coe_neg`,
`coe_zero`, `coe_one`, and its inverse is the environment's `sInv`: `sInvR_zero`, `sInvR_ne`. -/
scoped instance fieldFrR : Field FrR := equivZ.field

theorem equivZ_add (a b : FrR) : equivZ (a + b) = equivZ a + equivZ b := equivZ.apply_symm_apply _
theorem equivZ_mul (a b : FrR) : equivZ (a * b) = equivZ a * equivZ b := equivZ.apply_symm_apply _
theorem equivZ_sub (a b : FrR) : equivZ (a - b) = equivZ a - equivZ b := equivZ.apply_symm_apply _
theorem equivZ_neg (a : FrR) : equivZ (-a) = - equivZ a := equivZ.apply_symm_apply _
theorem equivZ_inv (a : FrR) : equivZ a⁻¹ = (equivZ a)⁻¹ := equivZ.apply_symm_apply _
theorem equivZ_zero : equivZ 0 = 0 := equivZ.apply_symm_apply _
theorem equivZ_one : equivZ 1 = 1 := equivZ.apply_symm_apply _

theorem coe_eq_of_toZ {a : FrR} {b : Fr} (hb : Reduced b) (h : equivZ a = toZ b) : a.1 = b :=
  toZ_injective a.2 hb h

/-- The field operations on reduced scalars are the model's operations on `Fr`. -/
theorem coe_add (a b : FrR) : (a + b).1 = a.1 + b.1 :=
  coe_eq_of_toZ (reduced_add _ _) (by rw [equivZ_add, toZ_add]; rfl)
theorem coe_mul (a b : FrR) : (a * b).1 = a.1 * b.1 :=
  coe_eq_of_toZ (reduced_mul _ _) (by rw [equivZ_mul, toZ_mul]; rfl)
theorem coe_sub (a b : FrR) : (a - b).1 = a.1 - b.1 :=
  coe_eq_of_toZ (reduced_sub _ _) (by rw [equivZ_sub, toZ_sub]; rfl)
theorem coe_neg (a : FrR) : (-a).1 = - a.1 :=
  coe_eq_of_toZ (reduced_neg _) (by rw [equivZ_neg, toZ_neg]; rfl)
theorem coe_zero : (0 : FrR).1 = 0 :=
  coe_eq_of_toZ reduced_zero (by rw [equivZ_zero, toZ_zero])
theorem coe_one : (1 : FrR).1 = 1 :=
  coe_eq_of_toZ reduced_one (by rw [equivZ_one, toZ_one])

/-- The environment's `sInv` on reduced scalars. -/
def sInvR (s : FrR) : Option FrR :=
  match h : Concrete.env.sInv s.1 with
  | none => none
  | some t => some ⟨t, reduced_sInv s.1 t h⟩

theorem sInvR_val (s : FrR) : (sInvR s).map Subtype.val = Concrete.env.sInv s.1 := by
  unfold sInvR
  split <;> simp_all

/-- `Lawful.sInv_zero`, literally, for the concrete `sInv` on the field of reduced scalars. -/
theorem sInvR_zero : sInvR 0 = none := by
  have h := sInvR_val 0
  rw [coe_zero, sInv_zero] at h
  cases h' : sInvR 0 with
  | none => rfl
  | some t => rw [h'] at h; cases h

/-- `Lawful.sInv_ne`, literally, for the concrete `sInv` on the field of reduced scalars. -/
theorem sInvR_ne (s : FrR) (hs : s ≠ 0) : sInvR s = some s⁻¹ := by
  have hne : s.1 ≠ 0 := fun h => hs (Subtype.ext (by rw [h, coe_zero]))
  obtain ⟨t, ht, hr, hz, -⟩ := sInv_ne s.2 hne
  have h := sInvR_val s
  rw [ht] at h
  cases h' : sInvR s with
  | none => rw [h'] at h; cases h
  | some u =>
    rw [h'] at h
    have hu : u.1 = t := by simpa using h
    congr 1
    apply equivZ.injective
    rw [equivZ_inv]
    show toZ u.1 = (toZ s.1)⁻¹
    rw [hu, hz]

end Zk.ConcreteScalar
