/-
Naturality ("transfer") of the BBS model: every function of `ZkModel/L1/Bbs.lean` commutes with a
homomorphism `(fS, f1, f2)` between two instances `(S, G1, G2, env)` and `(S', G1', G2', env')` of
the model's signature.  Nothing here is about elliptic curves; only core type classes are used.

Part 1: the structure `Hom`, the `map` functions on the model's records, generic helpers, and the
functions of `Bbs.lean` from `hashToScalar` to `updateSignature` (util, message, generators, keys,
signature).  Part 2 (`Naturality2.lean`) covers proof / commitment / blind.
-/
import Mathlib.Logic.Function.Basic
import ZkModel.L1.Bbs
set_option linter.unusedSectionVars false
set_option linter.unusedVariables false

namespace Zk

/-! ### `map` on the model's records -/

/-- Functorial action of `Res`. -/
def Res.map {α β} (f : α → β) : Res α → Res β
  | .ok a => .ok (f a)
  | .err => .err
  | .panic => .panic

@[simp] theorem Res.map_ok {α β} (f : α → β) (a : α) : (Res.ok a).map f = .ok (f a) := rfl
@[simp] theorem Res.map_err {α β} (f : α → β) : (Res.err : Res α).map f = .err := rfl
@[simp] theorem Res.map_panic {α β} (f : α → β) : (Res.panic : Res α).map f = .panic := rfl
@[simp] theorem Res.map_id' {α} (x : Res α) : x.map (fun a => a) = x := by cases x <;> rfl
@[simp] theorem Res.map_id {α} (x : Res α) : x.map id = x := by cases x <;> rfl

theorem Res.map_eq_ok_iff {α β} (f : α → β) (x : Res α) (b : β) :
    x.map f = .ok b ↔ ∃ a, x = .ok a ∧ f a = b := by
  cases x <;> simp [Res.map]
@[simp] theorem Res.map_eq_err_iff {α β} (f : α → β) (x : Res α) : x.map f = .err ↔ x = .err := by
  cases x <;> simp [Res.map]
@[simp] theorem Res.map_eq_panic_iff {α β} (f : α → β) (x : Res α) :
    x.map f = .panic ↔ x = .panic := by
  cases x <;> simp [Res.map]

theorem Res.map_injective {α β} {f : α → β} (hf : Function.Injective f) :
    Function.Injective (Res.map f) := by
  intro x y h
  cases x <;> cases y <;> simp_all [Res.map]
  exact hf h

def Suite.map {G1 G1'} (f1 : G1 → G1') (cs : Suite G1) : Suite G1' :=
  { xof := cs.xof, apiId := cs.apiId, apiIdBlind := cs.apiIdBlind, keygenDst := cs.keygenDst,
    generatorSeed := cs.generatorSeed, generatorSeedDst := cs.generatorSeedDst,
    generatorDst := cs.generatorDst, mapMsgScalar := cs.mapMsgScalar, h2s := cs.h2s,
    expandLen := cs.expandLen, ikmLen := cs.ikmLen, p1 := f1 cs.p1 }

def Generators.map {G1 G1'} (f1 : G1 → G1') (g : Generators G1) : Generators G1' :=
  ⟨f1 g.base, g.values.map f1⟩

def Signature.map {S G1 S' G1'} (fS : S → S') (f1 : G1 → G1') (σ : Signature S G1) :
    Signature S' G1' := ⟨f1 σ.A, fS σ.e⟩

def PoKSignature.map {S G1 S' G1'} (fS : S → S') (f1 : G1 → G1') (π : PoKSignature S G1) :
    PoKSignature S' G1' :=
  ⟨f1 π.Abar, f1 π.Bbar, f1 π.D, fS π.eCap, fS π.r1Cap, fS π.r3Cap, π.mCap.map fS, fS π.challenge⟩

def ZKPoK.map {S S'} (fS : S → S') (z : ZKPoK S) : ZKPoK S' :=
  ⟨fS z.sCap, z.mCap.map fS, fS z.challenge⟩

def Commitment.map {S G1 S' G1'} (fS : S → S') (f1 : G1 → G1') (c : Commitment S G1) :
    Commitment S' G1' := ⟨f1 c.commitment, c.proof.map fS⟩

def ProofInitResult.map {S G1 S' G1'} (fS : S → S') (f1 : G1 → G1') (r : ProofInitResult S G1) :
    ProofInitResult S' G1' := ⟨f1 r.Abar, f1 r.Bbar, f1 r.D, f1 r.T1, f1 r.T2, fS r.domain⟩

section simp_lemmas
variable {S G1 S' G1' : Type} (fS : S → S') (f1 : G1 → G1')

@[simp] theorem Suite.map_xof (cs : Suite G1) : (cs.map f1).xof = cs.xof := rfl
@[simp] theorem Suite.map_apiId (cs : Suite G1) : (cs.map f1).apiId = cs.apiId := rfl
@[simp] theorem Suite.map_apiIdBlind (cs : Suite G1) : (cs.map f1).apiIdBlind = cs.apiIdBlind := rfl
@[simp] theorem Suite.map_keygenDst (cs : Suite G1) : (cs.map f1).keygenDst = cs.keygenDst := rfl
@[simp] theorem Suite.map_generatorSeed (cs : Suite G1) :
    (cs.map f1).generatorSeed = cs.generatorSeed := rfl
@[simp] theorem Suite.map_generatorSeedDst (cs : Suite G1) :
    (cs.map f1).generatorSeedDst = cs.generatorSeedDst := rfl
@[simp] theorem Suite.map_generatorDst (cs : Suite G1) :
    (cs.map f1).generatorDst = cs.generatorDst := rfl
@[simp] theorem Suite.map_mapMsgScalar (cs : Suite G1) :
    (cs.map f1).mapMsgScalar = cs.mapMsgScalar := rfl
@[simp] theorem Suite.map_h2s (cs : Suite G1) : (cs.map f1).h2s = cs.h2s := rfl
@[simp] theorem Suite.map_expandLen (cs : Suite G1) : (cs.map f1).expandLen = cs.expandLen := rfl
@[simp] theorem Suite.map_ikmLen (cs : Suite G1) : (cs.map f1).ikmLen = cs.ikmLen := rfl
@[simp] theorem Suite.map_p1 (cs : Suite G1) : (cs.map f1).p1 = f1 cs.p1 := rfl
@[simp] theorem Suite.map_id (cs : Suite G1) : cs.map id = cs := rfl

@[simp] theorem Generators.map_base (g : Generators G1) : (g.map f1).base = f1 g.base := rfl
@[simp] theorem Generators.map_values (g : Generators G1) :
    (g.map f1).values = g.values.map f1 := rfl
@[simp] theorem Generators.map_mk (b : G1) (v : List G1) :
    Generators.map f1 ⟨b, v⟩ = ⟨f1 b, v.map f1⟩ := rfl

@[simp] theorem Signature.map_A (σ : Signature S G1) : (σ.map fS f1).A = f1 σ.A := rfl
@[simp] theorem Signature.map_e (σ : Signature S G1) : (σ.map fS f1).e = fS σ.e := rfl
@[simp] theorem Signature.map_mk (A : G1) (e : S) :
    Signature.map fS f1 ⟨A, e⟩ = ⟨f1 A, fS e⟩ := rfl

@[simp] theorem PoKSignature.map_Abar (π : PoKSignature S G1) : (π.map fS f1).Abar = f1 π.Abar := rfl
@[simp] theorem PoKSignature.map_Bbar (π : PoKSignature S G1) : (π.map fS f1).Bbar = f1 π.Bbar := rfl
@[simp] theorem PoKSignature.map_D (π : PoKSignature S G1) : (π.map fS f1).D = f1 π.D := rfl
@[simp] theorem PoKSignature.map_eCap (π : PoKSignature S G1) : (π.map fS f1).eCap = fS π.eCap := rfl
@[simp] theorem PoKSignature.map_r1Cap (π : PoKSignature S G1) :
    (π.map fS f1).r1Cap = fS π.r1Cap := rfl
@[simp] theorem PoKSignature.map_r3Cap (π : PoKSignature S G1) :
    (π.map fS f1).r3Cap = fS π.r3Cap := rfl
@[simp] theorem PoKSignature.map_mCap (π : PoKSignature S G1) :
    (π.map fS f1).mCap = π.mCap.map fS := rfl
@[simp] theorem PoKSignature.map_challenge (π : PoKSignature S G1) :
    (π.map fS f1).challenge = fS π.challenge := rfl
@[simp] theorem PoKSignature.map_mk (a b d : G1) (e r1 r3 : S) (m : List S) (c : S) :
    PoKSignature.map fS f1 ⟨a, b, d, e, r1, r3, m, c⟩
      = ⟨f1 a, f1 b, f1 d, fS e, fS r1, fS r3, m.map fS, fS c⟩ := rfl

@[simp] theorem ZKPoK.map_sCap (z : ZKPoK S) : (z.map fS).sCap = fS z.sCap := rfl
@[simp] theorem ZKPoK.map_mCap (z : ZKPoK S) : (z.map fS).mCap = z.mCap.map fS := rfl
@[simp] theorem ZKPoK.map_challenge (z : ZKPoK S) : (z.map fS).challenge = fS z.challenge := rfl
@[simp] theorem ZKPoK.map_mk (s : S) (m : List S) (c : S) :
    ZKPoK.map fS ⟨s, m, c⟩ = ⟨fS s, m.map fS, fS c⟩ := rfl

@[simp] theorem Commitment.map_commitment (c : Commitment S G1) :
    (c.map fS f1).commitment = f1 c.commitment := rfl
@[simp] theorem Commitment.map_proof (c : Commitment S G1) :
    (c.map fS f1).proof = c.proof.map fS := rfl
@[simp] theorem Commitment.map_mk (C : G1) (z : ZKPoK S) :
    Commitment.map fS f1 ⟨C, z⟩ = ⟨f1 C, z.map fS⟩ := rfl

@[simp] theorem ProofInitResult.map_Abar (r : ProofInitResult S G1) :
    (r.map fS f1).Abar = f1 r.Abar := rfl
@[simp] theorem ProofInitResult.map_Bbar (r : ProofInitResult S G1) :
    (r.map fS f1).Bbar = f1 r.Bbar := rfl
@[simp] theorem ProofInitResult.map_D (r : ProofInitResult S G1) : (r.map fS f1).D = f1 r.D := rfl
@[simp] theorem ProofInitResult.map_T1 (r : ProofInitResult S G1) : (r.map fS f1).T1 = f1 r.T1 := rfl
@[simp] theorem ProofInitResult.map_T2 (r : ProofInitResult S G1) : (r.map fS f1).T2 = f1 r.T2 := rfl
@[simp] theorem ProofInitResult.map_domain (r : ProofInitResult S G1) :
    (r.map fS f1).domain = fS r.domain := rfl
@[simp] theorem ProofInitResult.map_mk (a b d t1 t2 : G1) (dom : S) :
    ProofInitResult.map fS f1 ⟨a, b, d, t1, t2, dom⟩ = ⟨f1 a, f1 b, f1 d, f1 t1, f1 t2, fS dom⟩ := rfl

@[simp] theorem Generators.map_id (g : Generators G1) : g.map id = g := by
  cases g; simp [Generators.map]
@[simp] theorem Signature.map_id (σ : Signature S G1) : σ.map id id = σ := rfl
@[simp] theorem ZKPoK.map_id (z : ZKPoK S) : z.map id = z := by cases z; simp [ZKPoK.map]
@[simp] theorem PoKSignature.map_id (π : PoKSignature S G1) : π.map id id = π := by
  cases π; simp [PoKSignature.map]
@[simp] theorem Commitment.map_id (c : Commitment S G1) : c.map id id = c := by
  cases c; simp [Commitment.map]
@[simp] theorem ProofInitResult.map_id (r : ProofInitResult S G1) : r.map id id = r := rfl

theorem Signature.map_injective (hS : Function.Injective fS) (h1 : Function.Injective f1) :
    Function.Injective (Signature.map fS f1) := by
  rintro ⟨A, e⟩ ⟨A', e'⟩ h
  simp only [Signature.map_mk, Signature.mk.injEq] at h
  rw [h1 h.1, hS h.2]

theorem ZKPoK.map_injective (hS : Function.Injective fS) :
    Function.Injective (ZKPoK.map fS) := by
  rintro ⟨a, m, c⟩ ⟨a', m', c'⟩ h
  simp only [ZKPoK.map_mk, ZKPoK.mk.injEq] at h
  rw [hS h.1, (List.map_inj_right (fun _ _ h => hS h)).mp h.2.1, hS h.2.2]

theorem PoKSignature.map_injective (hS : Function.Injective fS) (h1 : Function.Injective f1) :
    Function.Injective (PoKSignature.map fS f1) := by
  rintro ⟨a, b, d, e, r1, r3, m, c⟩ ⟨a', b', d', e', r1', r3', m', c'⟩ h
  simp only [PoKSignature.map_mk, PoKSignature.mk.injEq] at h
  obtain ⟨ha, hb, hd, he, hr1, hr3, hm, hc⟩ := h
  rw [h1 ha, h1 hb, h1 hd, hS he, hS hr1, hS hr3, (List.map_inj_right (fun _ _ h => hS h)).mp hm, hS hc]

theorem Commitment.map_injective (hS : Function.Injective fS) (h1 : Function.Injective f1) :
    Function.Injective (Commitment.map fS f1) := by
  rintro ⟨C, z⟩ ⟨C', z'⟩ h
  simp only [Commitment.map_mk, Commitment.mk.injEq] at h
  rw [h1 h.1, ZKPoK.map_injective fS hS h.2]

end simp_lemmas

namespace Transfer

/-! ### generic helpers -/

theorem mapRes_nat {α β β'} (φ : β → β') (g : α → Res β) (g' : α → Res β')
    (l : List α) (h : ∀ a ∈ l, g' a = (g a).map φ) :
    mapRes g' l = (mapRes g l).map (List.map φ) := by
  induction l with
  | nil => rfl
  | cons a as ih =>
    have ih := ih (fun a ha => h a (List.mem_cons_of_mem _ ha))
    simp only [mapRes, h a List.mem_cons_self, ih]
    cases g a <;> simp only [Res.map]
    cases mapRes g as <;> simp

/-- `mapRes` over a mapped input list. -/
theorem mapRes_map_nat {α α' β β'} (ψ : α → α') (φ : β → β') (g : α → Res β) (g' : α' → Res β')
    (l : List α) (h : ∀ a ∈ l, g' (ψ a) = (g a).map φ) :
    mapRes g' (l.map ψ) = (mapRes g l).map (List.map φ) := by
  induction l with
  | nil => rfl
  | cons a as ih =>
    have ih := ih (fun a ha => h a (List.mem_cons_of_mem _ ha))
    simp only [List.map_cons, mapRes, h a List.mem_cons_self, ih]
    cases g a <;> simp only [Res.map]
    cases mapRes g as <;> simp

theorem idx_nat {α α'} (ψ : α → α') (l : List α) (i : Nat) :
    idx (l.map ψ) i = (idx l i).map ψ := by
  unfold idx
  rw [List.getElem?_map]
  cases l[i]? <;> rfl

theorem getMessages_nat {α α'} (ψ : α → α') (l : List α) (is : List Nat) :
    getMessages (l.map ψ) is = (getMessages l is).map (List.map ψ) := by
  unfold getMessages
  exact mapRes_nat ψ _ _ _ (fun i _ => idx_nat ψ l i)

theorem foldl_nat {α α' β β'} (φ : β → β') (ψ : α → α') (g : β → α → β) (g' : β' → α' → β')
    (h : ∀ b a, g' (φ b) (ψ a) = φ (g b a)) (l : List α) (b : β) :
    List.foldl g' (φ b) (l.map ψ) = φ (List.foldl g b l) := by
  induction l generalizing b with
  | nil => rfl
  | cons a as ih => simp only [List.map_cons, List.foldl_cons, h, ih]

theorem flatMap_nat {α α'} (ψ : α → α') (e : α → Bytes) (e' : α' → Bytes)
    (h : ∀ a, e' (ψ a) = e a) (l : List α) : (l.map ψ).flatMap e' = l.flatMap e := by
  induction l with
  | nil => rfl
  | cons a as ih => simp only [List.map_cons, List.flatMap_cons, h, ih]

theorem zip_map_nat {α α' β β'} (ψ : α → α') (φ : β → β') (l : List α) (m : List β) :
    (l.map ψ).zip (m.map φ) = (l.zip m).map (Prod.map ψ φ) := by
  rw [List.zip_map]


/-! ### homomorphisms of instances of the model's signature -/

section
variable {S G1 G2 : Type}
variable [Zero S] [One S] [Add S] [Sub S] [Neg S] [Mul S] [DecidableEq S]
variable [Zero G1] [Add G1] [Sub G1] [Neg G1] [SMul S G1] [DecidableEq G1]
variable [Zero G2] [Add G2] [Neg G2] [SMul S G2] [DecidableEq G2]
variable {S' G1' G2' : Type}
variable [Zero S'] [One S'] [Add S'] [Sub S'] [Neg S'] [Mul S'] [DecidableEq S']
variable [Zero G1'] [Add G1'] [Sub G1'] [Neg G1'] [SMul S' G1'] [DecidableEq G1']
variable [Zero G2'] [Add G2'] [Neg G2'] [SMul S' G2'] [DecidableEq G2']

/-- `(fS, f1, f2)` is an (injective) homomorphism from the instance `(S, G1, G2, env)` of the
model's signature to the instance `(S', G1', G2', env')`: it commutes with every operation the
model can perform.  Only plain equations; no algebraic laws are assumed on either side. -/
structure Hom (env : Env S G1 G2) (env' : Env S' G1' G2')
    (fS : S → S') (f1 : G1 → G1') (f2 : G2 → G2') : Prop where
  fS_inj : Function.Injective fS
  f1_inj : Function.Injective f1
  f2_inj : Function.Injective f2
  S_zero : fS 0 = 0
  S_one : fS 1 = 1
  S_add : ∀ a b, fS (a + b) = fS a + fS b
  S_sub : ∀ a b, fS (a - b) = fS a - fS b
  S_neg : ∀ a, fS (-a) = -fS a
  S_mul : ∀ a b, fS (a * b) = fS a * fS b
  G1_zero : f1 0 = 0
  G1_add : ∀ p q, f1 (p + q) = f1 p + f1 q
  G1_sub : ∀ p q, f1 (p - q) = f1 p - f1 q
  G1_neg : ∀ p, f1 (-p) = -f1 p
  G1_smul : ∀ (s : S) p, f1 (s • p) = fS s • f1 p
  G2_zero : f2 0 = 0
  G2_add : ∀ p q, f2 (p + q) = f2 p + f2 q
  G2_neg : ∀ p, f2 (-p) = -f2 p
  G2_smul : ∀ (s : S) p, f2 (s • p) = fS s • f2 p
  sInv : ∀ s, env'.sInv (fS s) = (env.sInv s).map fS
  sEnc : ∀ s, env'.sEnc (fS s) = env.sEnc s
  sDec : ∀ b, env'.sDec b = (env.sDec b).map fS
  okm : ∀ b, env'.okm b = fS (env.okm b)
  g1Enc : ∀ p, env'.g1Enc (f1 p) = env.g1Enc p
  g1Dec : ∀ b, env'.g1Dec b = (env.g1Dec b).map f1
  g2Enc : ∀ p, env'.g2Enc (f2 p) = env.g2Enc p
  g2Dec : ∀ b, env'.g2Dec b = (env.g2Dec b).map f2
  g2EncU : ∀ p, env'.g2EncU (f2 p) = env.g2EncU p
  g2DecU : ∀ b, env'.g2DecU b = (env.g2DecU b).map f2
  bp2 : env'.bp2 = f2 env.bp2
  pairingCheck : ∀ l, env'.pairingCheck (l.map (Prod.map f1 f2)) = env.pairingCheck l
  expand : ∀ x m d n, env'.expand x m d n = env.expand x m d n
  hashToG1 : ∀ x m d, env'.hashToG1 x m d = (env.hashToG1 x m d).map f1

variable {env : Env S G1 G2} {env' : Env S' G1' G2'} {fS : S → S'} {f1 : G1 → G1'} {f2 : G2 → G2'}

namespace Hom
variable (H : Hom env env' fS f1 f2)
include H

theorem fS_eq_zero_iff (s : S) : fS s = 0 ↔ s = 0 := by
  rw [← H.S_zero]; exact H.fS_inj.eq_iff
theorem f1_eq_zero_iff (p : G1) : f1 p = 0 ↔ p = 0 := by
  rw [← H.G1_zero]; exact H.f1_inj.eq_iff
theorem f2_eq_zero_iff (p : G2) : f2 p = 0 ↔ p = 0 := by
  rw [← H.G2_zero]; exact H.f2_inj.eq_iff

theorem sEnc_flatMap (l : List S) : (l.map fS).flatMap env'.sEnc = l.flatMap env.sEnc :=
  flatMap_nat fS _ _ H.sEnc l
theorem g1Enc_flatMap (l : List G1) : (l.map f1).flatMap env'.g1Enc = l.flatMap env.g1Enc :=
  flatMap_nat f1 _ _ H.g1Enc l

theorem pairingCheck2 (a c : G1) (b d : G2) :
    env'.pairingCheck [(f1 a, f2 b), (f1 c, f2 d)] = env.pairingCheck [(a, b), (c, d)] :=
  H.pairingCheck [(a, b), (c, d)]

end Hom

/-! ### `src/utils/util.rs`, `message.rs` -/

theorem hashToScalar_nat (H : Hom env env' fS f1 f2) (cs : Suite G1) (msg dst : Bytes) :
    hashToScalar env' (cs.map f1) msg dst = (hashToScalar env cs msg dst).map fS := by
  unfold hashToScalar
  simp only [Suite.map_xof, Suite.map_expandLen, H.expand, H.okm]
  split
  · rfl
  · cases env.expand cs.xof msg dst cs.expandLen with
    | none => rfl
    | some u => dsimp only; split <;> rfl

theorem domainInput_nat (H : Hom env env' fS f1 f2) (pk : G2) (Q1 : G1) (Hs : List G1)
    (header apiId : Bytes) :
    domainInput env' (f2 pk) (f1 Q1) (Hs.map f1) header apiId
      = domainInput env pk Q1 Hs header apiId := by
  unfold domainInput
  simp only [H.g2Enc, H.g1Enc, H.g1Enc_flatMap, List.length_map]

theorem calculateDomain_nat (H : Hom env env' fS f1 f2) (cs : Suite G1) (pk : G2) (Q1 : G1)
    (Hs : List G1) (header apiId : Option Bytes) :
    calculateDomain env' (cs.map f1) (f2 pk) (f1 Q1) (Hs.map f1) header apiId
      = (calculateDomain env cs pk Q1 Hs header apiId).map fS := by
  unfold calculateDomain
  simp only [domainInput_nat H, hashToScalar_nat H, Suite.map_h2s]

theorem serializeScalars_nat (H : Hom env env' fS f1 f2) (l : List S) :
    serializeScalars env' (l.map fS) = serializeScalars env l := by
  unfold serializeScalars
  exact H.sEnc_flatMap l

theorem blindChallengeInput_nat (H : Hom env env' fS f1 f2) (C Cbar : G1) (gens : List G1) :
    blindChallengeInput env' (f1 C) (f1 Cbar) (gens.map f1)
      = blindChallengeInput env C Cbar gens := by
  unfold blindChallengeInput
  simp only [H.g1Enc, H.g1Enc_flatMap, List.length_map]

theorem calculateBlindChallenge_nat (H : Hom env env' fS f1 f2) (cs : Suite G1) (C Cbar : G1)
    (gens : List G1) (apiId : Option Bytes) :
    calculateBlindChallenge env' (cs.map f1) (f1 C) (f1 Cbar) (gens.map f1) apiId
      = (calculateBlindChallenge env cs C Cbar gens apiId).map fS := by
  unfold calculateBlindChallenge
  simp only [blindChallengeInput_nat H, hashToScalar_nat H, Suite.map_h2s, List.length_map]
  split <;> rfl

theorem mapMessageToScalarAsHash_nat (H : Hom env env' fS f1 f2) (cs : Suite G1)
    (data apiId : Bytes) :
    mapMessageToScalarAsHash env' (cs.map f1) data apiId
      = (mapMessageToScalarAsHash env cs data apiId).map fS := by
  unfold mapMessageToScalarAsHash
  simp only [hashToScalar_nat H, Suite.map_mapMsgScalar]

theorem messagesToScalar_nat (H : Hom env env' fS f1 f2) (cs : Suite G1) (messages : List Bytes)
    (apiId : Bytes) :
    messagesToScalar env' (cs.map f1) messages apiId
      = (messagesToScalar env cs messages apiId).map (List.map fS) := by
  unfold messagesToScalar
  exact mapRes_nat fS _ _ _ (fun m _ => by simp only [hashToScalar_nat H, Suite.map_mapMsgScalar])

/-! ### `src/bbsplus/generators.rs` -/

theorem genLoop_nat (H : Hom env env' fS f1 f2) (cs : Suite G1) (seedDst genDst : Bytes)
    (n i : Nat) (v : Bytes) :
    genLoop env' (cs.map f1) seedDst genDst n i v
      = (genLoop env cs seedDst genDst n i v).map (List.map f1) := by
  induction n generalizing i v with
  | zero => rfl
  | succ n ih =>
    simp only [genLoop, Suite.map_xof, Suite.map_expandLen, H.expand, H.hashToG1]
    cases env.expand cs.xof (v ++ i2osp 8 i) seedDst cs.expandLen with
    | none => rfl
    | some v' =>
      dsimp only
      cases env.hashToG1 cs.xof v' genDst with
      | none => rfl
      | some g =>
        simp only [Option.map_some, ih]
        cases genLoop env cs seedDst genDst n (i + 1) v' <;> rfl

theorem createGenerators_nat (H : Hom env env' fS f1 f2) (cs : Suite G1) (count : Nat)
    (apiId : Option Bytes) :
    createGenerators env' (cs.map f1) count apiId
      = (createGenerators env cs count apiId).map (List.map f1) := by
  unfold createGenerators
  simp only [Suite.map_xof, Suite.map_expandLen, Suite.map_generatorSeed,
    Suite.map_generatorSeedDst, Suite.map_generatorDst, H.expand, genLoop_nat H]
  cases env.expand cs.xof (apiId.getD [] ++ cs.generatorSeed)
    (apiId.getD [] ++ cs.generatorSeedDst) cs.expandLen <;> rfl

theorem Generators.create_nat (H : Hom env env' fS f1 f2) (cs : Suite G1) (count : Nat)
    (apiId : Option Bytes) :
    Generators.create env' (cs.map f1) count apiId
      = (Generators.create env cs count apiId).map (Generators.map f1) := by
  unfold Generators.create
  simp only [createGenerators_nat H, Suite.map_p1]
  cases createGenerators env cs count apiId <;> rfl

/-! ### `src/bbsplus/keys.rs` -/

theorem keyGen_nat (H : Hom env env' fS f1 f2) (cs : Suite G1) (keyMaterial : Bytes)
    (keyInfo keyDst : Option Bytes) :
    keyGen env' (cs.map f1) keyMaterial keyInfo keyDst
      = (keyGen env cs keyMaterial keyInfo keyDst).map fS := by
  unfold keyGen
  simp only [hashToScalar_nat H, Suite.map_ikmLen, Suite.map_apiId, Suite.map_keygenDst]
  split
  · rfl
  · split <;> rfl

theorem skToPk_nat (H : Hom env env' fS f1 f2) (sk : S) :
    skToPk env' (fS sk) = f2 (skToPk env sk) := by
  unfold skToPk
  rw [H.bp2, H.G2_smul]

theorem pkFromBytes_nat (H : Hom env env' fS f1 f2) (b : Bytes) :
    pkFromBytes env' b = (pkFromBytes env b).map f2 := by
  unfold pkFromBytes
  simp only [H.g2Dec]
  split
  · rfl
  · cases env.g2Dec b with
    | none => rfl
    | some g =>
      simp only [Option.map_some, H.f2_eq_zero_iff]
      split <;> rfl

theorem pkToBytes_nat (H : Hom env env' fS f1 f2) (pk : G2) :
    pkToBytes env' (f2 pk) = pkToBytes env pk := H.g2Enc pk

theorem pkToCoordinates_nat (H : Hom env env' fS f1 f2) (pk : G2) :
    pkToCoordinates env' (f2 pk) = pkToCoordinates env pk := by
  unfold pkToCoordinates
  simp only [H.g2EncU]

theorem pkFromCoordinates_nat (H : Hom env env' fS f1 f2) (x y : Bytes) :
    pkFromCoordinates env' x y = (pkFromCoordinates env x y).map f2 := by
  unfold pkFromCoordinates
  simp only [H.g2DecU]
  split
  · rfl
  · cases env.g2DecU (x ++ y) with
    | none => rfl
    | some g =>
      simp only [Option.map_some, H.f2_eq_zero_iff]
      split <;> rfl

theorem skFromBytes_nat (H : Hom env env' fS f1 f2) (b : Bytes) :
    skFromBytes env' b = (skFromBytes env b).map fS := by
  unfold skFromBytes
  simp only [H.sDec]
  split
  · rfl
  · cases env.sDec b <;> rfl

/-! ### `src/bbsplus/signature.rs` -/

theorem Signature.toBytes_nat (H : Hom env env' fS f1 f2) (σ : Signature S G1) :
    (σ.map fS f1).toBytes env' = σ.toBytes env := by
  unfold Signature.toBytes
  simp only [Signature.map_A, Signature.map_e, H.g1Enc, H.sEnc]

theorem Signature.fromBytes_nat (H : Hom env env' fS f1 f2) (b : Bytes) :
    Signature.fromBytes env' b = (Signature.fromBytes env b).map (Signature.map fS f1) := by
  unfold Signature.fromBytes
  simp only [H.g1Dec, H.sDec]
  split
  · rfl
  · cases env.g1Dec (b.take 48) with
    | none => rfl
    | some A =>
      cases env.sDec (b.drop 48) with
      | none => rfl
      | some e =>
        simp only [Option.map_some, H.f1_eq_zero_iff, H.fS_eq_zero_iff]
        split <;> rfl

theorem calcB_nat (H : Hom env env' fS f1 f2) (base Q1 : G1) (domain : S) (Hs : List G1)
    (msgs : List S) :
    calcB (f1 base) (f1 Q1) (fS domain) (Hs.map f1) (msgs.map fS)
      = f1 (calcB base Q1 domain Hs msgs) := by
  unfold calcB
  rw [zip_map_nat, ← H.G1_smul, ← H.G1_add]
  exact foldl_nat f1 (Prod.map f1 fS) _ _
    (fun B hm => by simp only [Prod.map_fst, Prod.map_snd, ← H.G1_smul, ← H.G1_add]) _ _

theorem coreSign_nat (H : Hom env env' fS f1 f2) (cs : Suite G1) (sk : S) (pk : G2)
    (gens : Generators G1) (header : Option Bytes) (msgs : List S) (apiId : Option Bytes) :
    coreSign env' (cs.map f1) (fS sk) (f2 pk) (gens.map f1) header (msgs.map fS) apiId
      = (coreSign env cs sk pk gens header msgs apiId).map (Signature.map fS f1) := by
  obtain ⟨base, values⟩ := gens
  unfold coreSign
  simp only [Generators.map_mk, List.length_map]
  split
  · rfl
  · cases values with
    | nil => rfl
    | cons Q1 Hs =>
      simp only [List.map_cons, calculateDomain_nat H]
      cases calculateDomain env cs pk Q1 Hs header (some (apiId.getD [])) with
      | err => rfl
      | panic => rfl
      | ok domain =>
        simp only [Res.map_ok]
        have hser : serializeScalars env' (fS sk :: List.map fS msgs ++ [fS domain])
            = serializeScalars env (sk :: msgs ++ [domain]) := by
          rw [← serializeScalars_nat H]; simp
        simp only [hser, hashToScalar_nat H, Suite.map_h2s]
        cases hashToScalar env cs (serializeScalars env (sk :: msgs ++ [domain]))
            (apiId.getD [] ++ cs.h2s) with
        | err => rfl
        | panic => rfl
        | ok e =>
          simp only [Res.map_ok, ← H.S_add, H.sInv]
          cases env.sInv (sk + e) with
          | none => rfl
          | some inv =>
            simp only [Option.map_some, calcB_nat H, ← H.G1_smul, H.f1_eq_zero_iff]
            split <;> rfl

theorem coreVerify_nat (H : Hom env env' fS f1 f2) (cs : Suite G1) (pk : G2) (σ : Signature S G1)
    (msgs : List S) (gens : Generators G1) (header apiId : Option Bytes) :
    coreVerify env' (cs.map f1) (f2 pk) (σ.map fS f1) (msgs.map fS) (gens.map f1) header apiId
      = coreVerify env cs pk σ msgs gens header apiId := by
  obtain ⟨base, values⟩ := gens
  unfold coreVerify
  simp only [Generators.map_mk, List.length_map]
  split
  · rfl
  · cases values with
    | nil => rfl
    | cons Q1 Hs =>
      simp only [List.map_cons, calculateDomain_nat H]
      cases calculateDomain env cs pk Q1 Hs header apiId with
      | err => rfl
      | panic => rfl
      | ok domain =>
        simp only [Res.map_ok, calcB_nat H, Signature.map_A, Signature.map_e, H.bp2, ← H.G2_smul,
          ← H.G2_add, ← H.G2_neg, H.pairingCheck2]

theorem sign_nat (H : Hom env env' fS f1 f2) (cs : Suite G1) (messages : Option (List Bytes))
    (sk : S) (pk : G2) (header : Option Bytes) :
    sign env' (cs.map f1) messages (fS sk) (f2 pk) header
      = (sign env cs messages sk pk header).map (Signature.map fS f1) := by
  unfold sign
  simp only [messagesToScalar_nat H, Generators.create_nat H, Suite.map_apiId]
  cases messagesToScalar env cs (messages.getD []) cs.apiId with
  | err => rfl
  | panic => rfl
  | ok ms =>
    simp only [Res.map_ok]
    cases Generators.create env cs ((messages.getD []).length + 1) (some cs.apiId) with
    | err => rfl
    | panic => rfl
    | ok gens => simp only [Res.map_ok, coreSign_nat H]

theorem verify_nat (H : Hom env env' fS f1 f2) (cs : Suite G1) (σ : Signature S G1) (pk : G2)
    (messages : Option (List Bytes)) (header : Option Bytes) :
    verify env' (cs.map f1) (σ.map fS f1) (f2 pk) messages header
      = verify env cs σ pk messages header := by
  unfold verify
  simp only [messagesToScalar_nat H, Generators.create_nat H, Suite.map_apiId]
  cases messagesToScalar env cs (messages.getD []) cs.apiId with
  | err => rfl
  | panic => rfl
  | ok ms =>
    simp only [Res.map_ok]
    cases Generators.create env cs ((messages.getD []).length + 1) (some cs.apiId) with
    | err => rfl
    | panic => rfl
    | ok gens => simp only [Res.map_ok, coreVerify_nat H]

theorem updateSignature_nat (H : Hom env env' fS f1 f2) (cs : Suite G1) (σ : Signature S G1)
    (sk : S) (oldMessage newMessage : Bytes) (updateIndex n : Nat) :
    updateSignature env' (cs.map f1) (σ.map fS f1) (fS sk) oldMessage newMessage updateIndex n
      = (updateSignature env cs σ sk oldMessage newMessage updateIndex n).map
          (Signature.map fS f1) := by
  unfold updateSignature
  simp only [Generators.create_nat H, mapMessageToScalarAsHash_nat H, Suite.map_apiId]
  split
  · rfl
  · cases Generators.create env cs (n + 1) (some cs.apiId) with
    | err => rfl
    | panic => rfl
    | ok gens =>
      simp only [Res.map_ok, Generators.map_values, List.length_map]
      split
      · rfl
      · cases mapMessageToScalarAsHash env cs oldMessage cs.apiId with
        | err => rfl
        | panic => rfl
        | ok oldS =>
          simp only [Res.map_ok]
          cases mapMessageToScalarAsHash env cs newMessage cs.apiId with
          | err => rfl
          | panic => rfl
          | ok newS =>
            simp only [Res.map_ok, ← List.map_tail, List.getElem?_map]
            cases gens.values.tail[updateIndex]? with
            | none => rfl
            | some Hi =>
              simp only [Option.map_some, Signature.map_A, Signature.map_e, ← H.S_add, H.sInv]
              cases env.sInv (sk + σ.e) with
              | none => rfl
              | some inv =>
                simp only [Option.map_some, ← H.G1_neg, ← H.G1_smul, ← H.G1_add,
                  H.f1_eq_zero_iff]
                split <;> rfl

end
end Transfer
end Zk
