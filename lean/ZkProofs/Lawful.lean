/-
L2 setting: the L1 model instantiated with an ARBITRARY field of scalars `S`, arbitrary
`S`-modules `G1`, `G2`, `GT` (written additively) and an arbitrary bilinear map
`pair : G1 →ₗ[S] G2 →ₗ[S] GT`.  `Lawful env pair` collects what is assumed of the non-algebraic
environment: canonical codecs, the inverse function, and that `pairingCheck` decides
`Σ pair Pᵢ Qᵢ = 0` for a pairing that is non-degenerate at the base point.
Nothing is assumed about the hash functions (`expand`, `hashToG1`, `okm` are arbitrary).
-/
import Mathlib.Algebra.Module.LinearMap.Defs
import Mathlib.Algebra.Module.Basic
import Mathlib.LinearAlgebra.BilinearMap
import Mathlib.Algebra.Field.Basic
import Mathlib.Tactic.Module
import Mathlib.Tactic.FieldSimp
import Mathlib.Tactic.LinearCombination
import ZkModel.L1.Bbs

namespace Zk

/-- A codec `enc/dec` for fixed-length `n` encodings is canonical. -/
structure Codec {α : Type} (enc : α → Bytes) (dec : Bytes → Option α) (n : Nat) : Prop where
  dec_enc : ∀ x, dec (enc x) = some x
  enc_len : ∀ x, (enc x).length = n
  strict : ∀ b x, dec b = some x → enc x = b

theorem Codec.enc_injective {α} {enc : α → Bytes} {dec n} (c : Codec enc dec n) :
    Function.Injective enc := fun a b h => by
  have := c.dec_enc a; rw [h, c.dec_enc b] at this; exact (Option.some.inj this).symm

theorem Codec.dec_len {α} {enc : α → Bytes} {dec n} (c : Codec enc dec n) {b x}
    (h : dec b = some x) : b.length = n := by rw [← c.strict b x h]; exact c.enc_len x

section
variable {S G1 G2 GT : Type} [Field S] [DecidableEq S]
variable [AddCommGroup G1] [Module S G1] [DecidableEq G1]
variable [AddCommGroup G2] [Module S G2] [DecidableEq G2]
variable [AddCommGroup GT] [Module S GT]

structure Lawful (env : Env S G1 G2) (pair : G1 →ₗ[S] G2 →ₗ[S] GT) : Prop where
  sInv_zero : env.sInv 0 = none
  sInv_ne : ∀ s, s ≠ 0 → env.sInv s = some s⁻¹
  sCodec : Codec env.sEnc env.sDec 32
  g1Codec : Codec env.g1Enc env.g1Dec 48
  g2Codec : Codec env.g2Enc env.g2Dec 96
  g2UCodec : Codec env.g2EncU env.g2DecU 192
  pairing_spec : ∀ l : List (G1 × G2),
    env.pairingCheck l = true ↔ (l.map fun pq => pair pq.1 pq.2).sum = 0
  /-- non-degeneracy at the base point of G2 -/
  nondeg : ∀ P : G1, pair P env.bp2 = 0 → P = 0

/-- In a module over a field, `s • P = 0` forces `s = 0` or `P = 0` (prime-order group). -/
theorem smul_eq_zero_field {M : Type} [AddCommGroup M] [Module S M] {s : S} {P : M}
    (h : s • P = 0) : s = 0 ∨ P = 0 := by
  by_cases hs : s = 0
  · exact Or.inl hs
  · right
    have : s⁻¹ • s • P = 0 := by rw [h, smul_zero]
    rwa [smul_smul, inv_mul_cancel₀ hs, one_smul] at this

end
end Zk
