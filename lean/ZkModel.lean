import ZkModel.L0.Bytes
import ZkModel.L0.Fp
