// C15: proof of knowledge of a CL03 signature -- complete for every hidden set, bound to its statement
use super::*;
use crate::flat::*;
use crate::ops::*;
use crate::H;
use rug::Integer;
use serde_json::Value;

pub struct Pok {
    pub msgs: Vec<Integer>,
    pub hidden: Vec<usize>,
    pub revealed: Vec<Integer>,
    pub sig: Value,
    pub pok: Value,
    pub tape: Vec<(String, Integer)>,
}

pub fn pokverify(h: &mut H, pok: &Value, cpk: &Value, pk: &Value, bases: &[Integer], revealed: &[Integer], hidden: &[usize], n: usize) -> Out {
    call(h, "cl.pokverify", vec![pok.clone(), cpk.clone(), pk.clone(), ivs(bases), ivs(revealed), uv(hidden), serde_json::json!(n)], vec![]).0
}

pub fn make_pok(h: &mut H, k: &Keys, cpk: &Value, n: usize, hidden: &[usize], msgs: Vec<Integer>) -> Option<Pok> {
    let bases = k.bases[..n].to_vec();
    let sig = signm(h, k, &bases, &msgs)?;
    let (p, tape) = call(h, "cl.pokgen", vec![sig.clone(), cpk.clone(), k.pk.clone(), ivs(&bases), ivs(&msgs), uv(hidden)], vec![]);
    let pok = p.ok()?.clone();
    let revealed: Vec<Integer> = (0..n).filter(|i| !hidden.contains(i)).map(|i| msgs[i].clone()).collect();
    Some(Pok { msgs, hidden: hidden.to_vec(), revealed, sig, pok, tape })
}

pub fn c15(h: &mut H) {
    let p = params(h.suite);
    let nmax = if h.thorough { 5 } else { 3 };
    let k = keygen(h, nmax);
    let k2 = keygen(h, nmax);
    let (ck, _) = cpk(h, Some(&k.n_mod), nmax);
    let (ck2, _) = cpk(h, Some(&k.n_mod), nmax);
    let mut leaf_budget: i64 = if h.thorough { 600 } else { 40 };
    for n in 1..=nmax {
        let bases = k.bases[..n].to_vec();
        for hidden in subsets(n) {
            if !h.thorough && n == 3 && hidden.len() == 2 && hidden[0] == 1 {
                continue;
            }
            h.stat(&format!("C15.n={}.U={}", n, hidden.len()));
            let msgs = if (n + hidden.len()) % 2 == 0 { attrs_boundary(h, n, p.lm) } else { attrs(h, n) };
            let pk = match make_pok(h, &k, &ck, n, &hidden, msgs) {
                Some(x) => x,
                None => {
                    h.expect(false, "C15.gen", "proof_gen panicked on a valid signature", &[h.last()]);
                    continue;
                }
            };
            let gid = h.last();
            let v = pokverify(h, &pk.pok, &ck, &k.pk, &bases, &pk.revealed, &hidden, n);
            h.expect(v.is_true(), "C15.verify", "proof_verify(proof_gen(..)) != true", &[gid, h.last()]);
            // minimum / maximum blindings: still complete
            for mx in [false, true] {
                let bt = boundary_tape(&pk.tape, mx);
                let (pb, _) = call(h, "cl.pokgen", vec![pk.sig.clone(), ck.clone(), k.pk.clone(), ivs(&bases), ivs(&pk.msgs), uv(&hidden)], bt);
                let bid = h.last();
                if let Some(pb) = pb.ok().cloned() {
                    let v = pokverify(h, &pb, &ck, &k.pk, &bases, &pk.revealed, &hidden, n);
                    h.expect(v.is_true(), "C15.boundary_tape", "proof generated with extreme blindings does not verify", &[bid, h.last()]);
                } else {
                    h.expect(false, "C15.boundary_tape_gen", "proof_gen panicked on an extreme-blinding tape", &[bid]);
                }
                if n > 2 { break; }
            }
            let reject = |h: &mut H, class: &str, pok: &Value, cpk_: &Value, pk_: &Value, bs: &[Integer], rev: &[Integer], hid: &[usize], nn: usize| {
                h.stat(&format!("C15.neg.{}", class));
                let v = pokverify(h, pok, cpk_, pk_, bs, rev, hid, nn);
                // a refusal by panic also counts as not verifying
                h.expect(!v.is_true(), &format!("C15.{}", class), "proof_verify accepted a different statement or an altered proof", &[h.last()]);
            };
            for i in 0..pk.revealed.len() {
                let mut r = pk.revealed.clone();
                r[i] += 1;
                reject(h, "revealed_plus_1", &pk.pok, &ck, &k.pk, &bases, &r, &hidden, n);
                if i + 1 < r.len() && pk.revealed[i] != pk.revealed[i + 1] {
                    let mut r = pk.revealed.clone();
                    r.swap(i, i + 1);
                    reject(h, "revealed_swap", &pk.pok, &ck, &k.pk, &bases, &r, &hidden, n);
                }
            }
            reject(h, "other_signer_key", &pk.pok, &ck, &k2.pk, &bases, &pk.revealed, &hidden, n);
            reject(h, "other_bases", &pk.pok, &ck, &k.pk, &k2.bases[..n].to_vec(), &pk.revealed, &hidden, n);
            reject(h, "other_commitment_key", &pk.pok, &ck2, &k.pk, &bases, &pk.revealed, &hidden, n);
            if n > 1 {
                let mut rb = bases.clone();
                rb.rotate_left(1);
                reject(h, "bases_rotated", &pk.pok, &ck, &k.pk, &rb, &pk.revealed, &hidden, n);
            }
            // another hidden set of the same size (revealed list kept as is)
            if hidden.len() < n && !hidden.is_empty() {
                let mut u2 = hidden.clone();
                u2[0] = (0..n).find(|i| !hidden.contains(i)).unwrap();
                u2.sort();
                reject(h, "other_hidden_set", &pk.pok, &ck, &k.pk, &bases, &pk.revealed, &u2, n);
            }
            // hidden sets that drop trailing / leading members of U, or add one (same revealed list)
            if !hidden.is_empty() {
                reject(h, "hidden_drop_last", &pk.pok, &ck, &k.pk, &bases, &pk.revealed, &hidden[..hidden.len() - 1].to_vec(), n);
                reject(h, "hidden_drop_first", &pk.pok, &ck, &k.pk, &bases, &pk.revealed, &hidden[1..].to_vec(), n);
                reject(h, "hidden_none", &pk.pok, &ck, &k.pk, &bases, &pk.revealed, &[], n);
            }
            if hidden.len() < n {
                let mut u3 = hidden.clone();
                u3.push((0..n).rev().find(|i| !hidden.contains(i)).unwrap());
                u3.sort();
                reject(h, "hidden_add_one", &pk.pok, &ck, &k.pk, &bases, &pk.revealed, &u3, n);
            }
            // attribute count
            if n < nmax {
                let mut r = pk.revealed.clone();
                // (an extra attribute equal to 0 is the same statement in CL03: a^0 = 1 -- DESIGN O7)
                r.push(Integer::from(7));
                reject(h, "n_plus_1", &pk.pok, &ck, &k.pk, &k.bases[..n + 1].to_vec(), &r, &hidden, n + 1);
            }
            reject(h, "n_zero", &pk.pok, &ck, &k.pk, &bases, &[], &[], 0);
            if n > 1 && !pk.revealed.is_empty() && !hidden.contains(&(n - 1)) && pk.revealed[pk.revealed.len() - 1] != 0 {
                reject(h, "n_minus_1", &pk.pok, &ck, &k.pk, &bases, &pk.revealed[..pk.revealed.len() - 1].to_vec(), &hidden, n - 1);
            }
            // single-field perturbations of every integer of the serialized proof
            let mut lv = Vec::new();
            leaves(&pk.pok, String::new(), &mut lv);
            let picks: Vec<usize> = if h.thorough && n <= 2 { (0..lv.len()).collect() } else {
                (0..6).map(|_| h.rng.below(lv.len() as u64) as usize).collect()
            };
            for li in picks {
                if leaf_budget <= 0 { break; }
                let (path, old) = lv[li].clone();
                if path.ends_with(".randomness") { continue; }
                for edit in 0..5 {
                    if !h.thorough && edit != (li % 5) { continue; }
                    if edit == 2 && old == 0 { continue; }
                    leaf_budget -= 1;
                    let mut z = pk.pok.clone();
                    let mut cnt = 0usize;
                    let f: Box<dyn Fn(&Integer) -> Integer> = match edit {
                        0 => Box::new(|x| Integer::from(x + 1u32)),
                        1 => Box::new(|x| Integer::from(x - 1u32)),
                        2 => Box::new(|_| Integer::from(0)),
                        3 => Box::new(|x| Integer::from(x + (Integer::from(1) << 128))),
                        _ => Box::new(|x| Integer::from(x + (Integer::from(1) << 256))),
                    };
                    map_leaf(&mut z, &mut cnt, li, &*f);
                    h.stat("C15.leaf_edit");
                    let v = pokverify(h, &z, &ck, &k.pk, &bases, &pk.revealed, &hidden, n);
                    h.expect(!v.is_true(), "C15.leaf_edit", &format!("proof_verify accepted a proof with field {} altered ({})", path, ["+1", "-1", "zero", "+2^128", "+2^256"][edit]), &[h.last()]);
                }
            }
            // swap two sibling responses
            let mut z = pk.pok.clone();
            let a = z["spok"]["s_1"].clone();
            z["spok"]["s_1"] = z["spok"]["s_3"].clone();
            z["spok"]["s_3"] = a;
            reject(h, "leaf_swap", &z, &ck, &k.pk, &bases, &pk.revealed, &hidden, n);
        }
    }
}
