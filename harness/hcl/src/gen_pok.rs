use crate::H;
pub fn c15(_h: &mut H) {}
