// hcl: correspondence + oracle harness for the CL03 half of zkryptium (feature `cl03`).
//
// usage: hcl <property> <tier> <seed> <outdir>     |  hcl replay <tier> <seed> <outdir> <records.jsonl>
//        hcl consts
// Writes <outdir>/ops.txt (protocol lines with the implementation's outcome),
// <outdir>/ops.jsonl (the same operations with JSON arguments, used for replay) and
// <outdir>/oracle.json (property-oracle verdicts on the implementation alone).
#![allow(non_snake_case)]
#![allow(clippy::too_many_arguments)]

mod flat;
mod gen;
mod ops;

use std::collections::BTreeMap;
use std::sync::Mutex;

/// watchdog: (start time, description) of the operation currently running on the main thread
pub static WATCH: Mutex<Option<(std::time::Instant, String)>> = Mutex::new(None);
/// oracle failures so far (so that a hang does not lose them)
pub static FAILS_SO_FAR: Mutex<Vec<String>> = Mutex::new(Vec::new());
pub fn watch_begin(desc: String) {
    *WATCH.lock().unwrap() = Some((std::time::Instant::now(), desc));
}
pub fn watch_end() {
    *WATCH.lock().unwrap() = None;
}
fn start_watchdog(outdir: String, limit_s: u64) {
    std::thread::spawn(move || loop {
        std::thread::sleep(std::time::Duration::from_millis(500));
        let g = WATCH.lock().unwrap();
        if let Some((t0, desc)) = &*g {
            if t0.elapsed().as_secs() > limit_s {
                let fails = FAILS_SO_FAR.lock().map(|f| f.clone()).unwrap_or_default();
                let body = format!("{{\"hung\": {}, \"oracle_failures_before_the_hang\": {}}}", desc, serde_json::to_string(&fails).unwrap_or("[]".into()));
                let _ = std::fs::write(format!("{}/hang.json", outdir), body);
                eprintln!("operation did not terminate within {} s", limit_s);
                std::process::exit(3);
            }
        }
    });
}

pub struct Fail {
    pub what: String,
    pub class: String,
    pub lines: Vec<u64>,
}

pub struct Rng(u64);
impl Rng {
    pub fn new(seed: u64) -> Self {
        Rng(seed.wrapping_add(0x9e3779b97f4a7c15))
    }
    pub fn next(&mut self) -> u64 {
        self.0 = self.0.wrapping_add(0x9e3779b97f4a7c15);
        let mut z = self.0;
        z = (z ^ (z >> 30)).wrapping_mul(0xbf58476d1ce4e5b9);
        z = (z ^ (z >> 27)).wrapping_mul(0x94d049bb133111eb);
        z ^ (z >> 31)
    }
    pub fn below(&mut self, n: u64) -> u64 {
        if n == 0 { 0 } else { self.next() % n }
    }
    pub fn bytes(&mut self, n: usize) -> Vec<u8> {
        (0..n).map(|_| self.next() as u8).collect()
    }
    pub fn chance(&mut self, a: u64, b: u64) -> bool {
        self.below(b) < a
    }
}

pub fn fnv(s: &str) -> u64 {
    let mut h: u64 = 0xcbf29ce484222325;
    for b in s.bytes() {
        h ^= b as u64;
        h = h.wrapping_mul(0x100000001b3);
    }
    h
}

pub struct H {
    pub suite: &'static str,
    pub lines: Vec<String>,
    pub records: Vec<serde_json::Value>,
    pub fails: Vec<Fail>,
    pub stats: BTreeMap<String, u64>,
    pub next_id: u64,
    pub rng: Rng,
    pub thorough: bool,
    pub oracle_checks: u64,
}

impl H {
    pub fn new(suite: &'static str, seed: u64, thorough: bool, next_id: u64) -> Self {
        H { suite, lines: vec![], records: vec![], fails: vec![], stats: BTreeMap::new(), next_id, rng: Rng::new(seed), thorough, oracle_checks: 0 }
    }
    pub fn stat(&mut self, k: &str) {
        *self.stats.entry(k.to_string()).or_insert(0) += 1;
    }
    pub fn expect(&mut self, cond: bool, class: &str, what: &str, lines: &[u64]) {
        self.oracle_checks += 1;
        if !cond {
            if let Ok(mut f) = FAILS_SO_FAR.lock() {
                if f.len() < 50 {
                    f.push(format!("[{}] {}", class, what));
                }
            }
            self.fails.push(Fail { what: what.to_string(), class: class.to_string(), lines: lines.to_vec() });
        }
    }
    pub fn last(&self) -> u64 {
        self.next_id - 1
    }
}

/// History independence: every recorded operation is a function of its arguments and its tape, so executing it
/// again -- after all the later operations of the run, in reverse order, and twice in a row -- must give the
/// recorded outcome. A memo, cache or scratch buffer that survives between calls and is keyed too coarsely shows
/// up here even when the generator never happened to produce the poisoning sequence in its forward order.
/// Key generation with its own safe-prime search is skipped (cost); the pass stops after `budget_s` seconds.
fn history_pass(h: &mut H, prop: &str, budget_s: u64) {
    let t0 = std::time::Instant::now();
    let n = h.records.len().min(h.lines.len());
    let deciders: Vec<usize> = (0..n).filter(|&i| {
        let op = h.records[i]["op"].as_str().unwrap_or("");
        op.contains("verify") || op.contains("frombytes")
    }).collect();
    let others: Vec<usize> = (0..n).filter(|&i| {
        let op = h.records[i]["op"].as_str().unwrap_or("");
        !(op.contains("verify") || op.contains("frombytes")) && op != "cl.keygen" && op != "cl.cpk"
    }).collect();
    let pick = |v: &Vec<usize>, cap: usize| -> Vec<usize> {
        let stride = (v.len() + cap - 1) / cap.max(1);
        v.iter().cloned().step_by(stride.max(1)).collect()
    };
    let mut sel = pick(&deciders, 500);
    sel.extend(pick(&others, 120));
    sel.sort();
    sel.reverse();
    let mut checked = 0u64;
    for i in sel {
        if t0.elapsed().as_secs() >= budget_s {
            break;
        }
        let want = h.lines[i].split(" => ").nth(1).unwrap_or("").to_string();
        let id = h.records[i]["id"].as_u64().unwrap_or(0);
        let rec = h.records[i].clone();
        for pass in 0..2 {
            let mut h2 = H::new(h.suite, 0, h.thorough, id);
            ops::replay_record(&mut h2, &rec);
            let got = match h2.lines.last() {
                Some(l) => l.split(" => ").nth(1).unwrap_or("").to_string(),
                None => break,
            };
            checked += 1;
            let cut = |s: &str| -> String { s.chars().take(60).collect() };
            let same = got == want;
            h.expect(same, &format!("{}.history_dependence", prop),
                &format!("operation {} ({}) returned '{}' in the run and '{}' when executed again {} -- its outcome depends on earlier calls",
                    id, rec["op"].as_str().unwrap_or(""), cut(&want), cut(&got),
                    if pass == 0 { "after the later operations of the run" } else { "a second time in a row" }), &[id]);
            if !same {
                break;
            }
        }
    }
    *h.stats.entry("history_pass.reexecuted".to_string()).or_insert(0) += checked;
}

fn main() {
    let args: Vec<String> = std::env::args().collect();
    if args.len() >= 2 && args[1] == "consts" {
        gen::print_consts();
        return;
    }
    if args.len() < 5 {
        eprintln!("usage: hcl <property|replay> <tier> <seed> <outdir> [records]");
        std::process::exit(2);
    }
    let prop = args[1].clone();
    let tier = args[2].clone();
    let seed: u64 = args[3].parse().unwrap_or(0);
    let outdir = args[4].clone();
    if std::env::var("HARNESS_VERBOSE_PANIC").is_err() { std::panic::set_hook(Box::new(|_| {})); }
    std::fs::create_dir_all(&outdir).unwrap();
    let _ = std::fs::remove_file(format!("{}/hang.json", outdir));
    start_watchdog(outdir.clone(), if tier == "thorough" { 1800 } else { 180 });
    let thorough = tier == "thorough";

    let mut all_lines = Vec::new();
    let mut all_records = Vec::new();
    let mut all_fails = Vec::new();
    let mut stats: BTreeMap<String, u64> = BTreeMap::new();
    let mut oracle_checks = 0;
    let mut next_id = 1u64;
    if prop == "replay" {
        let text = std::fs::read_to_string(&args[5]).expect("records file");
        let mut h = H::new("cl1024", seed, thorough, 1);
        for l in text.lines() {
            if l.trim().is_empty() || l.starts_with('#') {
                continue;
            }
            if let Ok(v) = serde_json::from_str::<serde_json::Value>(l) {
                ops::replay_record(&mut h, &v);
            }
        }
        all_lines = h.lines;
        all_records = h.records;
    } else {
        // quick tier: the default suite; for the two properties about blinding LENGTHS (which differ per suite)
        // also CL2048 and CL3072 with assembled keys (gen::keygen_light). Thorough: CL1024 and CL2048 with real
        // key generation, plus CL3072 with assembled keys for those two properties.
        let length_props = prop == "C17" || prop == "C19";
        let suites: Vec<&'static str> = if thorough {
            if length_props { vec!["cl1024", "cl2048", "cl3072"] } else { vec!["cl1024", "cl2048"] }
        } else if length_props {
            vec!["cl1024", "cl2048", "cl3072"]
        } else {
            vec!["cl1024"]
        };
        for suite in suites {
            let mut h = H::new(suite, seed ^ fnv(&prop) ^ fnv(suite).rotate_left(13), thorough, next_id);
            gen::run(&mut h, &prop);
            history_pass(&mut h, &prop, if thorough { 150 } else { 25 });
            next_id = h.next_id;
            oracle_checks += h.oracle_checks;
            all_lines.append(&mut h.lines);
            all_records.append(&mut h.records);
            for f in h.fails {
                all_fails.push(serde_json::json!({"suite": suite, "class": f.class, "what": f.what, "lines": f.lines}));
            }
            for (k, v) in h.stats {
                *stats.entry(k).or_insert(0) += v;
            }
        }
    }
    std::fs::write(format!("{}/ops.txt", outdir), all_lines.join("\n") + "\n").unwrap();
    let recs: Vec<String> = all_records.iter().map(|r| r.to_string()).collect();
    std::fs::write(format!("{}/ops.jsonl", outdir), recs.join("\n") + "\n").unwrap();
    let oracle = serde_json::json!({
        "property": prop, "tier": tier, "seed": seed, "oracle_checks": oracle_checks,
        "failures": all_fails, "stats": stats, "ops": all_lines.len(),
    });
    std::fs::write(format!("{}/oracle.json", outdir), serde_json::to_string_pretty(&oracle).unwrap()).unwrap();
}
