fn main(){ println!("{}", zkryptium::utils::random::random_bits(64)); }
