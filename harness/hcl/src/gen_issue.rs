// C14: CL03 blind issuance for every hidden-attribute set, gating of the issuer, re-issuance
use super::*;
use crate::flat::*;
use crate::ops::*;
use crate::H;
use rug::Integer;
use serde_json::{json, Value};

pub struct Issue {
    pub msgs: Vec<Integer>,
    pub hidden: Vec<usize>,
    pub revealed_idx: Vec<usize>,
    pub c: Value,          // CL03Commitment {randomness, value}
    pub ct: Option<Value>, // trusted commitment
    pub cpk: Option<Value>,
    pub zk: Value,
    pub zk_tape: Vec<(String, Integer)>,
}

pub fn com_value(c: &Value) -> Value {
    c["value"].clone()
}

/// holder side: commitment to the hidden attributes and its proof of knowledge
pub fn holder(h: &mut H, k: &Keys, n: usize, hidden: &[usize], trusted: Option<&Value>, msgs: Vec<Integer>) -> Option<Issue> {
    let bases = k.bases[..n].to_vec();
    let (c, _) = call(h, "cl.commitpk", vec![k.pk.clone(), ivs(&bases), ivs(&msgs), uv(hidden)], vec![]);
    let c = c.ok()?.clone();
    let (ct, cpk) = match trusted {
        Some(cpk) => {
            let (ct, _) = call(h, "cl.commitcpk", vec![cpk.clone(), ivs(&msgs), uv(hidden)], vec![]);
            (Some(ct.ok()?.clone()), Some(cpk.clone()))
        }
        None => (None, None),
    };
    let (zk, zk_tape) = call(
        h,
        "cl.zkgen",
        vec![ivs(&msgs), c.clone(), ct.clone().unwrap_or(Value::Null), k.pk.clone(), ivs(&bases), cpk.clone().unwrap_or(Value::Null), uv(hidden)],
        vec![],
    );
    let zk = zk.ok()?.clone();
    let revealed_idx: Vec<usize> = (0..n).filter(|i| !hidden.contains(i)).collect();
    Some(Issue { msgs, hidden: hidden.to_vec(), revealed_idx, c, ct, cpk, zk, zk_tape })
}

pub fn zkverify(h: &mut H, k_pk: &Value, bases: &[Integer], zk: &Value, cv: &Value, ctv: Option<&Value>, cpk: Option<&Value>, hidden: &[usize]) -> Out {
    call(
        h,
        "cl.zkverify",
        vec![zk.clone(), cv.clone(), ctv.cloned().unwrap_or(Value::Null), k_pk.clone(), ivs(bases), cpk.cloned().unwrap_or(Value::Null), uv(hidden)],
        vec![],
    )
    .0
}

pub fn blindsign(h: &mut H, k: &Keys, bases: &[Integer], zk: &Value, revealed: &[Integer], c: &Value, ctv: Option<&Value>, cpk: Option<&Value>, hidden: &[usize], ridx: &[usize]) -> Out {
    call(
        h,
        "cl.blindsign",
        vec![
            k.pk.clone(), k.sk.clone(), ivs(bases), zk.clone(), ivs(revealed), c.clone(),
            ctv.cloned().unwrap_or(Value::Null), cpk.cloned().unwrap_or(Value::Null), uv(hidden), uv(ridx),
        ],
        vec![],
    )
    .0
}

pub fn c14(h: &mut H) {
    let p = params(h.suite);
    let nmax = if h.thorough { 5 } else { 3 };
    let k = keygen(h, nmax);
    let k2 = keygen(h, nmax);
    let (tcpk, _) = cpk(h, None, nmax); // trusted party: own modulus
    let mut leaf_budget = if h.thorough { 400 } else { 40 };
    for n in 1..=nmax {
        let bases = k.bases[..n].to_vec();
        for hidden in subsets(n).into_iter().filter(|u| !u.is_empty()) {
            let with_trusted = (hidden.len() + n) % 2 == 0;
            h.stat(&format!("C14.n={}.U={}.trusted={}", n, hidden.len(), with_trusted));
            let msgs = if hidden.len() % 2 == 0 { attrs_boundary(h, n, p.lm) } else { attrs(h, n) };
            let iss = match holder(h, &k, n, &hidden, if with_trusted { Some(&tcpk) } else { None }, msgs) {
                Some(i) => i,
                None => {
                    h.expect(false, "C14.holder", "commitment / generate_proof panicked on valid input", &[h.last()]);
                    continue;
                }
            };
            let gid = h.last();
            let ctv = iss.ct.as_ref().map(com_value);
            let cv = com_value(&iss.c);
            let v = zkverify(h, &k.pk, &bases, &iss.zk, &cv, ctv.as_ref(), iss.cpk.as_ref(), &hidden);
            h.expect(v.is_true(), "C14.verify_proof", "verify_proof(generate_proof(..)) != true", &[gid, h.last()]);
            let revealed: Vec<Integer> = iss.revealed_idx.iter().map(|&i| iss.msgs[i].clone()).collect();
            let bs = blindsign(h, &k, &bases, &iss.zk, &revealed, &iss.c, ctv.as_ref(), iss.cpk.as_ref(), &hidden, &iss.revealed_idx);
            let bid = h.last();
            h.expect(bs.ok().is_some(), "C14.blind_sign", "blind_sign refused an honest request", &[gid, bid]);
            let bsig = match bs.ok() { Some(b) => b.clone(), None => continue };
            let (sig, _) = call(h, "cl.unblind", vec![bsig.clone(), iss.c.clone()], vec![]);
            let sig = sig.ok().unwrap().clone();
            let v = verifym(h, &k.pk, &bases, &sig, &iss.msgs);
            h.expect(v.is_true(), "C14.issued_verifies", "unblinded signature does not verify on the full attribute vector", &[bid, h.last()]);
            // the two public "extend a commitment by revealed attributes" helpers, called directly:
            // extend_commitment_with_pk takes the revealed values by running counter,
            // extend_commitment_with_commitment_pk the full vector by attribute position
            {
                let want = |start: &Integer, bs: &[Integer], modn: &Integer| -> Integer {
                    let mut acc = start.clone();
                    for &i in &iss.revealed_idx {
                        acc = Integer::from(&acc * powm(&bs[i], &iss.msgs[i], modn)) % modn;
                    }
                    acc
                };
                let (e1, _) = call(h, "cl.extend", vec![iss.c.clone(), ivs(&revealed), k.pk.clone(), ivs(&bases), uv(&iss.revealed_idx)], vec![]);
                h.stat("C14.extend_pk");
                match e1.ok() {
                    Some(c2) => h.expect(field(c2, "value") == want(&field(&iss.c, "value"), &bases, &k.n_mod) && c2["randomness"] == iss.c["randomness"], "C14.extend_pk", "extend_commitment_with_pk is not C * prod a_i^m_i over the revealed positions", &[h.last()]),
                    None => h.expect(false, "C14.extend_pk_panic", "extend_commitment_with_pk panicked on valid input", &[h.last()]),
                }
                // the same positions listed in DESCENDING order (values listed accordingly): the same product,
                // and an issuance with the lists in that order yields a signature on the same vector
                if iss.revealed_idx.len() >= 2 {
                    let mut ri = iss.revealed_idx.clone();
                    ri.reverse();
                    let mut rv = revealed.clone();
                    rv.reverse();
                    let (e5, _) = call(h, "cl.extend", vec![iss.c.clone(), ivs(&rv), k.pk.clone(), ivs(&bases), uv(&ri)], vec![]);
                    h.stat("C14.extend_pk_unsorted");
                    match e5.ok() {
                        Some(c2) => h.expect(field(c2, "value") == want(&field(&iss.c, "value"), &bases, &k.n_mod), "C14.extend_pk_unsorted", "extend_commitment_with_pk binds a revealed value to the wrong position when the positions are not listed in ascending order", &[h.last()]),
                        None => h.expect(false, "C14.extend_pk_panic", "extend_commitment_with_pk panicked on valid input", &[h.last()]),
                    }
                    let bs2 = blindsign(h, &k, &bases, &iss.zk, &rv, &iss.c, ctv.as_ref(), iss.cpk.as_ref(), &hidden, &ri);
                    let b2id = h.last();
                    if let Some(b2) = bs2.ok().cloned() {
                        let (sig2, _) = call(h, "cl.unblind", vec![b2, iss.c.clone()], vec![]);
                        if let Some(sig2) = sig2.ok().cloned() {
                            let v = verifym(h, &k.pk, &bases, &sig2, &iss.msgs);
                            h.expect(v.is_true(), "C14.issued_verifies_unsorted", "signature issued with the revealed positions listed in descending order does not verify on the attribute vector", &[b2id, h.last()]);
                        }
                    } else {
                        h.expect(false, "C14.blind_sign_unsorted", "blind_sign refused an honest request whose revealed positions are listed in descending order", &[b2id]);
                    }
                }
                if let (Some(ct), Some(cp)) = (&iss.ct, &iss.cpk) {
                    let gs = gbases(cp);
                    let nn = field(cp, "N");
                    let (e2, _) = call(h, "cl.extendcpk", vec![ct.clone(), ivs(&iss.msgs), cp.clone(), uv(&iss.revealed_idx)], vec![]);
                    h.stat("C14.extend_cpk");
                    match e2.ok() {
                        Some(c2) => h.expect(field(c2, "value") == want(&field(ct, "value"), &gs, &nn), "C14.extend_cpk", "extend_commitment_with_commitment_pk is not C * prod g_i^m_i over the revealed positions", &[h.last()]),
                        None => h.expect(false, "C14.extend_cpk_panic", "extend_commitment_with_commitment_pk panicked on valid input", &[h.last()]),
                    }
                    // position out of range: both helpers refuse (panic), never extend by something else
                    let (e3, _) = call(h, "cl.extendcpk", vec![ct.clone(), ivs(&iss.msgs), cp.clone(), uv(&[gs.len() + 1])], vec![]);
                    h.expect(e3.ok().is_none(), "C14.extend_cpk_range", "extend_commitment_with_commitment_pk accepted a position beyond the key", &[h.last()]);
                }
                let (e4, _) = call(h, "cl.extend", vec![iss.c.clone(), ivs(&revealed), k.pk.clone(), ivs(&bases), uv(&vec![n + 3; revealed.len().max(1)])], vec![]);
                if !revealed.is_empty() {
                    h.expect(e4.ok().is_none(), "C14.extend_pk_range", "extend_commitment_with_pk accepted a position beyond the bases", &[h.last()]);
                }
            }

            // ---- the issuer must not sign on mismatches
            let gate = |h: &mut H, class: &str, bases_: &[Integer], zk: &Value, c: &Value, ctv_: Option<&Value>, cpk_: Option<&Value>, hid: &[usize], pkk: &Keys| {
                h.stat(&format!("C14.mismatch.{}", class));
                let v = zkverify(h, &pkk.pk, bases_, zk, &com_value(c), ctv_, cpk_, hid);
                let vid = h.last();
                h.expect(!v.is_true(), &format!("C14.{}", class), "verify_proof accepted a mismatching proof", &[vid]);
                let ridx: Vec<usize> = (0..bases_.len()).filter(|i| !hid.contains(i)).collect();
                let rev: Vec<Integer> = ridx.iter().map(|_| Integer::from(5)).collect();
                let b = blindsign(h, pkk, bases_, zk, &rev, c, ctv_, cpk_, hid, &ridx);
                h.expect(b.ok().is_none(), &format!("C14.{}_signed", class), "blind_sign returned a signature although the proof does not match", &[vid, h.last()]);
            };
            // commitment to other attributes
            let mut other = iss.msgs.clone();
            other[hidden[0]] = hash_attr(h);
            let (c2, _) = call(h, "cl.commitpk", vec![k.pk.clone(), ivs(&bases), ivs(&other), uv(&hidden)], vec![]);
            if let Some(c2) = c2.ok().cloned() {
                gate(h, "other_commitment", &bases, &iss.zk, &c2, ctv.as_ref(), iss.cpk.as_ref(), &hidden, &k);
            }
            // other hidden set of the same size
            if n > hidden.len() {
                let mut u2 = hidden.clone();
                let free = (0..n).find(|i| !hidden.contains(i)).unwrap();
                u2[0] = free;
                u2.sort();
                gate(h, "other_hidden_set", &bases, &iss.zk, &iss.c, ctv.as_ref(), iss.cpk.as_ref(), &u2, &k);
            }
            // the issuer is told an EMPTY hidden set, or a larger one, for a proof made for `hidden`
            gate(h, "hidden_set_empty", &bases, &iss.zk, &iss.c, ctv.as_ref(), iss.cpk.as_ref(), &[], &k);
            if n > hidden.len() {
                let mut u3 = hidden.clone();
                u3.push((0..n).find(|i| !hidden.contains(i)).unwrap());
                u3.sort();
                gate(h, "hidden_set_larger", &bases, &iss.zk, &iss.c, ctv.as_ref(), iss.cpk.as_ref(), &u3, &k);
            }
            if hidden.len() > 1 {
                gate(h, "hidden_set_smaller", &bases, &iss.zk, &iss.c, ctv.as_ref(), iss.cpk.as_ref(), &hidden[1..].to_vec(), &k);
            }
            // other bases / other issuer key
            if hidden.iter().any(|&i| iss.msgs[i] != 0) {
                // (hidden attributes all 0: the bases do not enter the statement, a^0 = 1 -- DESIGN O7)
                gate(h, "other_bases", &k2.bases[..n].to_vec(), &iss.zk, &iss.c, ctv.as_ref(), iss.cpk.as_ref(), &hidden, &k);
            }
            if hidden.len() == 1 {
                gate(h, "other_key", &k2.bases[..n].to_vec(), &iss.zk, &iss.c, ctv.as_ref(), iss.cpk.as_ref(), &hidden, &k2);
            }
            // other trusted commitment
            if with_trusted {
                let (ct2, _) = call(h, "cl.commitcpk", vec![tcpk.clone(), ivs(&other), uv(&hidden)], vec![]);
                if let Some(ct2) = ct2.ok() {
                    let v2 = com_value(ct2);
                    gate(h, "other_trusted", &bases, &iss.zk, &iss.c, Some(&v2), iss.cpk.as_ref(), &hidden, &k);
                }
            }
            // a trusted commitment handed to the issuer although the proof has no sub-proof for it
            if !with_trusted {
                let (ctx, _) = call(h, "cl.commitcpk", vec![tcpk.clone(), ivs(&other), uv(&hidden)], vec![]);
                if let Some(ctx) = ctx.ok() {
                    let v2 = com_value(ctx);
                    gate(h, "trusted_without_subproof", &bases, &iss.zk, &iss.c, Some(&v2), Some(&tcpk), &hidden, &k);
                }
            } else {
                // the sub-proof removed from a proof that had one
                let mut z = iss.zk.clone();
                z["proof_C_Ctrusted"] = Value::Null;
                gate(h, "trusted_subproof_removed", &bases, &z, &iss.c, ctv.as_ref(), iss.cpk.as_ref(), &hidden, &k);
            }
            // proofs produced by the real prover from a witness that does not fit the statement
            {
                // (i) the prover claims other hidden attributes than the ones committed in C
                let (zl, _) = call(h, "cl.zkgen", vec![ivs(&other), iss.c.clone(), iss.ct.clone().unwrap_or(Value::Null), k.pk.clone(), ivs(&bases), iss.cpk.clone().unwrap_or(Value::Null), uv(&hidden)], vec![]);
                if let Some(zl) = zl.ok().cloned() {
                    gate(h, "witness_other_attributes", &bases, &zl, &iss.c, ctv.as_ref(), iss.cpk.as_ref(), &hidden, &k);
                }
                // (ii) C and C_trusted commit to different attributes; the prover knows both openings
                if with_trusted {
                    let (ct2, _) = call(h, "cl.commitcpk", vec![tcpk.clone(), ivs(&other), uv(&hidden)], vec![]);
                    if let Some(ct2) = ct2.ok().cloned() {
                        let (zl, _) = call(h, "cl.zkgen", vec![ivs(&iss.msgs), iss.c.clone(), ct2.clone(), k.pk.clone(), ivs(&bases), iss.cpk.clone().unwrap_or(Value::Null), uv(&hidden)], vec![]);
                        if let Some(zl) = zl.ok().cloned() {
                            let v2 = com_value(&ct2);
                            gate(h, "witness_trusted_differs", &bases, &zl, &iss.c, Some(&v2), iss.cpk.as_ref(), &hidden, &k);
                        }
                    }
                }
            }
            // minimum / maximum blindings (boundary tapes): the proof must still verify
            for mx in [false, true] {
                let bt = boundary_tape(&iss.zk_tape, mx);
                let (zb, _) = call(
                    h,
                    "cl.zkgen",
                    vec![ivs(&iss.msgs), iss.c.clone(), iss.ct.clone().unwrap_or(Value::Null), k.pk.clone(), ivs(&bases), iss.cpk.clone().unwrap_or(Value::Null), uv(&hidden)],
                    bt,
                );
                let zid = h.last();
                if let Some(zb) = zb.ok().cloned() {
                    let v = zkverify(h, &k.pk, &bases, &zb, &cv, ctv.as_ref(), iss.cpk.as_ref(), &hidden);
                    h.expect(v.is_true(), "C14.boundary_tape", "proof generated with extreme blindings does not verify", &[zid, h.last()]);
                } else {
                    h.expect(false, "C14.boundary_tape_gen", "generate_proof panicked on an extreme-blinding tape", &[zid]);
                }
                if hidden.len() > 1 { break; }
            }
            // field-wise edits of the serialized ZKPoK
            let mut lv = Vec::new();
            leaves(&iss.zk, String::new(), &mut lv);
            // group elements replaced by their NEGATIVES modulo N (the family behind findings F16-F20): one class per kind
            // of field, so that the known ones are listed one by one and anything else is a violation
            if n <= 2 && !with_trusted {
                for (li, (path, val)) in lv.iter().enumerate() {
                    if *val <= 0 || *val >= k.n_mod || val.significant_bits() + 64 < k.n_mod.significant_bits() { continue; }
                    if path.ends_with(".C") || path.ends_with(".challenge") || path.ends_with(".randomness") { continue; }
                    let last = path.rsplit('.').next().unwrap_or("");
                    let stem = last.split('[').next().unwrap_or("");
                    if stem.starts_with("s_") || stem.starts_with("D_") || stem == "d" || stem.starts_with("d_") || stem == "s1" || stem == "s2" { continue; }
                    let mut z = iss.zk.clone();
                    let mut cnt = 0usize;
                    let nn = k.n_mod.clone();
                    let f = move |x: &Integer| Integer::from(&nn - x);
                    map_leaf(&mut z, &mut cnt, li, &f);
                    h.stat("C14.leaf_negated");
                    let v = zkverify(h, &k.pk, &bases, &z, &cv, ctv.as_ref(), iss.cpk.as_ref(), &hidden);
                    let class = if path.ends_with(".F") { "C14.leaf_negated_F".to_string() }
                        else if path.ends_with("].E") || path.ends_with(".E") { "C14.leaf_negated_E".to_string() }
                        else { format!("C14.leaf_negated:{}", stem) };
                    h.expect(!v.is_true(), &class, &format!("verify_proof accepted a proof with the group element {} replaced by its negative modulo N", path), &[h.last()]);
                }
            }
            // every leaf replaced by another representative of the same residue modulo N (value + N, value - N)
            if n <= 2 {
                for (li, (path, _)) in lv.iter().enumerate() {
                    if path.ends_with(".randomness") { continue; }
                    for sign in [1i32, -1] {
                        let mut z = iss.zk.clone();
                        let mut cnt = 0usize;
                        let nn = k.n_mod.clone();
                        let f = move |x: &Integer| if sign > 0 { Integer::from(x + &nn) } else { Integer::from(x - &nn) };
                        map_leaf(&mut z, &mut cnt, li, &f);
                        h.stat("C14.leaf_plus_N");
                        let v = zkverify(h, &k.pk, &bases, &z, &cv, ctv.as_ref(), iss.cpk.as_ref(), &hidden);
                        h.expect(!v.is_true(), "C14.leaf_other_representative", &format!("verify_proof accepted a proof with field {} replaced by value {} N", path, if sign > 0 { "+" } else { "-" }), &[h.last()]);
                    }
                }
            }
            let picks: Vec<usize> = if h.thorough && hidden.len() == 1 { (0..lv.len()).collect() } else {
                let take = (leaf_budget as usize).min(6);
                (0..take).map(|_| h.rng.below(lv.len() as u64) as usize).collect()
            };
            for li in picks {
                if leaf_budget == 0 { break; }
                let (path, old) = lv[li].clone();
                // `randomness` leaves are zero placeholders nobody reads: an edit there is no edit
                if path.ends_with(".randomness") { continue; }
                leaf_budget -= 1;
                let edit = h.rng.below(3);
                let mut z = iss.zk.clone();
                let mut cnt = 0usize;
                let f: Box<dyn Fn(&Integer) -> Integer> = match edit {
                    0 => Box::new(|x| Integer::from(x + 1u32)),
                    1 => Box::new(|x| Integer::from(x - 1u32)),
                    _ => Box::new(|_| Integer::from(0)),
                };
                map_leaf(&mut z, &mut cnt, li, &*f);
                if edit == 2 && old == 0 { continue; }
                h.stat("C14.leaf_edit");
                let v = zkverify(h, &k.pk, &bases, &z, &cv, ctv.as_ref(), iss.cpk.as_ref(), &hidden);
                h.expect(!v.is_true(), "C14.leaf_edit", &format!("verify_proof accepted a proof with field {} altered", path), &[h.last()]);
            }
            // re-issuing after changing a revealed attribute (each revealed position in turn, then all)
            for which in 0..=iss.revealed_idx.len() {
                if iss.revealed_idx.is_empty() { break; }
                let mut newrev = revealed.clone();
                if which < iss.revealed_idx.len() {
                    newrev[which] = hash_attr(h);
                } else {
                    for x in newrev.iter_mut() { *x = hash_attr(h); }
                }
                let (ub, _) = call(h, "cl.update", vec![bsig.clone(), ivs(&newrev), iss.c.clone(), k.sk.clone(), k.pk.clone(), ivs(&bases), uv(&iss.revealed_idx)], vec![]);
                let uid = h.last();
                if let Some(ub) = ub.ok().cloned() {
                    let (s2, _) = call(h, "cl.unblind", vec![ub, iss.c.clone()], vec![]);
                    let s2 = s2.ok().unwrap().clone();
                    let mut updated = iss.msgs.clone();
                    for (pos, &ri) in iss.revealed_idx.iter().enumerate() {
                        updated[ri] = newrev[pos].clone();
                    }
                    let v = verifym(h, &k.pk, &bases, &s2, &updated);
                    h.expect(v.is_true(), "C14.update_new", "re-issued signature does not verify on the updated vector", &[uid, h.last()]);
                    let v = verifym(h, &k.pk, &bases, &s2, &iss.msgs);
                    h.expect(!v.is_true(), "C14.update_old", "re-issued signature still verifies on the old vector", &[uid, h.last()]);
                } else {
                    h.expect(false, "C14.update", "update_signature panicked", &[uid]);
                }
            }
        }
    }
    // caller-supplied bases that are NOT quadratic residues (N - a_i; `Bases` is a public tuple struct) with odd
    // attributes: issuance, unblinding and re-issuance still yield verifying signatures (several runs: a slip in
    // the exponent arithmetic shows for about every second e only)
    {
        let n = 3usize;
        for variant in 0..2 {
            let mut nb = k.bases.clone();
            // (exactly ONE negated base: two negations with odd attributes cancel)
            let neg_at = if variant == 0 { 1 } else { 0 };
            nb[neg_at] = Integer::from(&k.n_mod - &nb[neg_at]);
            let kn = Keys { pk: k.pk.clone(), sk: k.sk.clone(), n_mod: k.n_mod.clone(), p: k.p.clone(), q: k.q.clone(), bases: nb.clone(), tape: vec![] };
            let bases = nb[..n].to_vec();
            // (a slip shows for every second exponent e only, and re-issuance keeps e: 6 + 6 independent exponents)
            let reps = if h.thorough { 12 } else { 6 };
            for rep in 0..reps {
                let hidden: Vec<usize> = [vec![0usize], vec![1], vec![0, 2], vec![1, 2]][rep % 4].clone();
                let mut msgs = attrs(h, n);
                for m in msgs.iter_mut() { *m |= Integer::from(1); }
                h.stat("C14.nonresidue_bases");
                let iss = match holder(h, &kn, n, &hidden, None, msgs) {
                    Some(i) => i,
                    None => { h.expect(false, "C14.holder", "commitment / generate_proof panicked on valid input (non-residue base)", &[h.last()]); continue; }
                };
                let gid = h.last();
                let cv = com_value(&iss.c);
                let v = zkverify(h, &kn.pk, &bases, &iss.zk, &cv, None, None, &hidden);
                h.expect(v.is_true(), "C14.verify_proof", "verify_proof(generate_proof(..)) != true over a non-residue base", &[gid, h.last()]);
                let revealed: Vec<Integer> = iss.revealed_idx.iter().map(|&i| iss.msgs[i].clone()).collect();
                let bs = blindsign(h, &kn, &bases, &iss.zk, &revealed, &iss.c, None, None, &hidden, &iss.revealed_idx);
                let bid = h.last();
                let bsig = match bs.ok() { Some(b) => b.clone(), None => { h.expect(false, "C14.blind_sign", "blind_sign refused an honest request over a non-residue base", &[gid, bid]); continue; } };
                let (sig, _) = call(h, "cl.unblind", vec![bsig.clone(), iss.c.clone()], vec![]);
                if let Some(sig) = sig.ok().cloned() {
                    let v = verifym(h, &kn.pk, &bases, &sig, &iss.msgs);
                    h.expect(v.is_true(), "C14.issued_verifies_nonresidue", "unblinded signature over a caller-supplied non-residue base does not verify on the full attribute vector", &[bid, h.last()]);
                }
                // re-issuance: the first revealed attribute changes from odd to another odd value
                if !iss.revealed_idx.is_empty() {
                    let mut newrev = revealed.clone();
                    newrev[0] = Integer::from(hash_attr(h) | Integer::from(1));
                    let (ub, _) = call(h, "cl.update", vec![bsig.clone(), ivs(&newrev), iss.c.clone(), kn.sk.clone(), kn.pk.clone(), ivs(&bases), uv(&iss.revealed_idx)], vec![]);
                    let uid = h.last();
                    if let Some(ub) = ub.ok().cloned() {
                        let (s2, _) = call(h, "cl.unblind", vec![ub, iss.c.clone()], vec![]);
                        if let Some(s2) = s2.ok().cloned() {
                            let mut updated = iss.msgs.clone();
                            updated[iss.revealed_idx[0]] = newrev[0].clone();
                            let v = verifym(h, &kn.pk, &bases, &s2, &updated);
                            h.expect(v.is_true(), "C14.update_new_nonresidue", "re-issued signature over a non-residue base does not verify on the updated vector", &[uid, h.last()]);
                        }
                    }
                }
            }
        }
    }
    let _ = json!(0);
}
