use crate::H;
pub fn c17(_h: &mut H) {}
pub fn c19(_h: &mut H) {}
