// C17 (proofs do not carry openings), C19 (responses statistically mask their secrets)
use super::gen_issue::{holder, Issue};
use super::gen_pok::{make_pok, pokverify, Pok};
use super::*;
use crate::flat::*;
use crate::H;
use rug::Integer;
use serde_json::Value;
use sha2::{Digest, Sha256};

fn hash_ints(l: &[&Integer]) -> Integer {
    let mut s = String::new();
    for i in l {
        s += &i.to_string();
    }
    Integer::from_digits(&Sha256::digest(s.as_bytes()), rug::integer::Order::MsfBe)
}

/// every (value, randomness)-shaped object in a serialized proof
fn commitments(v: &Value, path: String, out: &mut Vec<(String, Integer, Integer)>) {
    match v {
        Value::Array(a) => {
            for (i, x) in a.iter().enumerate() {
                commitments(x, format!("{}[{}]", path, i), out);
            }
        }
        Value::Object(m) => {
            if m.len() == 2 && m.contains_key("value") && m.contains_key("randomness") && is_int(&m["value"]) {
                out.push((path, int_of(&m["value"]), int_of(&m["randomness"])));
            } else if !is_int(v) {
                for (k, x) in m {
                    commitments(x, format!("{}.{}", path, k), out);
                }
            }
        }
        _ => {}
    }
}

fn setup(h: &mut H) -> (Keys, Value, Vec<Issue>, Vec<Pok>) {
    let p = params(h.suite);
    let n = 3usize;
    let k = keygen_for(h, n);
    let (ck, _) = cpk(h, Some(&k.n_mod), n);
    let mut issues = Vec::new();
    let mut poks = Vec::new();
    let mut tcpk: Option<Value> = None;
    let subs: Vec<Vec<usize>> = if h.thorough { subsets(n) } else { vec![vec![0], vec![1], vec![0, 2], vec![0, 1, 2], vec![]] };
    for u in subs {
        // hidden attributes are hash outputs (>= 2^200 with overwhelming probability), as the API produces
        // hidden attributes are hash outputs (>= 2^200 with overwhelming probability), as the API produces; one
        // subset uses the boundary vector instead (0 and 2^lm - 1 are legal attribute values)
        let msgs = if u.len() == 2 { attrs_boundary(h, n, p.lm) } else { attrs(h, n) };
        if !u.is_empty() {
            // the same issuance WITH a trusted-party commitment (own modulus): its sub-proof that C and C_trusted
            // hide the same attributes answers for every hidden attribute once more
            if u.len() >= 2 || h.thorough {
                if tcpk.is_none() {
                    // (an own-modulus key needs a safe-prime search: only for the default suite / thorough tier)
                    tcpk = Some(if h.suite == "cl1024" || (h.thorough && h.suite == "cl2048") { cpk(h, None, n).0 } else { cpk(h, Some(&k.n_mod), n).0 });
                }
                if let Some(i) = holder(h, &k, n, &u, tcpk.as_ref(), msgs.clone()) {
                    issues.push(i);
                }
            }
            if let Some(i) = holder(h, &k, n, &u, None, msgs.clone()) {
                // the same commitment re-randomised by the holder to an opening randomness with LEADING ZERO bits
                // (CL03Commitment is a public struct; a uniformly drawn r < 2^ln has them half of the time): the
                // issuance proof must mask it like any other ln-bit secret
                if u.len() == 1 || h.thorough {
                    let r0 = field(&i.c, "randomness");
                    let b = field(&k.pk, "b");
                    for sh in [1u32, 200] {
                        let r2 = Integer::from(&r0 >> sh);
                        let delta = Integer::from(&r2 - &r0);
                        let v2 = Integer::from(field(&i.c, "value") * powm(&b, &delta, &k.n_mod)) % &k.n_mod;
                        let mut c2 = i.c.clone();
                        c2["randomness"] = iv(&r2);
                        c2["value"] = iv(&v2);
                        let (z2, t2) = crate::ops::call(h, "cl.zkgen", vec![ivs(&i.msgs), c2.clone(), Value::Null, k.pk.clone(), ivs(&k.bases[..n]), Value::Null, uv(&u)], vec![]);
                        if let Some(z2) = z2.ok().cloned() {
                            let v = super::gen_issue::zkverify(h, &k.pk, &k.bases[..n].to_vec(), &z2, &c2["value"], None, None, &u);
                            h.expect(v.is_true(), "C14.short_randomness", "an issuance proof for a commitment whose opening randomness has leading zero bits does not verify", &[h.last()]);
                            issues.push(Issue { msgs: i.msgs.clone(), hidden: i.hidden.clone(), revealed_idx: i.revealed_idx.clone(), c: c2, ct: None, cpk: None, zk: z2, zk_tape: t2 });
                        }
                    }
                }
                let bt = boundary_tape(&i.zk_tape, false);
                let (zb, tb) = crate::ops::call(
                    h,
                    "cl.zkgen",
                    vec![ivs(&i.msgs), i.c.clone(), Value::Null, k.pk.clone(), ivs(&k.bases[..n]), Value::Null, uv(&u)],
                    bt,
                );
                if let Some(zb) = zb.ok().cloned() {
                    issues.push(Issue { msgs: i.msgs.clone(), hidden: i.hidden.clone(), revealed_idx: i.revealed_idx.clone(), c: i.c.clone(), ct: None, cpk: None, zk: zb, zk_tape: tb });
                }
                issues.push(i);
            }
        }
        if let Some(pk) = make_pok(h, &k, &ck, n, &u, msgs) {
            // the same proof with every blinding at the MINIMUM of its contract (worst case for masking)
            let bt = boundary_tape(&pk.tape, false);
            let (pb, tb) = crate::ops::call(h, "cl.pokgen", vec![pk.sig.clone(), ck.clone(), k.pk.clone(), ivs(&k.bases[..n]), ivs(&pk.msgs), uv(&u)], bt);
            if let Some(pb) = pb.ok().cloned() {
                poks.push(Pok { msgs: pk.msgs.clone(), hidden: pk.hidden.clone(), revealed: pk.revealed.clone(), sig: pk.sig.clone(), pok: pb, tape: tb });
            }
            poks.push(pk);
        }
        // the same hidden set handed over in DESCENDING order: whatever the prover makes of such a list (on the
        // pinned tree prover and verifier walk it differently and the proof does not verify -- observation O11,
        // the API is used with ascending lists), what it SENDS must hide the attributes just as well
        if u.len() >= 2 {
            let mut ur = u.clone();
            ur.reverse();
            let msgs2 = attrs(h, n);
            if let Some(pk) = make_pok(h, &k, &ck, n, &ur, msgs2) {
                let v = pokverify(h, &pk.pok, &ck, &k.pk, &k.bases[..n].to_vec(), &pk.revealed, &ur, n);
                h.stat(if v.is_true() { "leak.hidden_descending.verifies" } else { "leak.hidden_descending.does_not_verify" });
                poks.push(pk);
            }
        }
    }
    let _ = p;
    (k, ck, issues, poks)
}

/// the recorded draws of a generation with the production randomness: every free blinding (a `bits` draw that
/// does not feed `next_prime`) is a fresh random value -- not a boundary constant of its contract
/// (2^(k-1), 2^k - 1) and not equal to another blinding of the same proof. A blinding that is a constant or is
/// shared between two secrets can be subtracted / cancelled by the recipient, whatever its length.
fn tape_randomness(h: &mut H, class: &str, what: &str, tape: &[(String, Integer)], id: u64) {
    let free: Vec<&Integer> = tape
        .iter()
        .enumerate()
        .filter(|(i, (k, v))| k == "bits" && *v > 0 && !(i + 1 < tape.len() && tape[i + 1].0 == "prime"))
        .map(|(_, (_, v))| v)
        .collect();
    let mut seen = std::collections::BTreeSet::new();
    for v in &free {
        let k = v.significant_bits();
        if k < 64 { continue; }
        let boundary = **v == pow2(k - 1) || **v == Integer::from(pow2(k) - 1u32);
        h.expect(!boundary, class, &format!("{}: a {}-bit blinding is the boundary constant of its range, not a random value", what, k), &[id]);
        h.expect(seen.insert((*v).clone()), class, &format!("{}: two {}-bit blindings of one proof are equal", what, k), &[id]);
    }
}

pub fn c17(h: &mut H) {
    let (k, ck, issues, poks) = setup(h);
    let n = &k.n_mod;
    let b = field(&k.pk, "b");
    let hh = field(&ck, "h");
    let gs: Vec<Integer> = gbases(&ck);
    let mut pairs: Vec<(Integer, Integer)> = k.bases.iter().map(|a| (a.clone(), b.clone())).collect();
    pairs.extend(gs.iter().map(|g| (g.clone(), hh.clone())));
    // attacker computations of the property on everything a prover sends
    let mut memo: std::collections::HashMap<(Integer, Integer), Integer> = std::collections::HashMap::new();
    let mut pm = move |b: &Integer, e: &Integer, n: &Integer| -> Integer {
        memo.entry((b.clone(), e.clone())).or_insert_with(|| powm(b, e, n)).clone()
    };
    // proofs re-generated from a boundary tape have all blindings at the minimum of their contract, hence EQUAL
    // blindings by construction: the difference test (5) is about real randomness and skips them
    let is_boundary = |tape: &[(String, Integer)]| -> bool {
        let free: Vec<&Integer> = tape.iter().enumerate().filter(|(i, (k, v))| k == "bits" && *v > 0 && !(i + 1 < tape.len() && tape[i + 1].0 == "prime")).map(|(_, (_, v))| v).collect();
        free.len() >= 2 && free.iter().all(|v| **v == pow2(v.significant_bits() - 1))
    };
    let mut run = |h: &mut H, what: &str, proof: &Value, secrets: &[(String, Integer)], v_sig: Option<&Integer>, id: u64, real_randomness: bool, public_values: &[(String, Integer)]| {
        let mut cs = Vec::new();
        commitments(proof, String::new(), &mut cs);
        // (6) relations BETWEEN commitments: two commitments that share their randomness divide to g^x, which a
        // recipient confirms for a guessed x with one exponentiation. All commitment values of the proof and the
        // public ones that go with it (the commitment C of an issuance). (Boundary tapes give equal randomness by
        // construction and are skipped.)
        if real_randomness {
            let mut vals: Vec<(String, Integer)> = cs.iter().map(|(p, v, _)| (p.clone(), v.clone())).collect();
            vals.extend(public_values.iter().cloned());
            let bases_all: Vec<Integer> = k.bases.iter().chain(gs.iter()).cloned().collect();
            for (p1, v1) in &vals {
                for (p2, v2) in &vals {
                    if p1 == p2 || v1 == v2 { continue; }
                    let inv = match v2.clone().invert(n) { Ok(i) => i, Err(_) => continue };
                    let q = Integer::from(v1 * &inv) % n;
                    let mut table: Vec<(String, Integer)> = Vec::new();
                    for g in &bases_all {
                        for (sn, x) in secrets.iter().take(4) {
                            if *x == 0 { continue; }
                            let t = pm(g, x, n);
                            h.expect(t != q, "C17.commitment_relation", &format!("{}: {} / {} equals base^{}: the two commitments share their randomness and a guess of {} is confirmed with one exponentiation", what, p1, p2, sn, sn), &[id]);
                            table.push((sn.clone(), t));
                        }
                    }
                    // ... or to g^x / g'^x' (each commitment hides its own attribute under the SAME randomness):
                    // a guessed pair is confirmed
                    for (s1, t1) in &table {
                        for (s2, t2) in &table {
                            if s1 == s2 { continue; }
                            h.expect(Integer::from(&q * t2) % n != *t1, "C17.commitment_relation", &format!("{}: {} / {} equals base^{} / base'^{}: the two commitments share their randomness and a guessed pair of hidden values is confirmed", what, p1, p2, s1, s2), &[id]);
                        }
                    }
                }
            }
        }
        let mut lv = Vec::new();
        leaves(proof, String::new(), &mut lv);
        h.stat(&format!("C17.{}.commitments", what));
        let tape_artefact = !real_randomness && secrets.iter().any(|(_, x)| x.clone().abs() < two64());
        for (path, value, rnd) in &cs {
            // (1) the embedded randomness must not open the commitment to any secret under any public base pair
            for (g, hb) in &pairs {
                for (sn, x) in secrets {
                    let open = Integer::from(pm(g, x, n) * pm(hb, rnd, n)) % n;
                    h.expect(open != *value, "C17.opening_embedded", &format!("{}: {} opens to secret {} with the randomness sent next to it", what, path, sn), &[id]);
                }
            }
            // (2) no integer leaf anywhere in the proof is an opening randomness for this value
            // (a proof regenerated from a boundary tape has EQUAL minimal blindings by construction; when a hidden
            // attribute is 0 its response IS such a blinding and coincides with the minimal commitment randomness
            // of every commitment -- an artefact of the tape, so that combination is skipped)
            for (lp, leaf) in &lv {
                if *leaf < 0 || tape_artefact {
                    continue;
                }
                for (g, hb) in &pairs {
                    for (sn, x) in secrets.iter().take(4) {
                        // (a proof regenerated from a boundary tape has EQUAL minimal blindings by construction; for a
                        // secret 0 a response then equals the commitment randomness -- an artefact of the tape)
                        let open = Integer::from(pm(g, x, n) * pm(hb, leaf, n)) % n;
                        h.expect(open != *value, "C17.opening_leaf", &format!("{}: {} opens to {} with field {}", what, path, sn, lp), &[id]);
                    }
                }
                // (3) value * g^(-leaf) must not be v
                if let Some(v) = v_sig {
                    for g in gs.iter().chain(k.bases.iter()) {
                        let rec = Integer::from(value * pm(g, &Integer::from(-leaf), n)) % n;
                        h.expect(rec != *v, "C17.recover_v", &format!("{}: signature component v recovered as {} * g^(-{})", what, path, lp), &[id]);
                    }
                }
            }
            h.expect(*rnd == 0, "C17.randomness_sent", &format!("{}: {} carries a non-zero randomness field", what, path), &[id]);
        }
        // (4) two-candidate dictionary attack: from the proof alone (value + any field as randomness), can the
        // committed attribute be told apart from a decoy?
        for (sn, x) in secrets.iter().take(3) {
            if tape_artefact { break; }
            let decoy = Integer::from(x ^ Integer::from(1u32 << 7));
            let mut hit_true = false;
            let mut hit_decoy = false;
            for (_p, value, _r) in &cs {
                for (_lp, leaf) in &lv {
                    if *leaf < 0 { continue; }
                    for (g, hb) in &pairs {
                        let hr = pm(hb, leaf, n);
                        if Integer::from(pm(g, x, n) * &hr) % n == *value { hit_true = true; }
                        if Integer::from(pm(g, &decoy, n) * &hr) % n == *value { hit_decoy = true; }
                    }
                }
            }
            h.expect(hit_true == hit_decoy, "C17.dictionary", &format!("{}: a two-candidate dictionary attack identifies {}", what, sn), &[id]);
            // the same attack through quotients of fields of the proof (a response divided by a challenge or by
            // another response), with a decoy far from the true value
            // (a secret below 2^64, e.g. the legal attribute 0 or 1, is "near" the quotient of any two leaves of
            // similar size: the quotient attack is meaningful for large secrets only; zero responses are C19's)
            if x.clone().abs() < two64() { continue; }
            let far_decoy = Integer::from(x + (Integer::from(1) << 128u32));
            let mut q_true = false;
            let mut q_decoy = false;
            let mut witness = String::new();
            for (lp, sv) in &lv {
                if *sv <= 0 { continue; }
                for (lp2, cv) in &lv {
                    if *cv <= 1 || lp == lp2 || sv.significant_bits() < cv.significant_bits() { continue; }
                    let q = Integer::from(sv / cv);
                    if !far(&q, x) { q_true = true; witness = format!("floor({} / {})", lp, lp2); }
                    if !far(&q, &far_decoy) { q_decoy = true; }
                }
            }
            h.expect(q_true == q_decoy, "C17.dictionary_quotient", &format!("{}: {} tells the hidden value {} from a decoy", what, witness, sn), &[id]);
        }
        // (5) differences of two responses of the same response vector divided by a field of the proof must not
        // confirm the difference of two hidden values (a blinding shared by two secrets cancels out)
        for a in 0..lv.len() {
            if !real_randomness { break; }
            for b in 0..lv.len() {
                if a == b { continue; }
                let (pa, sa) = &lv[a];
                let (pb, sb) = &lv[b];
                // leaves that are ELEMENTS of the same array: path = stem[k]
                let stem = |p: &String| if p.ends_with(']') { p.rfind('[').map(|k| p[..k].to_string()) } else { None };
                if stem(pa).is_none() || stem(pa) != stem(pb) { continue; }
                let diff = Integer::from(sa - sb);
                for (pc, cv) in &lv {
                    if *cv <= 1 || !(pc.ends_with("challenge") || pc.ends_with(".C")) { continue; }
                    if !diff.is_divisible(cv) { continue; }
                    let q = Integer::from(&diff / cv);
                    for (i1, (n1, x1)) in secrets.iter().enumerate() {
                        for (n2, x2) in secrets.iter().skip(i1 + 1) {
                            let d12 = Integer::from(x1 - x2);
                            if d12 == 0 { continue; }
                            h.expect(q != d12 && q != Integer::from(-&d12), "C17.difference", &format!("{}: ({} - {}) / {} equals the difference of the hidden values {} and {}", what, pa, pb, pc, n1, n2), &[id]);
                        }
                    }
                }
            }
        }
    };
    for iss in &issues {
        let mut secrets: Vec<(String, Integer)> = iss.hidden.iter().map(|&i| (format!("m_{}", i), iss.msgs[i].clone())).collect();
        secrets.push(("r".into(), field(&iss.c, "randomness")));
        let id = h.last();
        let real = !is_boundary(&iss.zk_tape);
        run(h, "issuance", &iss.zk, &secrets, None, id, real, &[("C".to_string(), field(&iss.c, "value"))]);
        if real { tape_randomness(h, "C17.blinding_not_random", "issuance", &iss.zk_tape, id); }
    }
    for pk in &poks {
        let mut secrets: Vec<(String, Integer)> = pk.hidden.iter().map(|&i| (format!("m_{}", i), pk.msgs[i].clone())).collect();
        secrets.push(("e".into(), field(&pk.sig, "e")));
        secrets.push(("v".into(), field(&pk.sig, "v")));
        // w, rw, rx, re: the first four bits draws of the tape
        for (i, nm) in ["rx", "w", "rw", "re"].iter().enumerate() {
            if let Some((_, v)) = pk.tape.get(i) {
                secrets.push((nm.to_string(), v.clone()));
            }
        }
        let v = field(&pk.sig, "v");
        let id = h.last();
        let real = !is_boundary(&pk.tape);
        run(h, "signature_proof", &pk.pok, &secrets, Some(&v), id, real, &[]);
        if real { tape_randomness(h, "C17.blinding_not_random", "signature_proof", &pk.tape, id); }
    }
}

fn two64() -> Integer {
    Integer::from(1) << 64
}

/// "reveals nothing": the estimate `q` is at least 2^64 away from the secret (the property's inequality) AND, for a
/// long secret, does not agree with it in its leading 48 bits either -- an estimate off by 2^386 of a 1023-bit opening
/// randomness satisfies the first condition and still hands over 600 of its bits. (Honest masking makes q exceed x by
/// a factor 2^80; a quotient of unrelated values agrees with x in 48 leading bits with probability 2^-48.)
fn far(q: &Integer, x: &Integer) -> bool {
    let d = Integer::from(q - x).abs();
    if d < two64() {
        return false;
    }
    let ax = x.clone().abs();
    if ax.significant_bits() >= 160 {
        return Integer::from(&d << 48u32) >= ax;
    }
    true
}


/// DESIGN O6 / F12: the Boudot proof of square answers for x_1 = floor(sqrt(2^T x - aa)) with
/// d = omega + c * x_1 where omega < 2^(l+t) * rmax is far SHORTER than c * x_1 (c is a 256-bit hash):
/// floor(d / c) gives x_1 up to 2^169 and (x_1^2 + aa) / 2^T gives the committed value up to a few units.
/// Uses public data only (the serialized range proof and its public bounds).
/// public-data estimate of the committed value from the proof-of-square response; `shifted` selects the
/// decomposition point aa = 2^T a - 2^(l+t+T/2+1) sqrt(b-a) used before DESIGN F13 was repaired
fn boudot_estimate(rp: &Value, a: &Integer, b: &Integer, shifted: bool) -> Option<Integer> {
    let t = 2 * (128 + 40 + 1) + Integer::from(b - a).significant_bits();
    let sq = Integer::from(b - a).sqrt();
    let kk = if shifted { pow2(40 + 128 + t / 2 + 1) * sq } else { Integer::from(0) };
    let aa = Integer::from(pow2(t) * a) - &kk;
    let ss = &rp["proof_of_tolerance"]["proof_of_square_a"]["proof_ss"];
    let d = field(ss, "d");
    let c = field(ss, "challenge");
    if c <= 0 {
        return None;
    }
    let x1 = Integer::from(&d / &c);
    let xa = Integer::from(&x1 * &x1);
    Some(Integer::from(xa + aa) >> t)
}

fn boudot_leaks(h: &mut H, what: &str, rps: &[(String, Value, Integer, Integer, Integer)], id: u64) {
    for (nm, rp, a, b, secret) in rps {
        let ests: Vec<Integer> = [false, true].iter().filter_map(|&sh| boudot_estimate(rp, a, b, sh)).collect();
        if let Some(dist) = ests.iter().map(|e| Integer::from(e - secret).abs()).min() {
            h.stat("C19.boudot_estimates");
            h.expect(dist >= two64(), "C19.boudot_square_response", &format!("{}: the proof-of-square response of {} divided by its challenge recovers the committed secret to within {} (public data only)", what, nm, dist), &[id]);
        }
    }
}

pub fn c19(h: &mut H) {
    let (k, ck, issues, poks) = setup(h);
    let b = field(&k.pk, "b");
    let hh = field(&ck, "h");
    let gs: Vec<Integer> = gbases(&ck);
    let check = |h: &mut H, what: &str, proof: &Value, challenges: &[(String, Integer)], secrets: &[(String, Integer)], id: u64, equal_blindings_by_construction: bool| {
        let mut lv = Vec::new();
        leaves(proof, String::new(), &mut lv);
        // one blinding answering under TWO challenges (inside one proof: two sub-proofs that share their first
        // move): (s - s') / (c - c') is the secret -- the two-transcript extraction without a second transcript.
        // Challenge candidates: the recomputable ones and every leaf called `challenge`. (A proof regenerated from a
        // boundary tape has equal blindings by construction and is skipped.)
        if !equal_blindings_by_construction {
            let resp = |p: &String| -> bool {
                let last = p.rsplit('.').next().unwrap_or("");
                let stem = last.split('[').next().unwrap_or("");
                matches!(stem, "s1" | "s2" | "d" | "d_1" | "d_2") || (stem.starts_with("s_") && stem[2..].chars().all(|c| c.is_ascii_digit()))
            };
            let mut cs: Vec<(String, Integer)> = challenges.to_vec();
            for (lp, v) in &lv {
                if lp.rsplit('.').next().unwrap_or("") == "challenge" && *v > 0 && !cs.iter().any(|(_, c)| c == v) {
                    cs.push((lp.clone(), v.clone()));
                }
            }
            let rs: Vec<&(String, Integer)> = lv.iter().filter(|(lp, v)| resp(lp) && *v > 0).collect();
            let big: Vec<&(String, Integer)> = secrets.iter().filter(|(_, x)| x.clone().abs() >= two64()).collect();
            // one blinding shared by TWO secrets under one challenge: (s - s') / c is the difference of the secrets
            for a in 0..rs.len() {
                for b2 in (a + 1)..rs.len() {
                    let d = Integer::from(&rs[a].1 - &rs[b2].1);
                    if d == 0 { continue; }
                    for (cn, c) in &cs {
                        let q = Integer::from(&d / c);
                        for i in 0..big.len() {
                            for j in (i + 1)..big.len() {
                                let diff = Integer::from(&big[i].1 - &big[j].1);
                                if diff.clone().abs() < two64() { continue; }
                                let qn = Integer::from(-&q);
                                let near = |u: &Integer| Integer::from(u - &diff).abs() < two64();
                                h.expect(!near(&q) && !near(&qn), "C19.response_difference",
                                    &format!("{}: ({} - {}) / {} is within 2^64 of {} - {}: the two secrets share one blinding", what, rs[a].0, rs[b2].0, cn, big[i].0, big[j].0), &[id]);
                            }
                        }
                    }
                }
            }
            for a in 0..rs.len() {
                for b2 in (a + 1)..rs.len() {
                    let d = Integer::from(&rs[a].1 - &rs[b2].1);
                    if d == 0 { continue; }
                    for i in 0..cs.len() {
                        for j in (i + 1)..cs.len() {
                            let dc = Integer::from(&cs[i].1 - &cs[j].1);
                            if dc == 0 { continue; }
                            let q = Integer::from(&d / &dc);
                            let qn = Integer::from(-&q);
                            for (sn, x) in &big {
                                h.expect(far(&q, x) && far(&qn, x), "C19.two_challenge_extraction",
                                    &format!("{}: ({} - {}) / ({} - {}) is within 2^64 of secret {}: one blinding answers under two challenges", what, rs[a].0, rs[b2].0, cs[i].0, cs[j].0, sn), &[id]);
                            }
                        }
                    }
                }
            }
        }
        // response leaves: everything except public commitments / group elements is a candidate;
        // the property quantifies over ALL integer leaves
        h.stat(&format!("C19.{}.proofs", what));
        // leaves that are sigma-protocol responses (s1, s2, s_1..s_9, s_5[k], d, d[k], d_1, d_2, D_1, D_2)
        let is_response = |p: &String| -> bool {
            let last = p.rsplit('.').next().unwrap_or("");
            let stem = last.split('[').next().unwrap_or("");
            matches!(stem, "s1" | "s2" | "d" | "d_1" | "d_2" | "D_1" | "D_2") || (stem.starts_with("s_") && stem[2..].chars().all(|c| c.is_ascii_digit()))
        };
        for (lp, s) in &lv {
            // a response that is exactly 0 answers for a secret 0 with no blinding at all
            if *s == 0 && is_response(lp) {
                h.expect(false, "C19.zero_response", &format!("{}: the response {} is exactly 0 (no blinding was added)", what, lp), &[id]);
            }
            if *s <= 0 { continue; }
            for (cn, c) in challenges {
                if *c <= 0 { continue; }
                let q = Integer::from(s / c);
                for (sn, x) in secrets {
                    // for a secret below 2^64 (e.g. the legal attribute 0) every SMALL leaf divided by anything is
                    // "near" it: only the responses are meaningful there
                    if x.clone().abs() < two64() && !is_response(lp) { continue; }
                    h.expect(far(&q, x), "C19.div_challenge", &format!("{}: floor({} / {}) is within 2^64 of secret {}", what, lp, cn, sn), &[id]);
                }
            }
        }
        for (lp, s) in &lv {
            if *s <= 0 { continue; }
            for (lp2, s2) in &lv {
                if *s2 <= 0 || lp == lp2 { continue; }
                // only quotients that can be large matter
                if s.significant_bits() < s2.significant_bits() + 60 { continue; }
                let q = Integer::from(s / s2);
                for (sn, x) in secrets {
                    if x.clone().abs() < two64() { continue; }
                    h.expect(far(&q, x), "C19.div_response", &format!("{}: floor({} / {}) is within 2^64 of secret {}", what, lp, lp2, sn), &[id]);
                }
            }
        }
    };
    for iss in &issues {
        let n_hidden = iss.hidden.len();
        let bases = &k.bases;
        let mut secrets: Vec<(String, Integer)> = iss.hidden.iter().map(|&i| (format!("m_{}", i), iss.msgs[i].clone())).collect();
        secrets.push(("r".into(), field(&iss.c, "randomness")));
        // publicly recomputable Fiat-Shamir challenges
        let mut ch: Vec<(String, Integer)> = Vec::new();
        let pm = &iss.zk["proof_commited_msgs"];
        let mut inp: Vec<Integer> = iss.hidden.iter().map(|&i| bases[i].clone()).collect();
        inp.push(b.clone());
        inp.push(field(&iss.c, "value"));
        inp.push(field(pm, "t"));
        ch.push(("c_msgs".into(), hash_ints(&inp.iter().collect::<Vec<_>>())));
        for (j, &i) in iss.hidden.iter().enumerate() {
            let pv = &iss.zk["proofs_commited_mi"][j];
            ch.push((format!("c_m{}", i), hash_ints(&[&bases[i], &b, &field(&pv["commitment"], "value"), &field(&pv["value"], "t")])));
        }
        let pr = &iss.zk["proof_r"];
        ch.push(("c_r".into(), hash_ints(&[&bases[0], &b, &field(&pr["commitment"], "value"), &field(&pr["value"], "t")])));
        let _ = n_hidden;
        let id = h.last();
        let all_min0 = { let t = &iss.zk_tape; let f: Vec<&Integer> = t.iter().enumerate().filter(|(i, (k, v))| k == "bits" && *v > 0 && !(i + 1 < t.len() && t[i + 1].0 == "prime")).map(|(_, (_, v))| v).collect(); f.len() >= 2 && f.iter().all(|v| **v == pow2(v.significant_bits() - 1)) };
        check(h, "issuance", &iss.zk, &ch, &secrets, id, all_min0);
        let p = params(h.suite);
        let mut rps: Vec<(String, Value, Integer, Integer, Integer)> = Vec::new();
        for (j, &i) in iss.hidden.iter().enumerate() {
            rps.push((format!("hidden attribute m_{}", i), iss.zk["range_proofs_mi"][j].clone(), Integer::from(0), pow2(p.lm) - 1, iss.msgs[i].clone()));
        }
        rps.push(("commitment randomness r".into(), iss.zk["range_proof_r"].clone(), Integer::from(0), pow2(p.ln) - 1, field(&iss.c, "randomness")));
        boudot_leaks(h, "issuance", &rps, id);
        let all_min = { let t = &iss.zk_tape; let f: Vec<&Integer> = t.iter().enumerate().filter(|(i, (k, v))| k == "bits" && *v > 0 && !(i + 1 < t.len() && t[i + 1].0 == "prime")).map(|(_, (_, v))| v).collect(); f.len() >= 2 && f.iter().all(|v| **v == pow2(v.significant_bits() - 1)) };
        if !all_min { tape_randomness(h, "C19.blinding_not_random", "issuance", &iss.zk_tape, id); }
    }
    for pk in &poks {
        let mut secrets: Vec<(String, Integer)> = pk.hidden.iter().map(|&i| (format!("m_{}", i), pk.msgs[i].clone())).collect();
        secrets.push(("e".into(), field(&pk.sig, "e")));
        for (i, nm) in ["rx", "w", "rw", "re"].iter().enumerate() {
            if let Some((_, v)) = pk.tape.get(i) {
                secrets.push((nm.to_string(), v.clone()));
            }
        }
        let mut ch: Vec<(String, Integer)> = vec![("c_spok".into(), field(&pk.pok["spok"], "challenge"))];
        for (j, &i) in pk.hidden.iter().enumerate() {
            let pv = &pk.pok["proofs_commited_mi"][j];
            ch.push((format!("c_m{}", i), hash_ints(&[&gs[i], &hh, &field(&pv["commitment"], "value"), &field(&pv["value"], "t")])));
        }
        let id = h.last();
        let all_min0 = { let t = &pk.tape; let f: Vec<&Integer> = t.iter().enumerate().filter(|(i, (k, v))| k == "bits" && *v > 0 && !(i + 1 < t.len() && t[i + 1].0 == "prime")).map(|(_, (_, v))| v).collect(); f.len() >= 2 && f.iter().all(|v| **v == pow2(v.significant_bits() - 1)) };
        check(h, "signature_proof", &pk.pok, &ch, &secrets, id, all_min0);
        let p = params(h.suite);
        let mut rps: Vec<(String, Value, Integer, Integer, Integer)> = Vec::new();
        for (j, &i) in pk.hidden.iter().enumerate() {
            rps.push((format!("hidden attribute m_{}", i), pk.pok["range_proofs_commited_mi"][j].clone(), Integer::from(0), pow2(p.lm) - 1, pk.msgs[i].clone()));
        }
        rps.push(("signature exponent e".into(), pk.pok["range_proof_e"].clone(), pow2(p.le - 1) + 1, pow2(p.le) - 1, field(&pk.sig, "e")));
        boudot_leaks(h, "signature_proof", &rps, id);
        let all_min = { let t = &pk.tape; let f: Vec<&Integer> = t.iter().enumerate().filter(|(i, (k, v))| k == "bits" && *v > 0 && !(i + 1 < t.len() && t[i + 1].0 == "prime")).map(|(_, (_, v))| v).collect(); f.len() >= 2 && f.iter().all(|v| **v == pow2(v.significant_bits() - 1)) };
        if !all_min { tape_randomness(h, "C19.blinding_not_random", "signature_proof", &pk.tape, id); }
        // two proofs from the same signature must not be linkable through a recovered e
        let e = field(&pk.sig, "e");
        let s4 = field(&pk.pok["spok"], "s_4");
        let c = field(&pk.pok["spok"], "challenge");
        h.expect(far(&Integer::from(&s4 / &c), &e), "C19.link_e", "floor(s_4 / c) recovers e: proofs from one signature are linkable", &[id]);
    }
}
