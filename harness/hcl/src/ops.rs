// Every CL03 operation the harness exercises, executed from JSON arguments (so that generation
// and replay share one path), under catch_unwind and with the random-draw tape recorded/injected.
use crate::flat::*;
use crate::H;
use digest::Digest;
use rug::Integer;
use serde_json::{json, Value};
use std::panic::{catch_unwind, AssertUnwindSafe};
use zkryptium::cl03::bases::Bases;
use zkryptium::cl03::blind::CL03BlindSignature;
use zkryptium::cl03::ciphersuites::{CL1024Sha256, CL2048Sha256, CL3072Sha256, CLCiphersuite};
use zkryptium::cl03::commitment::CL03Commitment;
use zkryptium::cl03::keys::{CL03CommitmentPublicKey, CL03PublicKey, CL03SecretKey};
use zkryptium::cl03::proof::{CL03PoKSignature, CL03ZKPoK};
use zkryptium::cl03::range_proof::Boudot2000RangeProof;
use zkryptium::cl03::signature::CL03Signature;
use zkryptium::keys::pair::KeyPair;
use zkryptium::schemes::algorithms::{Ciphersuite, CL03};
use zkryptium::schemes::generics::{BlindSignature, Commitment, PoKSignature, Signature, ZKPoK};
use zkryptium::utils::message::cl03_message::CL03Message;
use zkryptium::verif_hooks;

pub enum Out {
    Ok(Value),
    Panic,
}
impl Out {
    pub fn ok(&self) -> Option<&Value> {
        match self {
            Out::Ok(v) => Some(v),
            Out::Panic => None,
        }
    }
    pub fn is_true(&self) -> bool {
        matches!(self, Out::Ok(Value::Bool(true)))
    }
    pub fn is_false(&self) -> bool {
        matches!(self, Out::Ok(Value::Bool(false)))
    }
    pub fn is_panic(&self) -> bool {
        matches!(self, Out::Panic)
    }
}

fn from<T: serde::de::DeserializeOwned>(v: &Value) -> T {
    serde_json::from_value(v.clone()).expect("argument decoding")
}
fn to<T: serde::Serialize>(t: &T) -> Value {
    serde_json::to_value(t).unwrap()
}
fn msgs_of(v: &Value) -> Vec<CL03Message> {
    let l: Vec<Integer> = from(v);
    l.into_iter().map(CL03Message::new).collect()
}
fn com_of_value(v: &Value) -> CL03Commitment {
    CL03Commitment { value: from(v), randomness: Integer::from(0) }
}

fn exec<CS: CLCiphersuite>(op: &str, a: &[Value]) -> Value
where
    CS::HashAlg: Digest,
{
    match op {
        "cl.keygen" => {
            let kp = KeyPair::<CL03<CS>>::generate();
            json!({"a": to(kp.public_key()), "b": to(kp.private_key())})
        }
        "cl.bases" => {
            let pk: CL03PublicKey = from(&a[0]);
            let n: usize = from(&a[1]);
            to(&Bases::generate(&pk, n).0)
        }
        "cl.cpk" => {
            let n_mod: Option<Integer> = from(&a[0]);
            let n: Option<usize> = from(&a[1]);
            to(&CL03CommitmentPublicKey::generate::<CS>(n_mod, n))
        }
        "cl.sign" => {
            let (pk, sk, bases): (CL03PublicKey, CL03SecretKey, Vec<Integer>) = (from(&a[0]), from(&a[1]), from(&a[2]));
            let m: Integer = from(&a[3]);
            let s = Signature::<CL03<CS>>::sign(&pk, &sk, &Bases(bases), &CL03Message::new(m));
            to(s.cl03Signature())
        }
        "cl.signm" => {
            let (pk, sk, bases): (CL03PublicKey, CL03SecretKey, Vec<Integer>) = (from(&a[0]), from(&a[1]), from(&a[2]));
            let s = Signature::<CL03<CS>>::sign_multiattr(&pk, &sk, &Bases(bases), &msgs_of(&a[3]));
            to(s.cl03Signature())
        }
        "cl.verify" => {
            let (pk, bases, sig): (CL03PublicKey, Vec<Integer>, CL03Signature) = (from(&a[0]), from(&a[1]), from(&a[2]));
            let m: Integer = from(&a[3]);
            Value::Bool(Signature::<CL03<CS>>::CL03(sig).verify(&pk, &Bases(bases), &CL03Message::new(m)))
        }
        "cl.verifym" => {
            let (pk, bases, sig): (CL03PublicKey, Vec<Integer>, CL03Signature) = (from(&a[0]), from(&a[1]), from(&a[2]));
            Value::Bool(Signature::<CL03<CS>>::CL03(sig).verify_multiattr(&pk, &Bases(bases), &msgs_of(&a[3])))
        }
        "cl.disclose" => {
            let (pk, bases): (CL03PublicKey, Vec<Integer>) = (from(&a[0]), from(&a[1]));
            let u: Vec<usize> = from(&a[3]);
            let dummy = Signature::<CL03<CS>>::CL03(from(&json!({"e": val_of(&Integer::from(0)), "s": val_of(&Integer::from(0)), "v": val_of(&Integer::from(0))})));
            let (m, b) = dummy.disclose_selectively(&msgs_of(&a[2]), Bases(bases), &pk, &u);
            let mv: Vec<Integer> = m.into_iter().map(|x| x.value).collect();
            json!({"a": to(&mv), "b": to(&b.0)})
        }
        "cl.commitpk" => {
            let (pk, bases): (CL03PublicKey, Vec<Integer>) = (from(&a[0]), from(&a[1]));
            let u: Option<Vec<usize>> = from(&a[3]);
            let c = Commitment::<CL03<CS>>::commit_with_pk(&msgs_of(&a[2]), &pk, &Bases(bases), u.as_deref());
            to(c.cl03Commitment())
        }
        "cl.commitcpk" => {
            let cpk: CL03CommitmentPublicKey = from(&a[0]);
            let u: Option<Vec<usize>> = from(&a[2]);
            let c = Commitment::<CL03<CS>>::commit_with_commitment_pk(&msgs_of(&a[1]), &cpk, u.as_deref());
            to(c.cl03Commitment())
        }
        "cl.extend" => {
            let c: CL03Commitment = from(&a[0]);
            let (pk, bases): (CL03PublicKey, Vec<Integer>) = (from(&a[2]), from(&a[3]));
            let ri: Option<Vec<usize>> = from(&a[4]);
            let mut cc = Commitment::<CL03<CS>>::CL03(c);
            cc.extend_commitment_with_pk(&msgs_of(&a[1]), &pk, &Bases(bases), ri.as_deref());
            to(cc.cl03Commitment())
        }
        "cl.extendcpk" => {
            let c: CL03Commitment = from(&a[0]);
            let cpk: CL03CommitmentPublicKey = from(&a[2]);
            let ri: Option<Vec<usize>> = from(&a[3]);
            let mut cc = Commitment::<CL03<CS>>::CL03(c);
            cc.extend_commitment_with_commitment_pk(&msgs_of(&a[1]), &cpk, ri.as_deref());
            to(cc.cl03Commitment())
        }
        "cl.maphash" => {
            let b = unhex(a[0].as_str().unwrap());
            to(&CL03Message::map_message_to_integer_as_hash::<CS>(&b).get_value())
        }
        "cl.zkgen" => {
            let c: CL03Commitment = from(&a[1]);
            let ct: Option<CL03Commitment> = from(&a[2]);
            let (pk, bases): (CL03PublicKey, Vec<Integer>) = (from(&a[3]), from(&a[4]));
            let cpk: Option<CL03CommitmentPublicKey> = from(&a[5]);
            let u: Vec<usize> = from(&a[6]);
            let z = ZKPoK::<CL03<CS>>::generate_proof(&msgs_of(&a[0]), &c, ct.as_ref(), &pk, &Bases(bases), cpk.as_ref(), &u);
            to(z.to_cl03_zkpok())
        }
        "cl.zkverify" => {
            let z: CL03ZKPoK = from(&a[0]);
            let c = com_of_value(&a[1]);
            let ct: Option<CL03Commitment> = if a[2].is_null() { None } else { Some(com_of_value(&a[2])) };
            let (pk, bases): (CL03PublicKey, Vec<Integer>) = (from(&a[3]), from(&a[4]));
            let cpk: Option<CL03CommitmentPublicKey> = from(&a[5]);
            let u: Vec<usize> = from(&a[6]);
            Value::Bool(ZKPoK::<CL03<CS>>::CL03(z).verify_proof(&c, ct.as_ref(), &pk, &Bases(bases), cpk.as_ref(), &u))
        }
        "cl.blindsign" => {
            let (pk, sk, bases): (CL03PublicKey, CL03SecretKey, Vec<Integer>) = (from(&a[0]), from(&a[1]), from(&a[2]));
            let z: CL03ZKPoK = from(&a[3]);
            let rv: Option<Vec<CL03Message>> = if a[4].is_null() { None } else { Some(msgs_of(&a[4])) };
            let c: CL03Commitment = from(&a[5]);
            let ct: Option<CL03Commitment> = if a[6].is_null() { None } else { Some(com_of_value(&a[6])) };
            let cpk: Option<CL03CommitmentPublicKey> = from(&a[7]);
            let u: Vec<usize> = from(&a[8]);
            let ri: Option<Vec<usize>> = from(&a[9]);
            let b = BlindSignature::<CL03<CS>>::blind_sign(&pk, &sk, &Bases(bases), &ZKPoK::CL03(z), rv.as_deref(), &c, ct.as_ref(), cpk.as_ref(), &u, ri.as_deref());
            match b {
                BlindSignature::CL03(inner) => to(&inner),
                _ => unreachable!(),
            }
        }
        "cl.unblind" => {
            let b: CL03BlindSignature = from(&a[0]);
            let c: CL03Commitment = from(&a[1]);
            let s = BlindSignature::<CL03<CS>>::CL03(b).unblind_sign(&Commitment::CL03(c));
            to(s.cl03Signature())
        }
        "cl.update" => {
            let b: CL03BlindSignature = from(&a[0]);
            let rv: Option<Vec<CL03Message>> = if a[1].is_null() { None } else { Some(msgs_of(&a[1])) };
            let c: CL03Commitment = from(&a[2]);
            let (sk, pk, bases): (CL03SecretKey, CL03PublicKey, Vec<Integer>) = (from(&a[3]), from(&a[4]), from(&a[5]));
            let ri: Option<Vec<usize>> = from(&a[6]);
            let nb = BlindSignature::<CL03<CS>>::CL03(b).update_signature(rv.as_deref(), &c, &sk, &pk, &Bases(bases), ri.as_deref());
            match nb {
                BlindSignature::CL03(inner) => to(&inner),
                _ => unreachable!(),
            }
        }
        "cl.pokgen" => {
            let sig: CL03Signature = from(&a[0]);
            let (cpk, pk, bases): (CL03CommitmentPublicKey, CL03PublicKey, Vec<Integer>) = (from(&a[1]), from(&a[2]), from(&a[3]));
            let u: Vec<usize> = from(&a[5]);
            let p = PoKSignature::<CL03<CS>>::proof_gen(&sig, &cpk, &pk, &Bases(bases), &msgs_of(&a[4]), &u);
            to(p.to_cl03_proof())
        }
        "cl.pokverify" => {
            let p: CL03PoKSignature = from(&a[0]);
            let (cpk, pk, bases): (CL03CommitmentPublicKey, CL03PublicKey, Vec<Integer>) = (from(&a[1]), from(&a[2]), from(&a[3]));
            let u: Vec<usize> = from(&a[5]);
            let n: usize = from(&a[6]);
            Value::Bool(PoKSignature::<CL03<CS>>::CL03(p).proof_verify(&cpk, &pk, &Bases(bases), &msgs_of(&a[4]), &u, n))
        }
        "cl.rprove" => {
            let value: Integer = from(&a[0]);
            let c: CL03Commitment = from(&a[1]);
            let (g, h, n, lo, hi): (Integer, Integer, Integer, Integer, Integer) = (from(&a[2]), from(&a[3]), from(&a[4]), from(&a[5]), from(&a[6]));
            to(&Boudot2000RangeProof::prove::<<CS as Ciphersuite>::HashAlg>(&value, &c, &g, &h, &n, &lo, &hi))
        }
        "cl.rverify" => {
            let rp: Boudot2000RangeProof = from(&a[0]);
            let (g, h, n, lo, hi): (Integer, Integer, Integer, Integer, Integer) = (from(&a[1]), from(&a[2]), from(&a[3]), from(&a[4]), from(&a[5]));
            Value::Bool(rp.verify::<<CS as Ciphersuite>::HashAlg>(&g, &h, &n, &lo, &hi))
        }
        "cl.pkbytes" => {
            let pk: CL03PublicKey = from(&a[0]);
            Value::String(hex_or_dot(&pk.to_bytes::<CL03<CS>>()))
        }
        "cl.pkfrombytes" => {
            let b = unhex(a[0].as_str().unwrap());
            to(&CL03PublicKey::from_bytes::<CL03<CS>>(&b))
        }
        "cl.skbytes" => {
            let sk: CL03SecretKey = from(&a[0]);
            Value::String(hex_or_dot(&sk.to_bytes::<CL03<CS>>()))
        }
        "cl.skfrombytes" => {
            let b = unhex(a[0].as_str().unwrap());
            to(&CL03SecretKey::from_bytes::<CL03<CS>>(&b))
        }
        "cl.sigbytes" => {
            let sig: CL03Signature = from(&a[0]);
            Value::String(hex_or_dot(&Signature::<CL03<CS>>::CL03(sig).to_bytes()))
        }
        "cl.sigfrombytes" => {
            let b = unhex(a[0].as_str().unwrap());
            to(Signature::<CL03<CS>>::from_bytes(&b).cl03Signature())
        }
        _ => panic!("unknown op {}", op),
    }
}

pub fn hex_or_dot(b: &[u8]) -> String {
    if b.is_empty() { ".".to_string() } else { hex::encode(b) }
}
pub fn unhex(s: &str) -> Vec<u8> {
    if s == "." { vec![] } else { hex::decode(s).unwrap() }
}

/// generating ops take their tape as the last protocol argument
pub fn uses_tape(op: &str) -> bool {
    matches!(op, "cl.keygen" | "cl.bases" | "cl.cpk" | "cl.sign" | "cl.signm" | "cl.commitpk" | "cl.commitcpk" | "cl.zkgen" | "cl.blindsign" | "cl.pokgen" | "cl.rprove")
}

/// run one operation: returns the outcome and the recorded draws; logs line + JSON record
pub fn call(h: &mut H, op: &str, args: Vec<Value>, inject: Vec<(String, Integer)>) -> (Out, Vec<(String, Integer)>) {
    let suite = h.suite;
    let inj: Vec<(bool, Vec<u8>)> = inject
        .iter()
        .map(|(_, v)| (*v < 0, v.clone().abs().to_digits::<u8>(rug::integer::Order::MsfBe)))
        .collect();
    verif_hooks::start_signed(inj);
    let inj_json: Vec<Value> = inject.iter().map(|(k, v)| json!([k, val_of(v)])).collect();
    crate::watch_begin(json!({"suite": suite, "op": op, "args": args, "tape": inj_json, "id": h.next_id}).to_string());
    let r = catch_unwind(AssertUnwindSafe(|| match suite {
        "cl1024" => exec::<CL1024Sha256>(op, &args),
        "cl2048" => exec::<CL2048Sha256>(op, &args),
        _ => exec::<CL3072Sha256>(op, &args),
    }));
    crate::watch_end();
    let draws_raw = verif_hooks::stop();
    let draws: Vec<(String, Integer)> = draws_raw
        .iter()
        .map(|d| {
            let m = Integer::from_digits(&d.value, rug::integer::Order::MsfBe);
            (d.kind.to_string(), if d.neg { -m } else { m })
        })
        .collect();
    let out = match r {
        Ok(v) => Out::Ok(v),
        Err(_) => Out::Panic,
    };
    let id = h.next_id;
    h.next_id += 1;
    let mut fields: Vec<String> = args.iter().map(flat_value).collect();
    if uses_tape(op) {
        let t: Vec<String> = draws.iter().map(|(k, v)| format!("{}:{}", k, tok(v))).collect();
        fields.push(if t.is_empty() { ".".to_string() } else { t.join(";") });
    }
    let o = match &out {
        Out::Ok(v) => format!("ok {}", flat_value(v)),
        Out::Panic => "panic".to_string(),
    };
    h.lines.push(format!("{} {} {} {} => {}", id, suite, op, fields.join(" "), o));
    let tape_json: Vec<Value> = draws.iter().map(|(k, v)| json!([k, val_of(v)])).collect();
    h.records.push(json!({"id": id, "suite": suite, "op": op, "args": args, "tape": tape_json}));
    h.stat(&format!("op.{}.{}", op, if matches!(out, Out::Ok(_)) { "ok" } else { "panic" }));
    (out, draws)
}

pub fn replay_record(h: &mut H, r: &Value) {
    let suite = r["suite"].as_str().unwrap_or("cl1024");
    h.suite = match suite {
        "cl2048" => "cl2048",
        "cl3072" => "cl3072",
        _ => "cl1024",
    };
    h.next_id = r["id"].as_u64().unwrap_or(h.next_id);
    let op = r["op"].as_str().unwrap().to_string();
    let args: Vec<Value> = r["args"].as_array().cloned().unwrap_or_default();
    let tape: Vec<(String, Integer)> = r["tape"]
        .as_array()
        .map(|a| a.iter().map(|e| (e[0].as_str().unwrap().to_string(), int_of(&e[1]))).collect())
        .unwrap_or_default();
    call(h, &op, args, tape);
}
