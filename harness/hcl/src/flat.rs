// Flattening of serde values into the comma-separated token lists of the line protocol, and
// small helpers to move between rug integers and serde_json values.
use rug::Integer;
use serde::Serialize;
use serde_json::Value;

pub fn is_int(v: &Value) -> bool {
    matches!(v, Value::Object(m) if m.len() == 2 && m.contains_key("radix") && m.contains_key("value"))
}

pub fn int_of(v: &Value) -> Integer {
    let m = v.as_object().expect("integer object");
    let radix = m["radix"].as_i64().unwrap() as i32;
    Integer::from_str_radix(m["value"].as_str().unwrap(), radix).unwrap()
}

pub fn val_of(i: &Integer) -> Value {
    serde_json::to_value(i).unwrap()
}

pub fn tok(i: &Integer) -> String {
    i.to_string_radix(16)
}

fn walk(v: &Value, out: &mut Vec<String>) {
    match v {
        Value::Null => out.push("N".to_string()),
        Value::Bool(b) => out.push(if *b { "T" } else { "F" }.to_string()),
        Value::Array(a) => {
            out.push(format!("#{}", a.len()));
            for x in a {
                walk(x, out);
            }
        }
        Value::Object(m) => {
            if is_int(v) {
                out.push(tok(&int_of(v)));
            } else {
                // serde_json maps are BTreeMaps here: keys come out sorted
                for (_k, x) in m {
                    walk(x, out);
                }
            }
        }
        Value::Number(n) => out.push(n.to_string()),
        Value::String(s) => out.push(s.clone()),
    }
}

pub fn flat_value(v: &Value) -> String {
    let mut out = Vec::new();
    walk(v, &mut out);
    if out.is_empty() { ".".to_string() } else { out.join(",") }
}

pub fn flat<T: Serialize>(t: &T) -> String {
    flat_value(&serde_json::to_value(t).unwrap())
}

pub fn ints(l: &[Integer]) -> String {
    let mut s = format!("#{}", l.len());
    for i in l {
        s.push(',');
        s.push_str(&tok(i));
    }
    s
}

pub fn idxs(l: &[usize]) -> String {
    let mut s = format!("#{}", l.len());
    for i in l {
        s.push(',');
        s.push_str(&i.to_string());
    }
    s
}

pub fn oidxs(l: Option<&[usize]>) -> String {
    match l {
        None => "N".to_string(),
        Some(l) => idxs(l),
    }
}

/// every integer leaf of a JSON value, with a path for reporting
pub fn leaves(v: &Value, path: String, out: &mut Vec<(String, Integer)>) {
    match v {
        Value::Array(a) => {
            for (i, x) in a.iter().enumerate() {
                leaves(x, format!("{}[{}]", path, i), out);
            }
        }
        Value::Object(m) => {
            if is_int(v) {
                out.push((path, int_of(v)));
            } else {
                for (k, x) in m {
                    leaves(x, format!("{}.{}", path, k), out);
                }
            }
        }
        _ => {}
    }
}

/// replace the k-th integer leaf (in `leaves` order) by f(old)
pub fn map_leaf(v: &mut Value, k: &mut usize, target: usize, f: &dyn Fn(&Integer) -> Integer) {
    match v {
        Value::Array(a) => {
            for x in a.iter_mut() {
                map_leaf(x, k, target, f);
            }
        }
        Value::Object(_) => {
            if is_int(v) {
                if *k == target {
                    let n = f(&int_of(v));
                    *v = val_of(&n);
                }
                *k += 1;
            } else if let Value::Object(m) = v {
                for (_k, x) in m.iter_mut() {
                    map_leaf(x, k, target, f);
                }
            }
        }
        _ => {}
    }
}
