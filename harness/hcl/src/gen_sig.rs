// C13 (CL03 signatures), C18 (keys, parameters, encodings)
use super::*;
use crate::H;
use rug::integer::IsPrime;
use rug::Integer;
use serde_json::{json, Value};
use zkryptium::cl03::keys::{CL03CommitmentPublicKey, CL03PublicKey, CL03SecretKey};
use zkryptium::cl03::signature::CL03Signature;
use zkryptium::utils::random::{rand_int, random_bits, random_number};

fn sig_with(sig: &Value, k: &str, v: &Integer) -> Value {
    let mut s = sig.clone();
    s[k] = iv(v);
    s
}

/// CL03Message::map_message_to_integer_as_hash against an independent SHA-256
fn maphash_cases(h: &mut H) {
    use sha2::Digest;
    for len in [0usize, 1, 31, 32, 55, 56, 63, 64, 65, 119, 120, 1000] {
        let b = h.rng.bytes(len);
        let hx = if b.is_empty() { ".".to_string() } else { b.iter().map(|x| format!("{:02x}", x)).collect::<String>() };
        let (o, _) = call(h, "cl.maphash", vec![Value::String(hx)], vec![]);
        let want = Integer::from_digits(&sha2::Sha256::digest(&b), rug::integer::Order::MsfBe);
        h.stat("C13.maphash");
        h.expect(o.ok().map(|v| int_of(v)) == Some(want), "C13.maphash", "map_message_to_integer_as_hash is not the SHA-256 digest read as an integer", &[h.last()]);
    }
}

pub fn c13(h: &mut H) {
    maphash_cases(h);
    let p = params(h.suite);
    let nmax = 5usize;
    let k = keygen(h, nmax);
    let k2 = keygen(h, nmax);
    let phi = Integer::from(&k.p - 1u32) * Integer::from(&k.q - 1u32);
    // an attribute count that no longer fits a byte: 258 attributes, every position bound to its own base
    {
        let n = 258usize;
        let (bs, _) = call(h, "cl.bases", vec![k.pk.clone(), json!(n)], vec![]);
        if let Some(bv) = bs.ok() {
            let bases: Vec<Integer> = bv.as_array().unwrap().iter().map(int_of).collect();
            let msgs = attrs(h, n);
            h.stat("C13.n=258");
            if let Some(sig) = signm(h, &k, &bases, &msgs) {
                let sid = h.last();
                let v = verifym(h, &k.pk, &bases, &sig, &msgs);
                h.expect(v.is_true(), "C13.verify", "signature on 258 attributes does not verify", &[sid, h.last()]);
                for (nm, i, j) in [("first_last", 0usize, 257usize), ("0_256", 0, 256), ("1_257", 1, 257), ("255_256", 255, 256)] {
                    let mut m = msgs.clone();
                    m.swap(i, j);
                    let v = verifym(h, &k.pk, &bases, &sig, &m);
                    h.expect(!v.is_true(), "C13.attr_swap_large", &format!("signature on 258 attributes verifies with attributes {} swapped", nm), &[sid, h.last()]);
                }
                let mut m = msgs.clone();
                m[257] += 1;
                let v = verifym(h, &k.pk, &bases, &sig, &m);
                h.expect(!v.is_true(), "C13.attr_plus_1_large", "signature on 258 attributes verifies with the last attribute altered", &[sid, h.last()]);
                let (d, _) = call(h, "cl.disclose", vec![k.pk.clone(), ivs(&bases), ivs(&msgs), uv(&[0, 256, 257])], vec![]);
                let did = h.last();
                if let Some(dv) = d.ok() {
                    let dm: Vec<Integer> = dv["a"].as_array().unwrap().iter().map(int_of).collect();
                    let db: Vec<Integer> = dv["b"].as_array().unwrap().iter().map(int_of).collect();
                    let v = verifym(h, &k.pk, &db, &sig, &dm);
                    h.expect(v.is_true(), "C13.disclose", "signature on 258 attributes does not verify after selective disclosure", &[did, h.last()]);
                } else {
                    h.expect(false, "C13.disclose_panic", "disclose_selectively panicked for 258 attributes", &[did]);
                }
            } else {
                h.expect(false, "C13.sign", "sign_multiattr panicked for 258 attributes", &[h.last()]);
            }
        }
    }
    // base generation on boundary draws (r = N - 1, 1, 0 square to 1, 1, 0): a base equal to 1 would make every
    // signature valid for ANY value of that attribute
    {
        for first in [Integer::from(&k.n_mod - 1u32), Integer::from(1), Integer::from(0)] {
            let (o, _) = call(h, "cl.bases", vec![k.pk.clone(), json!(2)], vec![("below".into(), first.clone())]);
            let bid = h.last();
            h.stat("C13.boundary_base_draw");
            if let Some(v) = o.ok() {
                let bs: Vec<Integer> = v.as_array().unwrap().iter().map(int_of).collect();
                h.expect(bs.iter().all(|a| *a > 1), "C13.base_is_one", "Bases::generate returned the base 0 or 1 for a boundary draw: a signature then verifies for any value of that attribute", &[bid]);
                if bs.len() == 2 && bs.iter().any(|a| *a <= 1) {
                    let msgs = attrs(h, 2);
                    if let Some(sig) = signm(h, &k, &bs, &msgs) {
                        let mut m2 = msgs.clone();
                        let j = if bs[0] <= 1 { 0 } else { 1 };
                        m2[j] += 12345;
                        let v = verifym(h, &k.pk, &bs, &sig, &m2);
                        h.expect(!v.is_true(), "C13.attr_unbound", "a signature verifies for another value of an attribute whose generated base is 1", &[h.last()]);
                    }
                }
            }
        }
    }
    // caller-supplied base sets and key components that are NOT quadratic residues (Bases and CL03PublicKey::new
    // are public; the property speaks of every key pair and base set): N - a is a non-residue modulo both
    // safe primes, small integers are residues or not at random. Odd attributes, so that the signed element
    // itself is a non-residue; several signatures per case because a slip in the exponent arithmetic shows
    // for about every second e only.
    {
        let n = 3usize;
        let neg = |x: &Integer| Integer::from(&k.n_mod - x);
        let neg_bases: Vec<Integer> = k.bases[..n].iter().map(|a| neg(a)).collect();
        let one_neg: Vec<Integer> = vec![k.bases[0].clone(), neg(&k.bases[1]), k.bases[2].clone()];
        let small: Vec<Integer> = vec![Integer::from(3), Integer::from(5), Integer::from(7)];
        let mut pk_negc = k.pk.clone();
        pk_negc["c"] = iv(&neg(&field(&k.pk, "c")));
        let mut pk_negb = k.pk.clone();
        pk_negb["b"] = iv(&neg(&field(&k.pk, "b")));
        let cases: Vec<(&str, Value, Vec<Integer>)> = vec![
            ("neg_bases", k.pk.clone(), neg_bases),
            ("one_neg_base", k.pk.clone(), one_neg),
            ("small_bases", k.pk.clone(), small),
            ("neg_c", pk_negc, k.bases[..n].to_vec()),
            ("neg_b", pk_negb, k.bases[..n].to_vec()),
        ];
        let reps = if h.thorough { 12 } else { 5 };
        for (nm, pk, bases) in cases {
            for rep in 0..reps {
                let mut msgs = attrs(h, n);
                for m in msgs.iter_mut() {
                    *m |= Integer::from(1);
                }
                h.stat(&format!("C13.nonresidue.{}", nm));
                let (o, _) = call(h, "cl.signm", vec![pk.clone(), k.sk.clone(), ivs(&bases), ivs(&msgs)], vec![]);
                let sid = h.last();
                let sig = match o.ok().cloned() {
                    Some(s) => s,
                    None => {
                        h.expect(false, "C13.sign", &format!("sign_multiattr panicked ({})", nm), &[sid]);
                        continue;
                    }
                };
                let v = verifym(h, &pk, &bases, &sig, &msgs);
                h.expect(v.is_true(), "C13.verify_nonresidue", &format!("freshly issued signature over caller-supplied non-residues ({}) does not verify", nm), &[sid, h.last()]);
                if rep == 0 {
                    let (d, _) = call(h, "cl.disclose", vec![pk.clone(), ivs(&bases), ivs(&msgs), uv(&[1])], vec![]);
                    let did = h.last();
                    if let Some(dv) = d.ok() {
                        let dm: Vec<Integer> = dv["a"].as_array().unwrap().iter().map(int_of).collect();
                        let db: Vec<Integer> = dv["b"].as_array().unwrap().iter().map(int_of).collect();
                        let v = verifym(h, &pk, &db, &sig, &dm);
                        h.expect(v.is_true(), "C13.disclose_nonresidue", &format!("signature over non-residues ({}) does not verify after selective disclosure", nm), &[did, h.last()]);
                    }
                    let mut m2 = msgs.clone();
                    m2[1] += 2;
                    let v = verifym(h, &pk, &bases, &sig, &m2);
                    h.expect(!v.is_true(), "C13.attr_plus_2_nonresidue", "signature over non-residues verifies for another attribute vector", &[sid, h.last()]);
                }
                // single-attribute interface on the same material
                let (s1, _) = call(h, "cl.sign", vec![pk.clone(), k.sk.clone(), ivs(&bases[..1]), iv(&msgs[0])], vec![]);
                if let Some(s1) = s1.ok().cloned() {
                    let v = verify1(h, &pk, &bases[..1], &s1, &msgs[0]);
                    h.expect(v.is_true(), "C13.verify_single_nonresidue", &format!("single-attribute signature over a caller-supplied non-residue ({}) does not verify", nm), &[h.last()]);
                }
            }
        }
    }
    let ns: Vec<usize> = if h.thorough { vec![1, 2, 3, 4, 5] } else { vec![1, 2, 3, 5] };
    let reps = if h.thorough { 4 } else { 1 };
    for &n in &ns {
        for rep in 0..reps {
            let msgs = if rep % 2 == 0 { attrs_boundary(h, n, p.lm) } else { attrs(h, n) };
            let bases = k.bases[..n].to_vec();
            h.stat(&format!("C13.n={}", n));
            let sig = match signm(h, &k, &bases, &msgs) {
                Some(s) => s,
                None => {
                    h.expect(false, "C13.sign", "sign_multiattr panicked", &[h.last()]);
                    continue;
                }
            };
            let sid = h.last();
            let v = verifym(h, &k.pk, &bases, &sig, &msgs);
            h.expect(v.is_true(), "C13.verify", "freshly issued signature does not verify", &[sid, h.last()]);
            // exponent: prime, exactly le bits, coprime to the group order
            let e = field(&sig, "e");
            h.expect(e.is_probably_prime(30) != IsPrime::No, "C13.e_prime", "e is not prime", &[sid]);
            h.expect(e > pow2(p.le - 1) && e < pow2(p.le), "C13.e_len", "e does not have exactly le bits", &[sid]);
            h.expect(e.clone().gcd(&phi) == 1, "C13.e_coprime", "e is not coprime to the group order", &[sid]);
            // encodings
            let (bo, _) = call(h, "cl.sigbytes", vec![sig.clone()], vec![]);
            if let Some(Value::String(hx)) = bo.ok() {
                let (back, _) = call(h, "cl.sigfrombytes", vec![json!(hx)], vec![]);
                h.expect(back.ok() == Some(&sig), "C13.bytes_roundtrip", "signature does not survive to_bytes/from_bytes", &[h.last()]);
            } else {
                h.expect(false, "C13.to_bytes", "signature to_bytes panicked", &[h.last()]);
            }
            // the same with components that have leading zero octets (about one v in 256 does; forced here)
            let vfull = field(&sig, "v");
            for (nm, f, val) in [
                ("v_one_octet_short", "v", Integer::from(&vfull >> 9u32)),
                ("v_two_octets_short", "v", Integer::from(&vfull >> 17u32)),
                ("v_tiny", "v", Integer::from(7)),
                ("s_short", "s", Integer::from(field(&sig, "s") >> 12u32)),
                ("s_zero", "s", Integer::from(0)),
                // ... and components at and beyond the top of their nominal size: an unblinded s = r + r' can have
                // ls + 1 bits, e has exactly le bits
                ("s_one_bit_longer", "s", Integer::from(pow2(p.ls) + 5u32)),
                ("s_all_ones_ls_plus_1", "s", Integer::from(pow2(p.ls + 1) - 1u32)),
                ("e_all_ones", "e", Integer::from(pow2(p.le) - 1u32)),
                ("v_max", "v", Integer::from(&k.n_mod - 1u32)),
            ] {
                let z = sig_with(&sig, f, &val);
                let (bo, _) = call(h, "cl.sigbytes", vec![z.clone()], vec![]);
                h.stat(&format!("C13.bytes_short.{}", nm));
                if let Some(Value::String(hx)) = bo.ok() {
                    let (back, _) = call(h, "cl.sigfrombytes", vec![json!(hx)], vec![]);
                    h.expect(back.ok() == Some(&z), "C13.bytes_roundtrip_short", &format!("a signature whose {} has leading zero octets ({}) does not survive to_bytes/from_bytes", f, nm), &[h.last()]);
                } else {
                    h.expect(false, "C13.to_bytes", "signature to_bytes panicked", &[h.last()]);
                }
            }
            let typed: CL03Signature = serde_json::from_value(sig.clone()).unwrap();
            let back: Option<CL03Signature> = serde_json::to_string(&typed).ok().and_then(|t| serde_json::from_str(&t).ok());
            h.expect(back.as_ref() == Some(&typed), "C13.json_roundtrip", "signature does not survive its JSON encoding", &[sid]);
            // selective disclosure for all subsets (n <= 3) or a sample
            let subs: Vec<Vec<usize>> = if n <= 3 { subsets(n) } else { vec![vec![], vec![0], vec![n - 1], (0..n).collect(), vec![1, 3]] };
            for u in subs {
                let (d, _) = call(h, "cl.disclose", vec![k.pk.clone(), ivs(&bases), ivs(&msgs), uv(&u)], vec![]);
                let did = h.last();
                if let Some(dv) = d.ok() {
                    let dm: Vec<Integer> = dv["a"].as_array().unwrap().iter().map(int_of).collect();
                    let db: Vec<Integer> = dv["b"].as_array().unwrap().iter().map(int_of).collect();
                    let v = verifym(h, &k.pk, &db, &sig, &dm);
                    h.expect(v.is_true(), "C13.disclose", "signature does not verify after selective disclosure of bases", &[did, h.last()]);
                } else {
                    h.expect(false, "C13.disclose_panic", "disclose_selectively panicked", &[did]);
                }
            }
            if n == 1 {
                let (s1, _) = call(h, "cl.sign", vec![k.pk.clone(), k.sk.clone(), ivs(&bases), iv(&msgs[0])], vec![]);
                if let Some(s1) = s1.ok().cloned() {
                    let v = verify1(h, &k.pk, &bases, &s1, &msgs[0]);
                    h.expect(v.is_true(), "C13.verify_single", "single-attribute signature does not verify", &[h.last()]);
                    let v = verify1(h, &k.pk, &bases, &s1, &Integer::from(&msgs[0] + 1u32));
                    h.expect(!v.is_true(), "C13.single_other_msg", "single-attribute signature verifies for another attribute", &[h.last()]);
                    let m2 = Integer::from(&msgs[0] + &field(&s1, "e"));
                    let v2 = Integer::from(field(&s1, "v") * &bases[0]) % &k.n_mod;
                    let forged = sig_with(&s1, "v", &v2);
                    let v = verify1(h, &k.pk, &bases, &forged, &m2);
                    h.expect(!v.is_true(), "C13.shift_single", "shift-by-e forgery accepted by verify", &[h.last()]);
                }
            }
            // ---- nothing else verifies
            let reject = |h: &mut H, class: &str, pk: &Value, bs: &[Integer], sg: &Value, ms: &[Integer]| {
                h.stat(&format!("C13.neg.{}", class));
                let v = verifym(h, pk, bs, sg, ms);
                let id = h.last();
                h.expect(!v.is_true(), &format!("C13.{}", class), "verify_multiattr accepted something that was not signed", &[id]);
            };
            let vv = field(&sig, "v");
            for i in 0..n {
                let mut m = msgs.clone();
                m[i] += 1;
                if m[i] < pow2(p.lm) {
                    reject(h, "attr_plus_1", &k.pk, &bases, &sig, &m);
                }
                // derived without the secret key: m_i + k*e with v * a_i^k
                for kk in [1i32, 2, -1] {
                    let mut m = msgs.clone();
                    m[i] += Integer::from(&e * kk);
                    let ak = powm(&bases[i], &Integer::from(kk), &k.n_mod);
                    let v2 = Integer::from(&vv * &ak) % &k.n_mod;
                    reject(h, "shift_by_e", &k.pk, &bases, &sig_with(&sig, "v", &v2), &m);
                }
                let mut m = msgs.clone();
                m[i] += pow2(p.lm);
                reject(h, "attr_oversized", &k.pk, &bases, &sig, &m);
                let mut m = msgs.clone();
                m[i] = Integer::from(-1) - &m[i];
                reject(h, "attr_negative", &k.pk, &bases, &sig, &m);
                if i + 1 < n && msgs[i] != msgs[i + 1] {
                    let mut m = msgs.clone();
                    m.swap(i, i + 1);
                    reject(h, "attr_swap", &k.pk, &bases, &sig, &m);
                }
            }
            if n > 1 && msgs[n - 1] != 0 {
                // (an attribute equal to 0 contributes a_n^0 = 1: dropping it is the same statement)
                reject(h, "attr_dropped", &k.pk, &bases[..n - 1], &sig, &msgs[..n - 1]);
            }
            // MORE attributes than bases: nothing signed the surplus ones (a refusal by panic counts as refusal)
            {
                let mut m = msgs.clone();
                m.push(hash_attr(h));
                reject(h, "attr_appended", &k.pk, &bases, &sig, &m);
                m.push(Integer::from(1));
                reject(h, "attr_appended", &k.pk, &bases, &sig, &m);
            }
            for f in ["e", "s", "v"] {
                let x = field(&sig, f);
                reject(h, "field_plus_1", &k.pk, &bases, &sig_with(&sig, f, &Integer::from(&x + 1u32)), &msgs);
                reject(h, "field_minus_1", &k.pk, &bases, &sig_with(&sig, f, &Integer::from(&x - 1u32)), &msgs);
                if f != "v" {
                    reject(h, "field_zero", &k.pk, &bases, &sig_with(&sig, f, &Integer::from(0)), &msgs);
                }
            }
            // the same verification equation written with other representatives: v^e = (v^-1)^(-e),
            // v = v + N (mod N); nothing but the issued triple may verify
            if let Ok(vinv) = vv.clone().invert(&k.n_mod) {
                let mut z = sig_with(&sig, "v", &vinv);
                z = sig_with(&z, "e", &Integer::from(-e.clone()));
                reject(h, "neg_e_inverse_v", &k.pk, &bases, &z, &msgs);
                if n == 1 {
                    let v = verify1(h, &k.pk, &bases, &z, &msgs[0]);
                    h.expect(!v.is_true(), "C13.neg_e_inverse_v_single", "verify accepted (-e, s, v^-1)", &[h.last()]);
                }
            }
            reject(h, "neg_e", &k.pk, &bases, &sig_with(&sig, "e", &Integer::from(-e.clone())), &msgs);
            reject(h, "v_plus_N", &k.pk, &bases, &sig_with(&sig, "v", &Integer::from(&vv + &k.n_mod)), &msgs);
            reject(h, "v_minus_N", &k.pk, &bases, &sig_with(&sig, "v", &Integer::from(&vv - &k.n_mod)), &msgs);
            reject(h, "v_negated", &k.pk, &bases, &sig_with(&sig, "v", &Integer::from(&k.n_mod - &vv)), &msgs);
            // e and s swapped, other bases, other key
            let mut sw = sig.clone();
            sw["e"] = sig["s"].clone();
            sw["s"] = sig["e"].clone();
            reject(h, "field_swap", &k.pk, &bases, &sw, &msgs);
            let mut ob = bases.clone();
            ob.rotate_left(1);
            // (a^0 = 1 for every base: with all attributes 0 the bases do not enter the statement, and with all
            // attributes equal a rotation of the bases is the same statement -- DESIGN O7)
            let all_zero = msgs.iter().all(|m| *m == 0);
            let all_equal = msgs.iter().all(|m| *m == msgs[0]);
            if n > 1 && !all_equal {
                reject(h, "bases_rotated", &k.pk, &ob, &sig, &msgs);
            }
            if !all_zero {
                reject(h, "other_bases", &k.pk, &k2.bases[..n], &sig, &msgs);
            }
            reject(h, "other_key", &k2.pk, &k2.bases[..n], &sig, &msgs);
            let mut pk3 = k.pk.clone();
            pk3["c"] = k.pk["b"].clone();
            reject(h, "pk_c_replaced", &pk3, &bases, &sig, &msgs);
        }
    }
}

fn jacobi_is_one(x: &Integer, p: &Integer) -> bool {
    x.jacobi(p) == 1
}

/// all predicates of the property on one modulus and its elements
fn check_group(h: &mut H, what: &str, n_mod: &Integer, p: &Integer, q: &Integer, elems: &[(String, Integer)], secparam: u32, id: u64) {
    h.expect(Integer::from(p * q) == *n_mod, "C18.N", &format!("{}: N != p*q", what), &[id]);
    h.expect(p != q, "C18.p_ne_q", &format!("{}: p == q", what), &[id]);
    for (nm, x) in [("p", p), ("q", q)] {
        h.expect(x.is_probably_prime(40) != IsPrime::No, "C18.prime", &format!("{}: {} is not prime", what, nm), &[id]);
        let half = Integer::from(x - 1u32) / 2u32;
        h.expect(half.is_probably_prime(40) != IsPrime::No, "C18.safe_prime", &format!("{}: ({}-1)/2 is not prime", what, nm), &[id]);
        h.expect(x.significant_bits() == secparam + 1, "C18.prime_size", &format!("{}: |{}| = {} bits, expected {}", what, nm, x.significant_bits(), secparam + 1), &[id]);
    }
    for (nm, x) in elems {
        h.expect(*x > 1 && x < n_mod, "C18.elem_range", &format!("{}: {} not in (1, N)", what, nm), &[id]);
        h.expect(x.clone().gcd(n_mod) == 1, "C18.elem_coprime", &format!("{}: gcd({}, N) != 1", what, nm), &[id]);
        h.expect(jacobi_is_one(x, p) && jacobi_is_one(x, q), "C18.elem_qr", &format!("{}: {} is not a quadratic residue", what, nm), &[id]);
    }
}

/// recover (p, q) of a modulus from the `prime` draws of the tape that generated it
fn factors_from_tape(n_mod: &Integer, tape: &[(String, Integer)]) -> Option<(Integer, Integer)> {
    let cands: Vec<Integer> = tape.iter().filter(|(k, _)| k == "prime").map(|(_, v)| Integer::from(v * 2u32) + 1u32).collect();
    for p in &cands {
        if *p > 1 && n_mod.is_divisible(p) {
            let q = Integer::from(n_mod / p);
            if cands.contains(&q) {
                return Some((p.clone(), q));
            }
        }
    }
    None
}

pub fn c18(h: &mut H) {
    let p = params(h.suite);
    let nkeys = if h.thorough { 6 } else { 2 };
    for kidx in 0..nkeys {
        let nb = 1 + kidx % 4;
        let k = keygen(h, nb);
        let kid = h.last() - 1;
        let mut elems: Vec<(String, Integer)> = vec![("b".into(), field(&k.pk, "b")), ("c".into(), field(&k.pk, "c"))];
        for (i, a) in k.bases.iter().enumerate() {
            elems.push((format!("a_{}", i), a.clone()));
        }
        check_group(h, "key pair", &k.n_mod, &k.p, &k.q, &elems, p.secparam, kid);
        h.stat("C18.keypairs");
        // the same generation replayed with the second prime search LANDING ON THE FIRST PRIME AGAIN (the
        // successful (bits, prime) draws of p injected once more at the start of the search for q): the
        // generator must discard that candidate and continue -- N is a product of two DISTINCT safe primes
        {
            let t = &k.tape;
            let mut cut = None;
            let mut i = 0;
            while i + 1 < t.len() {
                if t[i].0 == "bits" && t[i + 1].0 == "prime" {
                    let cand = Integer::from(&t[i + 1].1 * 2u32) + 1u32;
                    if cand.is_probably_prime(30) != IsPrime::No {
                        cut = Some(i + 2);
                        break;
                    }
                    i += 2;
                } else {
                    break;
                }
            }
            if let Some(c) = cut {
                let mut inj: Vec<(String, Integer)> = t[..c].to_vec();
                inj.push(t[c - 2].clone());
                inj.push(t[c - 1].clone());
                inj.extend_from_slice(&t[c..]);
                let (o, _) = call(h, "cl.keygen", vec![], inj.clone());
                let id = h.last();
                h.stat("C18.same_prime_twice");
                match o.ok() {
                    Some(v) => {
                        let (p2, q2) = (field(&v["b"], "p"), field(&v["b"], "q"));
                        h.expect(p2 != q2, "C18.p_ne_q", "key generation returned p == q when the second search met the first prime again", &[id]);
                        h.expect(Integer::from(&p2 * &q2) == field(&v["a"], "N"), "C18.N", "replayed key generation: N != p*q", &[id]);
                    }
                    None => h.expect(false, "C18.same_prime_panic", "key generation panicked when the second search met the first prime again", &[id]),
                }
                // the trusted party's own modulus is generated by the same two searches
                let (ckt, tt) = cpk(h, None, 1);
                let _ = ckt;
                let mut cut2 = None;
                let mut j = 0;
                while j + 1 < tt.len() {
                    if tt[j].0 == "bits" && tt[j + 1].0 == "prime" {
                        let cand = Integer::from(&tt[j + 1].1 * 2u32) + 1u32;
                        if cand.is_probably_prime(30) != IsPrime::No { cut2 = Some(j + 2); break; }
                        j += 2;
                    } else { break; }
                }
                if let Some(c2) = cut2 {
                    let mut inj2: Vec<(String, Integer)> = tt[..c2].to_vec();
                    inj2.push(tt[c2 - 2].clone());
                    inj2.push(tt[c2 - 1].clone());
                    inj2.extend_from_slice(&tt[c2..]);
                    let (o2, t2) = call(h, "cl.cpk", vec![Value::Null, json!(1)], inj2);
                    let id2 = h.last();
                    h.stat("C18.same_prime_twice_cpk");
                    if let Some(v) = o2.ok() {
                        let nn = field(v, "N");
                        let first = Integer::from(&tt[c2 - 1].1 * 2u32) + 1u32;
                        h.expect(nn != Integer::from(&first * &first), "C18.p_ne_q", "own-modulus commitment key has N = p^2 when the second search met the first prime again", &[id2]);
                        h.expect(factors_from_tape(&nn, &t2).map(|(a, b)| a != b).unwrap_or(false), "C18.cpk_own_factors", "own-modulus commitment key (replayed): N is not a product of two distinct recorded safe primes", &[id2]);
                    }
                }
            }
        }
        // commitment key over the issuer modulus
        let (ck, _) = cpk(h, Some(&k.n_mod), nb);
        let cid = h.last();
        let hh = field(&ck, "h");
        let gs: Vec<Integer> = gbases(&ck);
        let mut ce: Vec<(String, Integer)> = vec![("h".into(), hh.clone())];
        for (i, g) in gs.iter().enumerate() {
            ce.push((format!("g_{}", i), g.clone()));
        }
        h.expect(field(&ck, "N") == k.n_mod, "C18.cpk_modulus", "commitment key does not use the issuer modulus it was given", &[cid]);
        h.expect(gs.len() == nb, "C18.cpk_count", "commitment key has the wrong number of bases", &[cid]);
        check_group(h, "commitment key (issuer modulus)", &k.n_mod, &k.p, &k.q, &ce, p.secparam, cid);
        // every g_i in <h>: order of h divides p'q'; g_i^(p'q') == 1 and g_i is a QR (checked above);
        // membership in <h> itself: h generates QR_N unless its order is p' or q' -- check order(h) = p'q'
        let pq = Integer::from(&k.p - 1u32) / 2u32 * (Integer::from(&k.q - 1u32) / 2u32);
        let pp = Integer::from(&k.p - 1u32) / 2u32;
        let qq = Integer::from(&k.q - 1u32) / 2u32;
        h.expect(powm(&hh, &pq, &k.n_mod) == 1, "C18.h_order", "h^(p'q') != 1", &[cid]);
        let full = powm(&hh, &pp, &k.n_mod) != 1 && powm(&hh, &qq, &k.n_mod) != 1;
        for (i, g) in gs.iter().enumerate() {
            let ok = powm(g, &pq, &k.n_mod) == 1 && (full || powm(g, &pp, &k.n_mod) == 1 || powm(g, &qq, &k.n_mod) == 1);
            h.expect(ok, "C18.g_in_h", &format!("g_{} is not in the subgroup generated by h", i), &[cid]);
        }
        // own modulus (its factors are only visible through the tape)
        if kidx == 0 || h.thorough {
            let (ck2, tape) = cpk(h, None, nb);
            let cid2 = h.last();
            let n2 = field(&ck2, "N");
            match factors_from_tape(&n2, &tape) {
                Some((p2, q2)) => {
                    let mut ce2: Vec<(String, Integer)> = vec![("h".into(), field(&ck2, "h"))];
                    for (i, g) in gbases(&ck2).iter().enumerate() {
                        ce2.push((format!("g_{}", i), g.clone()));
                    }
                    check_group(h, "commitment key (own modulus)", &n2, &p2, &q2, &ce2, p.secparam, cid2);
                }
                None => h.expect(false, "C18.cpk_own_factors", "own-modulus commitment key: N is not the product of two recorded safe-prime candidates", &[cid2]),
            }
        }
        // encodings
        let pk_t: CL03PublicKey = serde_json::from_value(k.pk.clone()).unwrap();
        let sk_t: CL03SecretKey = serde_json::from_value(k.sk.clone()).unwrap();
        let (pb, _) = call(h, "cl.pkbytes", vec![k.pk.clone()], vec![]);
        if let Some(Value::String(hx)) = pb.ok() {
            let (back, _) = call(h, "cl.pkfrombytes", vec![json!(hx)], vec![]);
            h.expect(back.ok() == Some(&k.pk), "C18.pk_bytes", "public key does not survive to_bytes/from_bytes", &[h.last()]);
        } else {
            h.expect(false, "C18.pk_to_bytes", "public key to_bytes panicked", &[h.last()]);
        }
        let (sb, _) = call(h, "cl.skbytes", vec![k.sk.clone()], vec![]);
        if let Some(Value::String(hx)) = sb.ok() {
            let (back, _) = call(h, "cl.skfrombytes", vec![json!(hx)], vec![]);
            h.expect(back.ok() == Some(&k.sk), "C18.sk_bytes", "secret key does not survive to_bytes/from_bytes", &[h.last()]);
        } else {
            h.expect(false, "C18.sk_to_bytes", "secret key to_bytes panicked", &[h.last()]);
        }
        let back: Option<CL03PublicKey> = serde_json::to_string(&pk_t).ok().and_then(|t| serde_json::from_str(&t).ok());
        h.expect(back.as_ref() == Some(&pk_t), "C18.pk_json", "public key does not survive JSON", &[kid]);
        let back: Option<CL03SecretKey> = serde_json::to_string(&sk_t).ok().and_then(|t| serde_json::from_str(&t).ok());
        h.expect(back.as_ref() == Some(&sk_t), "C18.sk_json", "secret key does not survive JSON", &[kid]);
        // the key types are shared by all parameter sets: moduli of the sizes the LARGER suites generate
        // (ln + 1 and ln + 2 bits for ln = 2048, 3072) survive the JSON and byte encodings as well
        for bits in [2049u32, 2050, 3073, 3074] {
            let mut nn = pow2(bits - 1) + Integer::from_digits(&h.rng.bytes(((bits - 2) / 8) as usize), rug::integer::Order::MsfBe);
            nn.set_bit(0, true);
            let big_pk = json!({"N": iv(&nn), "b": iv(&Integer::from(&nn - 5u32)), "c": iv(&Integer::from(&nn >> 3u32))});
            let typed: Option<CL03PublicKey> = serde_json::from_value(big_pk.clone()).ok();
            h.stat("C18.pk_json_large_modulus");
            h.expect(typed.is_some(), "C18.pk_json_large", &format!("a public key with a {}-bit modulus is refused by the JSON decoder", bits), &[]);
            if let Some(t) = typed {
                let back: Option<CL03PublicKey> = serde_json::to_string(&t).ok().and_then(|x| serde_json::from_str(&x).ok());
                h.expect(back.as_ref() == Some(&t), "C18.pk_json_large", &format!("a public key with a {}-bit modulus does not survive JSON", bits), &[]);
            }
            let big_ck = json!({"N": iv(&nn), "g_bases": [iv(&Integer::from(&nn - 7u32))], "h": iv(&Integer::from(&nn >> 2u32))});
            let typed: Option<CL03CommitmentPublicKey> = serde_json::from_value(big_ck.clone()).ok();
            h.expect(typed.is_some(), "C18.cpk_json_large", &format!("a commitment key with a {}-bit modulus is refused by the JSON decoder", bits), &[]);
        }
        let ck_t: Option<CL03CommitmentPublicKey> = serde_json::from_value(ck.clone()).ok();
        let back: Option<CL03CommitmentPublicKey> = ck_t.as_ref().and_then(|t| serde_json::to_string(t).ok()).and_then(|t| serde_json::from_str(&t).ok());
        h.expect(ck_t.is_some() && back == ck_t, "C18.cpk_json", "commitment key does not survive JSON", &[cid]);
        // a signature under this key survives its encodings
        let msgs = attrs(h, nb);
        if let Some(sig) = signm(h, &k, &k.bases.clone(), &msgs) {
            let (bo, _) = call(h, "cl.sigbytes", vec![sig.clone()], vec![]);
            if let Some(Value::String(hx)) = bo.ok() {
                let (back, _) = call(h, "cl.sigfrombytes", vec![json!(hx)], vec![]);
                h.expect(back.ok() == Some(&sig), "C18.sig_bytes", "signature does not survive to_bytes/from_bytes", &[h.last()]);
            }
            h.expect(field(&sig, "s").significant_bits() == p.ls, "C18.s_len", "signature randomness s does not have exactly ls bits", &[h.last()]);
        }
    }
    // sizes: no attribute at all, many attributes, default count
    {
        let k = keygen(h, 0);
        h.expect(k.bases.is_empty(), "C18.bases_zero", "Bases::generate(pk, 0) is not empty", &[h.last()]);
        let (b8, _) = call(h, "cl.bases", vec![k.pk.clone(), json!(9)], vec![]);
        let id = h.last();
        if let Some(v) = b8.ok() {
            let l: Vec<Integer> = v.as_array().unwrap().iter().map(int_of).collect();
            let set: std::collections::HashSet<String> = l.iter().map(|x| x.to_string()).collect();
            h.expect(l.len() == 9 && set.len() == 9, "C18.bases_many", "Bases::generate(pk, 9) did not return 9 distinct bases", &[id]);
            let el: Vec<(String, Integer)> = l.iter().enumerate().map(|(i, a)| (format!("a_{}", i), a.clone())).collect();
            check_group(h, "nine bases", &k.n_mod, &k.p, &k.q, &el, p.secparam, id);
        }
        for (nn, want) in [(Value::Null, 1usize), (json!(0), 0), (json!(7), 7)] {
            let (o, _) = call(h, "cl.cpk", vec![iv(&k.n_mod), nn.clone()], vec![]);
            let id = h.last();
            if let Some(v) = o.ok() {
                let gs: Vec<Integer> = gbases(v);
                h.expect(v.get("g_bases").map(|x| x.is_array()).unwrap_or(false), "C18.cpk_json_field", "serialized commitment key has no g_bases field", &[id]);
                h.expect(gs.len() == want, "C18.cpk_count_sizes", &format!("commitment key for n_attributes = {} has {} bases", nn, gs.len()), &[id]);
                let mut el: Vec<(String, Integer)> = vec![("h".into(), field(v, "h"))];
                el.extend(gs.iter().enumerate().map(|(i, g)| (format!("g_{}", i), g.clone())));
                check_group(h, "commitment key sizes", &k.n_mod, &k.p, &k.q, &el, p.secparam, id);
                let typed: Option<CL03CommitmentPublicKey> = serde_json::from_value(v.clone()).ok();
                let back: Option<CL03CommitmentPublicKey> = typed.as_ref().and_then(|t| serde_json::to_string(t).ok()).and_then(|t| serde_json::from_str(&t).ok());
                h.expect(typed.is_some() && back == typed, "C18.cpk_json_sizes", &format!("commitment key with {} bases does not survive its JSON encoding", want), &[id]);
            } else {
                h.expect(false, "C18.cpk_sizes_panic", "CL03CommitmentPublicKey::generate panicked", &[id]);
            }
        }
        // byte encodings of values with leading zero bytes / small values
        let small_pk = json!({"N": iv(&k.n_mod), "b": iv(&Integer::from(5)), "c": iv(&Integer::from(0))});
        let (pb, _) = call(h, "cl.pkbytes", vec![small_pk.clone()], vec![]);
        if let Some(Value::String(hx)) = pb.ok() {
            let (back, _) = call(h, "cl.pkfrombytes", vec![json!(hx)], vec![]);
            h.expect(back.ok() == Some(&small_pk), "C18.pk_bytes_small", "public key with small components does not survive its byte encoding", &[h.last()]);
        }
        let small_sig = json!({"e": iv(&Integer::from(3)), "s": iv(&Integer::from(0)), "v": iv(&Integer::from(255))});
        let (sb, _) = call(h, "cl.sigbytes", vec![small_sig.clone()], vec![]);
        if let Some(Value::String(hx)) = sb.ok() {
            let (back, _) = call(h, "cl.sigfrombytes", vec![json!(hx)], vec![]);
            h.expect(back.ok() == Some(&small_sig), "C18.sig_bytes_small", "signature with small components does not survive its byte encoding", &[h.last()]);
        }
    }
    // boundary draws injected into random_qr (bases) and the commitment-key generation:
    // r = N-1, 0, 1 square to 1, 0, 1 and must be redrawn
    {
        let k = keygen(h, 1);
        let nm1 = Integer::from(&k.n_mod - 1u32);
        for first in [nm1.clone(), Integer::from(0), Integer::from(1), Integer::from(&k.p * 2u32)] {
            let (o, _) = call(h, "cl.bases", vec![k.pk.clone(), json!(2)], vec![("below".into(), first.clone())]);
            let id = h.last();
            h.stat("C18.boundary_draw");
            if let Some(v) = o.ok() {
                for a in v.as_array().unwrap().iter().map(int_of) {
                    h.expect(a > 1 && a < k.n_mod && a.clone().gcd(&k.n_mod) == 1, "C18.boundary_qr", "random_qr returned 0, 1 or a non-unit for a boundary draw", &[id]);
                }
            } else {
                h.expect(false, "C18.boundary_panic", "Bases::generate panicked on a boundary draw", &[id]);
            }
            let (o, _) = call(h, "cl.cpk", vec![iv(&k.n_mod), json!(1)], vec![("below".into(), first.clone()), ("below".into(), Integer::from(0))]);
            let id = h.last();
            if let Some(v) = o.ok() {
                let hh = field(v, "h");
                h.expect(hh > 1 && hh.clone().gcd(&k.n_mod) == 1, "C18.boundary_h", "commitment key h is 0, 1 or a non-unit for a boundary draw", &[id]);
                for g in gbases(v) {
                    h.expect(g > 1 && g.clone().gcd(&k.n_mod) == 1, "C18.boundary_g", "commitment key base is 1 or a non-unit for a boundary exponent draw", &[id]);
                }
            }
        }
    }
    // commitment-key generation with a VALID first draw for h and the boundary exponents f = 0, 1 for the base
    // g_1 = h^f (f = 0 gives the base 1, which must be redrawn; f = 1 gives h itself), and on small legal moduli
    // where exponents that are multiples of the order of h occur naturally
    {
        let k = keygen(h, 1);
        for f in [0u32, 1] {
            let (o, _) = call(h, "cl.cpk", vec![iv(&k.n_mod), json!(2)], vec![("below".into(), Integer::from(3)), ("below".into(), Integer::from(f))]);
            let id = h.last();
            h.stat("C18.boundary_exponent");
            if let Some(v) = o.ok() {
                for g in gbases(v) {
                    h.expect(g > 1 && g.clone().gcd(&k.n_mod) == 1, "C18.boundary_g", "commitment key base is 1 or a non-unit for a boundary exponent draw", &[id]);
                }
            } else {
                h.expect(false, "C18.boundary_panic", "CL03CommitmentPublicKey::generate panicked on a boundary exponent", &[id]);
            }
        }
        for n in [35u32, 77, 253, 161] {
            for _ in 0..(if h.thorough { 40 } else { 12 }) {
                let (o, _) = call(h, "cl.cpk", vec![iv(&Integer::from(n)), json!(3)], vec![]);
                let id = h.last();
                h.stat("C18.cpk_small_modulus");
                if let Some(v) = o.ok() {
                    let hh = field(v, "h");
                    h.expect(hh > 1, "C18.boundary_h", &format!("commitment key over N = {}: h is 0 or 1", n), &[id]);
                    for g in gbases(v) {
                        h.expect(g > 1 && g.clone().gcd(&Integer::from(n)) == 1, "C18.boundary_g", &format!("commitment key over N = {}: a base is 1 or a non-unit", n), &[id]);
                    }
                }
            }
        }
    }
    // random_qr on small legal moduli (products of two safe primes), many draws, no tape
    for (n, pp, qq) in [(77u32, 7u32, 11u32), (161, 7, 23), (253, 11, 23), (35, 5, 7)] {
        let nn = Integer::from(n);
        for _ in 0..300 {
            let x = zkryptium::utils::random::random_qr(&nn);
            let xv = x.to_u32().unwrap();
            let is_sq = (1..n).any(|y| (y * y) % n == xv);
            h.expect(xv > 1 && xv < n && xv % pp != 0 && xv % qq != 0 && is_sq, "C18.random_qr_small", &format!("random_qr({}) returned {}", n, xv), &[]);
        }
    }
    // the public random helpers, called directly (no tape: the library's own code path)
    let reps = if h.thorough { 10000 } else { 1500 };
    for i in 0..reps {
        let n = [1u32, 2, 8, 63, 64, 65, 256, 258, 1024, 1536][i % 10];
        let x = random_bits(n);
        h.expect(x.significant_bits() == n && x >= 0, "C18.random_bits", &format!("random_bits({}) returned {} bits", n, x.significant_bits()), &[]);
        let a = Integer::from(h.rng.next()) - Integer::from(1u64 << 62);
        let w = Integer::from(h.rng.below(1 << (i % 40)));
        let b = Integer::from(&a + &w);
        let y = rand_int(a.clone(), b.clone());
        h.expect(y >= a && y <= b, "C18.rand_int", "rand_int(a, b) outside [a, b]", &[]);
        let m = Integer::from(h.rng.next() | 1);
        let z = random_number(m.clone());
        h.expect(z >= 0 && z < m, "C18.random_number", "random_number(n) outside [0, n)", &[]);
    }
    // both end points of rand_int are reachable (width 1 and 2, many draws)
    let mut seen = std::collections::HashSet::new();
    for _ in 0..400 {
        seen.insert(rand_int(Integer::from(-1), Integer::from(1)).to_i32().unwrap());
    }
    h.expect(seen.len() == 3, "C18.rand_int_endpoints", "rand_int(-1, 1) never returned one of -1, 0, 1 in 400 draws", &[]);
    h.stat("C18.direct_random_calls");
    // the JSON encoding through the file helper: a key pair written over an older, LONGER file at the same path (key
    // rotation) must read back as exactly that key pair (implementation-side test; file I/O is outside the model)
    if h.suite == "cl1024" {
        use zkryptium::cl03::ciphersuites::CL1024Sha256;
        use zkryptium::keys::pair::KeyPair;
        use zkryptium::schemes::algorithms::CL03;
        let r = std::panic::catch_unwind(|| {
            let kp = KeyPair::<CL03<CL1024Sha256>>::generate();
            let path = std::env::temp_dir().join(format!("zk-verif-keypair-{}.json", std::process::id()));
            let ps = path.to_string_lossy().to_string();
            let _ = std::fs::write(&path, vec![b'x'; 100_000]);
            kp.write_keypair_to_file(Some(ps.clone()));
            let text = std::fs::read_to_string(&path).unwrap_or_default();
            let _ = std::fs::remove_file(&path);
            let back: Option<KeyPair<CL03<CL1024Sha256>>> = serde_json::from_str(&text).ok();
            back.map(|b| b == kp).unwrap_or(false)
        });
        h.stat("C18.keypair_file");
        h.expect(matches!(r, Ok(true)), "C18.keypair_file", "a key pair written with write_keypair_to_file over an older, longer file does not read back as that key pair", &[]);
    }
}
