// C16: Boudot range proof -- in-range values prove, nothing else is accepted
use super::*;
use crate::flat::*;
use crate::ops::*;
use crate::H;
use rug::Integer;
use serde_json::{json, Value};

pub fn rverify(h: &mut H, rp: &Value, g: &Integer, hh: &Integer, n: &Integer, a: &Integer, b: &Integer) -> Out {
    call(h, "cl.rverify", vec![rp.clone(), iv(g), iv(hh), iv(n), iv(a), iv(b)], vec![]).0
}

pub fn rprove(h: &mut H, x: &Integer, c: &Value, g: &Integer, hh: &Integer, n: &Integer, a: &Integer, b: &Integer, inject: Vec<(String, Integer)>) -> (Out, Vec<(String, Integer)>) {
    call(h, "cl.rprove", vec![iv(x), c.clone(), iv(g), iv(hh), iv(n), iv(a), iv(b)], inject)
}

/// commitment g^x h^r mod n with an ln-bit r, as commit_with_commitment_pk does (one base)
pub fn commit1(h: &mut H, cpk1: &Value, x: &Integer) -> Value {
    let (c, _) = call(h, "cl.commitcpk", vec![cpk1.clone(), ivs(&[x.clone()]), Value::Null], vec![]);
    c.ok().expect("commit").clone()
}

fn divm(a: &Integer, b: &Integer, n: &Integer) -> Integer {
    let bi = b.clone().invert(n).expect("unit");
    Integer::from(a * bi) % n
}

pub fn c16(h: &mut H) {
    let k = keygen(h, 1);
    let (ck, _) = cpk(h, Some(&k.n_mod), 1);
    let n = k.n_mod.clone();
    let g = int_of(&ck["g_bases"][0]);
    let hh = field(&ck, "h");
    let (ck_other, _) = cpk(h, Some(&k.n_mod), 1);
    let g2 = int_of(&ck_other["g_bases"][0]);
    let hh2 = field(&ck_other, "h");
    let mut widths: Vec<Integer> = vec![Integer::from(1), Integer::from(2), Integer::from(3), pow2(8), pow2(64), pow2(256) - 1];
    if h.thorough {
        widths.extend(vec![pow2(16) + 1, pow2(128), pow2(257), pow2(512)]);
    }
    let lows: Vec<Integer> = vec![Integer::from(0), Integer::from(1), pow2(257) + 1, Integer::from(12345)];
    let mut leaf_budget: i64 = if h.thorough { 300 } else { 30 };
    for (wi, w) in widths.iter().enumerate() {
        let a = lows[wi % lows.len()].clone();
        let b = Integer::from(&a + w);
        let mid = Integer::from(&a + Integer::from(w / 2u32));
        let mut xs: Vec<Integer> = vec![a.clone(), Integer::from(&a + 1u32), mid, Integer::from(&b - 1u32), b.clone()];
        let r = Integer::from(h.rng.next()) % (w.clone() + 1u32);
        xs.push(Integer::from(&a + r));
        xs.sort();
        xs.dedup();
        let mut honest: Option<(Value, Value, Integer)> = None;
        for x in &xs {
            h.stat(&format!("C16.width_bits={}", w.significant_bits()));
            let c = commit1(h, &ck, x);
            let (rp, _) = rprove(h, x, &c, &g, &hh, &n, &a, &b, vec![]);
            let pid = h.last();
            let rp = match rp.ok() {
                Some(v) => v.clone(),
                None => {
                    h.expect(false, "C16.prove", "prove panicked for a value inside [min, max]", &[pid]);
                    continue;
                }
            };
            let v = rverify(h, &rp, &g, &hh, &n, &a, &b);
            h.expect(v.is_true(), "C16.verify", "honest range proof does not verify", &[pid, h.last()]);
            h.expect(rp["E"] == c["value"], "C16.E", "range proof is not about the given commitment", &[pid]);
            if honest.is_none() || *x == xs[xs.len() / 2] {
                honest = Some((rp, c, x.clone()));
            }
        }
        // outside values: the honest prover produces nothing that verifies
        for x in [Integer::from(&a - 1u32), Integer::from(&b + 1u32), Integer::from(&a - pow2(40)), Integer::from(&b + pow2(300))] {
            let c = commit1(h, &ck, &x);
            let (rp, _) = rprove(h, &x, &c, &g, &hh, &n, &a, &b, vec![]);
            let pid = h.last();
            h.stat("C16.outside");
            if let Some(rp) = rp.ok().cloned() {
                let v = rverify(h, &rp, &g, &hh, &n, &a, &b);
                h.expect(!v.is_true(), "C16.outside", "a range proof for a value outside [min, max] verifies", &[pid, h.last()]);
            }
        }
        let (rp, c, x) = match honest { Some(t) => t, None => continue };
        let reject = |h: &mut H, class: &str, rp: &Value, g_: &Integer, h_: &Integer, n_: &Integer, a_: &Integer, b_: &Integer| {
            h.stat(&format!("C16.neg.{}", class));
            let v = rverify(h, rp, g_, h_, n_, a_, b_);
            h.expect(!v.is_true(), &format!("C16.{}", class), "range proof accepted for something it was not made for", &[h.last()]);
        };
        // other bounds, bases, modulus
        reject(h, "other_min", &rp, &g, &hh, &n, &Integer::from(&a + 1u32), &Integer::from(&b + 1u32));
        reject(h, "other_max", &rp, &g, &hh, &n, &a, &Integer::from(&b + 1u32));
        if *w > 1 {
            reject(h, "narrower", &rp, &g, &hh, &n, &a, &Integer::from(&b - 1u32));
        }
        reject(h, "other_g", &rp, &g2, &hh, &n, &a, &b);
        reject(h, "other_h", &rp, &g, &hh2, &n, &a, &b);
        reject(h, "bases_swapped", &rp, &hh, &g, &n, &a, &b);
        reject(h, "other_modulus", &rp, &g, &hh, &Integer::from(&n + 2u32), &a, &b);
        // transplant the sub-proofs onto another commitment E' (DESIGN F8)
        let t = 2 * (128 + 40 + 1) + Integer::from(&b - &a).significant_bits();
        let targets: Vec<(&str, Integer)> = vec![
            ("a_minus_1", Integer::from(&a - 1u32)),
            ("b_plus_1", Integer::from(&b + 1u32)),
            ("a_minus_2k", Integer::from(&a - pow2(50))),
        ];
        let mut eprimes: Vec<(String, Integer)> = Vec::new();
        for (nm, xv) in targets {
            let c2 = commit1(h, &ck, &xv);
            eprimes.push((nm.to_string(), field(&c2, "value")));
        }
        let rnd = Integer::from(Integer::from(h.rng.next()) * Integer::from(h.rng.next())).pow_mod(&Integer::from(2), &n).unwrap();
        eprimes.push(("random_element".to_string(), rnd));
        for (nm, e_new) in eprimes {
            let mut z = rp.clone();
            let e_new_prime = powm(&e_new, &pow2(t), &n);
            // recompute E_a, E_b for the new E' and re-derive E_a_1, E_b_1 from the honest E_a_2, E_b_2
            let sq = Integer::from(&b - &a).sqrt();
            let kk = pow2(40 + 128 + t / 2 + 1) * sq;
            let aa = Integer::from(pow2(t) * &a) - &kk;
            let bb = Integer::from(pow2(t) * &b) + &kk;
            let e_a = divm(&e_new_prime, &powm(&g, &aa, &n), &n);
            let e_b = divm(&powm(&g, &bb, &n), &e_new_prime, &n);
            let ea2 = field(&rp["proof_of_tolerance"], "E_a_2");
            let eb2 = field(&rp["proof_of_tolerance"], "E_b_2");
            z["E"] = iv(&e_new);
            z["E_prime"] = iv(&e_new_prime);
            z["proof_of_tolerance"]["E_a_1"] = iv(&divm(&e_a, &ea2, &n));
            z["proof_of_tolerance"]["E_b_1"] = iv(&divm(&e_b, &eb2, &n));
            h.stat(&format!("C16.transplant.{}", nm));
            let v = rverify(h, &z, &g, &hh, &n, &a, &b);
            h.expect(!v.is_true(), "C16.transplant", &format!("sub-proofs transplanted onto a commitment to {} are accepted", nm), &[h.last()]);
        }
        // single-field edits
        let mut lv = Vec::new();
        leaves(&rp, String::new(), &mut lv);
        let picks: Vec<usize> = if h.thorough && wi < 2 { (0..lv.len()).collect() } else { (0..5).map(|_| h.rng.below(lv.len() as u64) as usize).collect() };
        for li in picks {
            if leaf_budget <= 0 { break; }
            leaf_budget -= 1;
            let (path, old) = lv[li].clone();
            let edit = (li + h.rng.below(2) as usize * 3) % 6;
            if edit == 2 && old == 0 { continue; }
            let mut z = rp.clone();
            let mut cnt = 0usize;
            let f: Box<dyn Fn(&Integer) -> Integer> = match edit {
                0 => Box::new(|x| Integer::from(x + 1u32)),
                1 => Box::new(|x| Integer::from(x - 1u32)),
                2 => Box::new(|_| Integer::from(0)),
                3 => Box::new(|x| Integer::from(x + (Integer::from(1) << 128))),
                4 => Box::new(|x| Integer::from(x + (Integer::from(1) << 255))),
                _ => Box::new(|x| Integer::from(x + (Integer::from(0xdeadbeefu32) << 300))),
            };
            map_leaf(&mut z, &mut cnt, li, &*f);
            h.stat("C16.leaf_edit");
            let v = rverify(h, &z, &g, &hh, &n, &a, &b);
            h.expect(!v.is_true(), "C16.leaf_edit", &format!("range proof accepted with field {} altered", path), &[h.last()]);
        }
        // hash-valued leaves shifted by multiples of 2^128 (a verifier that compares challenges modulo 2^t)
        for (li, (path, _)) in lv.iter().enumerate() {
            if path.ends_with(".C") || path.ends_with(".challenge") {
                for sh in [128u32, 129, 200, 255, 256] {
                    let mut z = rp.clone();
                    let mut cnt = 0usize;
                    let f = move |x: &Integer| Integer::from(x + (Integer::from(1) << sh));
                    map_leaf(&mut z, &mut cnt, li, &f);
                    h.stat("C16.challenge_shift");
                    let v = rverify(h, &z, &g, &hh, &n, &a, &b);
                    h.expect(!v.is_true(), "C16.challenge_shift", &format!("range proof accepted with {} shifted by 2^{}", path, sh), &[h.last()]);
                }
            }
        }
        let _ = (c, x);
    }
    let _ = json!(0);
}
