use crate::H;
pub fn c16(_h: &mut H) {}
