// C16: Boudot range proof -- in-range values prove, nothing else is accepted
use super::*;
use crate::flat::*;
use crate::ops::*;
use crate::H;
use rug::Integer;
use serde_json::{json, Value};

pub fn rverify(h: &mut H, rp: &Value, g: &Integer, hh: &Integer, n: &Integer, a: &Integer, b: &Integer) -> Out {
    call(h, "cl.rverify", vec![rp.clone(), iv(g), iv(hh), iv(n), iv(a), iv(b)], vec![]).0
}

pub fn rprove(h: &mut H, x: &Integer, c: &Value, g: &Integer, hh: &Integer, n: &Integer, a: &Integer, b: &Integer, inject: Vec<(String, Integer)>) -> (Out, Vec<(String, Integer)>) {
    call(h, "cl.rprove", vec![iv(x), c.clone(), iv(g), iv(hh), iv(n), iv(a), iv(b)], inject)
}

/// commitment g^x h^r mod n with an ln-bit r, as commit_with_commitment_pk does (one base)
pub fn commit1(h: &mut H, cpk1: &Value, x: &Integer) -> Value {
    let (c, _) = call(h, "cl.commitcpk", vec![cpk1.clone(), ivs(&[x.clone()]), Value::Null], vec![]);
    c.ok().expect("commit").clone()
}

fn tt_of(a: &Integer, b: &Integer) -> u32 {
    2 * (128 + 40 + 1) + Integer::from(b - a).significant_bits()
}

fn divm(a: &Integer, b: &Integer, n: &Integer) -> Integer {
    let bi = b.clone().invert(n).expect("unit");
    Integer::from(a * bi) % n
}

fn sha_int(s: &str) -> Integer {
    use sha2::Digest;
    let d = sha2::Sha256::digest(s.as_bytes());
    Integer::from_digits(d.as_slice(), rug::integer::Order::MsfBe)
}

fn rnd_below(h: &mut H, bound: &Integer) -> Integer {
    let nb = (bound.significant_bits() as usize + 71) / 8;
    Integer::from_digits(&h.rng.bytes(nb), rug::integer::Order::MsfBe) % bound
}

/// Algorithm 1/3 run by a prover who knows the opening (x, r_1) of E = g^(x^2) h^(r_1)
fn craft_square(h: &mut H, x: &Integer, r_1: &Integer, e: &Integer, g: &Integer, hh: &Integer, n: &Integer, b: &Integer) -> Value {
    let (t, l, s, s1, s2) = (128u32, 40u32, 40u32, 40u32, 552u32);
    let r_2 = rnd_below(h, &Integer::from(pow2(s) * n));
    let f = Integer::from(powm(g, x, n) * powm(hh, &r_2, n)) % n;
    let r_3 = Integer::from(r_1 - Integer::from(&r_2 * x));
    let omega = rnd_below(h, &Integer::from(pow2(l + t) * b)) + 1u32;
    let mu_1 = rnd_below(h, &Integer::from(pow2(l + t + s1) * n)) + 1u32;
    let mu_2 = rnd_below(h, &Integer::from(pow2(l + t + s2) * n)) + 1u32;
    let w_1 = Integer::from(powm(g, &omega, n) * powm(hh, &mu_1, n)) % n;
    let w_2 = Integer::from(powm(&f, &omega, n) * powm(hh, &mu_2, n)) % n;
    let ch = sha_int(&(w_1.to_string() + &w_2.to_string()));
    let d = Integer::from(&omega + Integer::from(&ch * x));
    let d_1 = Integer::from(&mu_1 + Integer::from(&ch * &r_2));
    let d_2 = Integer::from(&mu_2 + Integer::from(&ch * &r_3));
    json!({"E": iv(e), "F": iv(&f), "proof_ss": {"challenge": iv(&ch), "d": iv(&d), "d_1": iv(&d_1), "d_2": iv(&d_2)}})
}

/// Algorithm 5 run by a prover who knows the opening (x, r) of the committed remainder and chooses the
/// masking value `w` freely (the Fiat-Shamir hash covers only g^w h^nu, so every w gives a consistent proof)
fn craft_large(h: &mut H, x: &Integer, r: &Integer, w: &Integer, g: &Integer, hh: &Integer, n: &Integer, tt: u32) -> (Value, Integer, Integer) {
    let (t, l, s) = (128u32, 40u32, 40u32);
    let nu = rnd_below(h, &Integer::from(pow2(tt + t + l + s) * n));
    let omega = Integer::from(powm(g, w, n) * powm(hh, &nu, n)) % n;
    let cc = sha_int(&omega.to_string());
    let c = Integer::from(&cc % pow2(t));
    let d_1 = Integer::from(w + Integer::from(x * &c));
    let d_2 = Integer::from(&nu + Integer::from(r * &c));
    (json!({"C": iv(&cc), "D_1": iv(&d_1), "D_2": iv(&d_2)}), c, d_1)
}

/// A whole range proof assembled by a prover who knows the opening (x, r) of E = g^x h^r and who, unlike
/// the honest prover, decomposes a NEGATIVE distance to the interval end as 0^2 + (negative remainder).
/// `w_of(side, remainder)` picks the masking value of the larger-interval sub-proof of each side.
/// `shifted` = decomposition points aa = 2^T a - kk, bb = 2^T b + kk as before the repair of F13
/// (otherwise 2^T a, 2^T b as in the code now).
pub fn craft_range(h: &mut H, x: &Integer, r: &Integer, e: &Integer, g: &Integer, hh: &Integer, n: &Integer, a: &Integer, b: &Integer, shifted: bool, w_of: &dyn Fn(&str, &Integer) -> Integer) -> Value {
    let (t, l, s) = (128u32, 40u32, 40u32);
    let tt = 2 * (t + l + 1) + Integer::from(b - a).significant_bits();
    let kk = if shifted { pow2(l + t + tt / 2 + 1) * Integer::from(b - a).sqrt() } else { Integer::from(0) };
    let aa = Integer::from(pow2(tt) * a) - &kk;
    let bb = Integer::from(pow2(tt) * b) + &kk;
    let xp = Integer::from(pow2(tt) * x);
    let rp = Integer::from(pow2(tt) * r);
    let e_prime = powm(e, &pow2(tt), n);
    let split = |d: Integer| -> (Integer, Integer) {
        if d < 0 { (Integer::from(0), d) } else { let q = d.clone().sqrt(); let rem = d - Integer::from(&q * &q); (q, rem) }
    };
    let (x_a_1, x_a_2) = split(Integer::from(&xp - &aa));
    let (x_b_1, x_b_2) = split(Integer::from(&bb - &xp));
    let rb = Integer::from(pow2(s + tt) * n);
    let r_a_1 = rnd_below(h, &rb);
    let r_a_2 = Integer::from(&rp - &r_a_1);
    let r_b_1 = rnd_below(h, &rb);
    let r_b_2 = Integer::from(-rp.clone()) - &r_b_1;
    let com = |x: &Integer, r: &Integer| Integer::from(powm(g, x, n) * powm(hh, r, n)) % n;
    let e_a_1 = com(&Integer::from(&x_a_1 * &x_a_1), &r_a_1);
    let e_a_2 = com(&x_a_2, &r_a_2);
    let e_b_1 = com(&Integer::from(&x_b_1 * &x_b_1), &r_b_1);
    let e_b_2 = com(&x_b_2, &r_b_2);
    let sq_a = craft_square(h, &x_a_1, &r_a_1, &e_a_1, g, hh, n, b);
    let sq_b = craft_square(h, &x_b_1, &r_b_1, &e_b_1, g, hh, n, b);
    let (li_a, _, _) = craft_large(h, &x_a_2, &r_a_2, &w_of("a", &x_a_2), g, hh, n, tt);
    let (li_b, _, _) = craft_large(h, &x_b_2, &r_b_2, &w_of("b", &x_b_2), g, hh, n, tt);
    json!({
        "E": iv(e), "E_prime": iv(&e_prime),
        "proof_of_tolerance": {
            "E_a_1": iv(&e_a_1), "E_a_2": iv(&e_a_2), "E_b_1": iv(&e_b_1), "E_b_2": iv(&e_b_2),
            "proof_of_square_a": sq_a, "proof_of_square_b": sq_b,
            "proof_large_i_a": li_a, "proof_large_i_b": li_b,
        }
    })
}

pub fn c16(h: &mut H) {
    let k = keygen(h, 1);
    let (ck, _) = cpk(h, Some(&k.n_mod), 1);
    let n = k.n_mod.clone();
    let g = int_of(&ck["g_bases"][0]);
    let hh = field(&ck, "h");
    let (ck_other, _) = cpk(h, Some(&k.n_mod), 1);
    let g2 = int_of(&ck_other["g_bases"][0]);
    let hh2 = field(&ck_other, "h");
    let mut widths: Vec<Integer> = vec![Integer::from(1), Integer::from(2), Integer::from(3), pow2(8), pow2(64), pow2(256) - 1];
    if h.thorough {
        widths.extend(vec![pow2(16) + 1, pow2(128), pow2(257), pow2(512)]);
    }
    let lows: Vec<Integer> = vec![Integer::from(0), Integer::from(1), pow2(257) + 1, Integer::from(12345)];
    let mut leaf_budget: i64 = if h.thorough { 300 } else { 30 };
    for (wi, w) in widths.iter().enumerate() {
        let a = lows[wi % lows.len()].clone();
        let b = Integer::from(&a + w);
        let mid = Integer::from(&a + Integer::from(w / 2u32));
        let mut xs: Vec<Integer> = vec![a.clone(), Integer::from(&a + 1u32), mid, Integer::from(&b - 1u32), b.clone()];
        let r = Integer::from(h.rng.next()) % (w.clone() + 1u32);
        xs.push(Integer::from(&a + r));
        xs.sort();
        xs.dedup();
        let mut honest: Option<(Value, Value, Integer)> = None;
        for x in &xs {
            h.stat(&format!("C16.width_bits={}", w.significant_bits()));
            let c = commit1(h, &ck, x);
            let (rp, _) = rprove(h, x, &c, &g, &hh, &n, &a, &b, vec![]);
            let pid = h.last();
            let rp = match rp.ok() {
                Some(v) => v.clone(),
                None => {
                    h.expect(false, "C16.prove", "prove panicked for a value inside [min, max]", &[pid]);
                    continue;
                }
            };
            let v = rverify(h, &rp, &g, &hh, &n, &a, &b);
            h.expect(v.is_true(), "C16.verify", "honest range proof does not verify", &[pid, h.last()]);
            h.expect(rp["E"] == c["value"], "C16.E", "range proof is not about the given commitment", &[pid]);
            if honest.is_none() || *x == xs[xs.len() / 2] {
                honest = Some((rp, c, x.clone()));
            }
        }
        // outside values: the honest prover produces nothing that verifies
        for x in [Integer::from(&a - 1u32), Integer::from(&b + 1u32), Integer::from(&a - pow2(40)), Integer::from(&b + pow2(300))] {
            let c = commit1(h, &ck, &x);
            let (rp, _) = rprove(h, &x, &c, &g, &hh, &n, &a, &b, vec![]);
            let pid = h.last();
            h.stat("C16.outside");
            if let Some(rp) = rp.ok().cloned() {
                let v = rverify(h, &rp, &g, &hh, &n, &a, &b);
                h.expect(!v.is_true(), "C16.outside", "a range proof for a value outside [min, max] verifies", &[pid, h.last()]);
            }
        }
        let (rp, c, x) = match honest { Some(t) => t, None => continue };
        let reject = |h: &mut H, class: &str, rp: &Value, g_: &Integer, h_: &Integer, n_: &Integer, a_: &Integer, b_: &Integer| {
            h.stat(&format!("C16.neg.{}", class));
            let v = rverify(h, rp, g_, h_, n_, a_, b_);
            h.expect(!v.is_true(), &format!("C16.{}", class), "range proof accepted for something it was not made for", &[h.last()]);
        };
        // other bounds, bases, modulus
        reject(h, "other_min", &rp, &g, &hh, &n, &Integer::from(&a + 1u32), &Integer::from(&b + 1u32));
        reject(h, "other_max", &rp, &g, &hh, &n, &a, &Integer::from(&b + 1u32));
        if *w > 1 {
            reject(h, "narrower", &rp, &g, &hh, &n, &a, &Integer::from(&b - 1u32));
        }
        reject(h, "other_g", &rp, &g2, &hh, &n, &a, &b);
        reject(h, "other_h", &rp, &g, &hh2, &n, &a, &b);
        reject(h, "bases_swapped", &rp, &hh, &g, &n, &a, &b);
        reject(h, "other_modulus", &rp, &g, &hh, &Integer::from(&n + 2u32), &a, &b);
        // transplant the sub-proofs onto another commitment E' (DESIGN F8)
        let t = 2 * (128 + 40 + 1) + Integer::from(&b - &a).significant_bits();
        let targets: Vec<(&str, Integer)> = vec![
            ("a_minus_1", Integer::from(&a - 1u32)),
            ("b_plus_1", Integer::from(&b + 1u32)),
            ("a_minus_2k", Integer::from(&a - pow2(50))),
        ];
        let mut eprimes: Vec<(String, Integer)> = Vec::new();
        for (nm, xv) in targets {
            let c2 = commit1(h, &ck, &xv);
            eprimes.push((nm.to_string(), field(&c2, "value")));
        }
        let rnd = Integer::from(Integer::from(h.rng.next()) * Integer::from(h.rng.next())).pow_mod(&Integer::from(2), &n).unwrap();
        eprimes.push(("random_element".to_string(), rnd));
        for (nm, e_new) in eprimes {
            let mut z = rp.clone();
            let e_new_prime = powm(&e_new, &pow2(t), &n);
            // recompute E_a, E_b for the new E' and re-derive E_a_1, E_b_1 from the honest E_a_2, E_b_2
            // decomposition points of Algorithm 8 (2^T a, 2^T b since the repair of F13)
            let aa = Integer::from(pow2(t) * &a);
            let bb = Integer::from(pow2(t) * &b);
            let e_a = divm(&e_new_prime, &powm(&g, &aa, &n), &n);
            let e_b = divm(&powm(&g, &bb, &n), &e_new_prime, &n);
            let ea2 = field(&rp["proof_of_tolerance"], "E_a_2");
            let eb2 = field(&rp["proof_of_tolerance"], "E_b_2");
            z["E"] = iv(&e_new);
            z["E_prime"] = iv(&e_new_prime);
            z["proof_of_tolerance"]["E_a_1"] = iv(&divm(&e_a, &ea2, &n));
            z["proof_of_tolerance"]["E_b_1"] = iv(&divm(&e_b, &eb2, &n));
            // harness self-check: with the HONEST commitment as target the same construction reproduces the honest
            // E_a_1, E_b_1 (otherwise the transplant below would be rejected for a trivial reason)
            {
                let e_hon = field(&rp, "E");
                let ehp = powm(&e_hon, &pow2(t), &n);
                let ea_h = divm(&ehp, &powm(&g, &aa, &n), &n);
                let eb_h = divm(&powm(&g, &bb, &n), &ehp, &n);
                let ok = divm(&ea_h, &ea2, &n) == field(&rp["proof_of_tolerance"], "E_a_1") && divm(&eb_h, &eb2, &n) == field(&rp["proof_of_tolerance"], "E_b_1");
                h.expect(ok, "C16.transplant_selfcheck", "the harness' transplant construction does not reproduce the honest decomposition commitments (harness out of date?)", &[]);
            }
            h.stat(&format!("C16.transplant.{}", nm));
            let v = rverify(h, &z, &g, &hh, &n, &a, &b);
            h.expect(!v.is_true(), "C16.transplant", &format!("sub-proofs transplanted onto a commitment to {} are accepted", nm), &[h.last()]);
            // the same transplant with DEGENERATE proofs of square: F not invertible (0 or N), so that every
            // power of F is 0 and the two recomputed commitments are 0 whatever E is; challenge = H("0" || "0")
            for fdeg in [Integer::from(0), n.clone()] {
                let mut z2 = z.clone();
                let ch = sha_int("00");
                for side in ["a", "b"] {
                    let e1 = z2["proof_of_tolerance"][format!("E_{}_1", side)].clone();
                    z2["proof_of_tolerance"][format!("proof_of_square_{}", side)] = json!({
                        "E": e1, "F": iv(&fdeg),
                        "proof_ss": {"challenge": iv(&ch), "d": iv(&Integer::from(1)), "d_1": iv(&Integer::from(1)), "d_2": iv(&Integer::from(1))}
                    });
                }
                h.stat("C16.transplant_degenerate_square");
                let v = rverify(h, &z2, &g, &hh, &n, &a, &b);
                h.expect(!v.is_true(), "C16.transplant_degenerate_square", &format!("sub-proofs transplanted onto a commitment to {} are accepted with proofs of square whose F is not invertible", nm), &[h.last()]);
            }
        }
        // single-field edits
        let mut lv = Vec::new();
        leaves(&rp, String::new(), &mut lv);
        let picks: Vec<usize> = if h.thorough && wi < 2 { (0..lv.len()).collect() } else { (0..5).map(|_| h.rng.below(lv.len() as u64) as usize).collect() };
        for li in picks {
            if leaf_budget <= 0 { break; }
            leaf_budget -= 1;
            let (path, old) = lv[li].clone();
            let edit = (li + h.rng.below(2) as usize * 3) % 6;
            if edit == 2 && old == 0 { continue; }
            let mut z = rp.clone();
            let mut cnt = 0usize;
            let f: Box<dyn Fn(&Integer) -> Integer> = match edit {
                0 => Box::new(|x| Integer::from(x + 1u32)),
                1 => Box::new(|x| Integer::from(x - 1u32)),
                2 => Box::new(|_| Integer::from(0)),
                3 => Box::new(|x| Integer::from(x + (Integer::from(1) << 128))),
                4 => Box::new(|x| Integer::from(x + (Integer::from(1) << 255))),
                _ => Box::new(|x| Integer::from(x + (Integer::from(0xdeadbeefu32) << 300))),
            };
            map_leaf(&mut z, &mut cnt, li, &*f);
            h.stat("C16.leaf_edit");
            let v = rverify(h, &z, &g, &hh, &n, &a, &b);
            h.expect(!v.is_true(), "C16.leaf_edit", &format!("range proof accepted with field {} altered", path), &[h.last()]);
        }
        // every leaf replaced by ANOTHER REPRESENTATIVE of the same residue (value + N, value - N): the proof is a
        // different object; the property demands that any altered field is rejected
        if wi < 2 || h.thorough {
            for (li, (path, _)) in lv.iter().enumerate() {
                for sign in [1i32, -1] {
                    let mut z = rp.clone();
                    let mut cnt = 0usize;
                    let nn = n.clone();
                    let f = move |x: &Integer| if sign > 0 { Integer::from(x + &nn) } else { Integer::from(x - &nn) };
                    map_leaf(&mut z, &mut cnt, li, &f);
                    h.stat("C16.leaf_plus_N");
                    let v = rverify(h, &z, &g, &hh, &n, &a, &b);
                    h.expect(!v.is_true(), "C16.leaf_other_representative", &format!("range proof accepted with field {} replaced by value {} N", path, if sign > 0 { "+" } else { "-" }), &[h.last()]);
                }
            }
        }
        // group elements replaced by their NEGATIVES modulo n (n - x): another field value, the same square
        for (li, (path, val)) in lv.iter().enumerate() {
            if *val <= 0 || *val >= n || val.significant_bits() + 64 < n.significant_bits() { continue; }
            if path.ends_with(".C") || path.ends_with(".challenge") || path.contains(".D") || path.ends_with(".d") || path.contains(".d_") { continue; }
            let mut z = rp.clone();
            let mut cnt = 0usize;
            let nn = n.clone();
            let f = move |x: &Integer| Integer::from(&nn - x);
            map_leaf(&mut z, &mut cnt, li, &f);
            h.stat("C16.leaf_negated");
            let v = rverify(h, &z, &g, &hh, &n, &a, &b);
            // (known findings F16 / F17 are exactly the fields E and proof_of_square_{a,b}.F; any other negated element
            // that is accepted is a new violation)
            let class = if path == ".E" || path == "E" { "C16.leaf_negated_E".to_string() } else if path.ends_with(".F") { "C16.leaf_negated_F".to_string() } else { "C16.leaf_negated".to_string() };
            h.expect(!v.is_true(), &class, &format!("range proof accepted with the group element {} replaced by its negative modulo n", path), &[h.last()]);
        }
        // hash-valued leaves shifted by multiples of 2^128 (a verifier that compares challenges modulo 2^t)
        for (li, (path, _)) in lv.iter().enumerate() {
            if path.ends_with(".C") || path.ends_with(".challenge") {
                for sh in [128u32, 129, 200, 255, 256] {
                    let mut z = rp.clone();
                    let mut cnt = 0usize;
                    let f = move |x: &Integer| Integer::from(x + (Integer::from(1) << sh));
                    map_leaf(&mut z, &mut cnt, li, &f);
                    h.stat("C16.challenge_shift");
                    let v = rverify(h, &z, &g, &hh, &n, &a, &b);
                    h.expect(!v.is_true(), "C16.challenge_shift", &format!("range proof accepted with {} shifted by 2^{}", path, sh), &[h.last()]);
                }
            }
        }
        // a prover who knows the opening but does not follow the algorithm
        {
            let (t, l) = (128u32, 40u32);
            let tt = tt_of(&a, &b);
            let r = field(&c, "randomness");
            let e = field(&c, "value");
            // bound of the remainders and the admissible interval [c*b_2, upper] of the response D_1 (Algorithm 6)
            let b_2 = Integer::from(2) * Integer::from(pow2(tt) * Integer::from(&b - &a)).sqrt();
            let upper = Integer::from(pow2(t + l) * &b_2) - 1u32;
            let mid_w = Integer::from(&upper / 2u32);
            // (i) in-range value, self-made proof: accepted (the crafted prover is a faithful re-implementation)
            let z = craft_range(h, &x, &r, &e, &g, &hh, &n, &a, &b, false, &|_, _| mid_w.clone());
            let v = rverify(h, &z, &g, &hh, &n, &a, &b);
            h.stat("C16.crafted.in_range");
            h.expect(v.is_true(), "C16.crafted_selfcheck", "a crafted proof for an in-range value (masking value in the middle of its range) is rejected", &[h.last()]);
            // (ii) in-range value, response D_1 of one side pushed just past either bound of Algorithm 6: rejected
            for side in ["a", "b"] {
                for over in [true, false] {
                    // D_1 = w + x2*c with c unknown before hashing: search a few w around the bound
                    let mut found = false;
                    for attempt in 0..40u32 {
                        let guess_c = rnd_below(h, &pow2(t));
                        let sd = side.to_string();
                        let b2c = b_2.clone();
                        let up = upper.clone();
                        let mw = mid_w.clone();
                        let gc = guess_c.clone();
                        let w_of = move |s2: &str, x2: &Integer| -> Integer {
                            if s2 != sd { return mw.clone(); }
                            if over { Integer::from(&up + 1u32) + attempt } else { Integer::from(&gc * &b2c) - Integer::from(x2 * &gc) - 1u32 - attempt }
                        };
                        let z = craft_range(h, &x, &r, &e, &g, &hh, &n, &a, &b, false, &w_of);
                        let li = &z["proof_of_tolerance"][format!("proof_large_i_{}", side)];
                        let cc = Integer::from(field(li, "C") % pow2(t));
                        let d1 = field(li, "D_1");
                        let outside = if over { d1 > upper } else { d1 < Integer::from(&cc * &b_2) };
                        if !outside { continue; }
                        found = true;
                        h.stat(&format!("C16.crafted.D1_{}_{}", if over { "above" } else { "below" }, side));
                        let v = rverify(h, &z, &g, &hh, &n, &a, &b);
                        h.expect(!v.is_true(), "C16.crafted_bound", &format!("range proof accepted with the response D_1 of side {} {} its admissible interval", side, if over { "above" } else { "below" }), &[h.last()]);
                        break;
                    }
                    if !found { h.stat("C16.crafted.bound_not_hit"); }
                }
            }
            // (iii) out-of-range values with a known opening: nothing the prover assembles may be accepted (DESIGN F13)
            for (nm, xo) in [("b_plus_1", Integer::from(&b + 1u32)), ("a_minus_1", Integer::from(&a - 1u32)), ("b_plus_2k", Integer::from(&b + pow2(20))), ("twice_b_plus_3", Integer::from(&b * 2u32) + 3u32)] {
                let co = commit1(h, &ck, &xo);
                let (ro, eo) = (field(&co, "randomness"), field(&co, "value"));
                // negative distance decomposed as 0^2 + negative remainder; masking values: the middle of the
                // honest range, the middle of the range the verifier tolerated before F13 was repaired, and a
                // value aimed at a challenge of 2^(t-1)
                let old_mid = Integer::from(pow2(tt + t + l - 1) * &b);
                let strategies: Vec<(&str, bool, Box<dyn Fn(&str, &Integer) -> Integer>)> = vec![
                    ("mid", false, { let m = mid_w.clone(); Box::new(move |_, _| m.clone()) }),
                    ("wide", false, { let m = old_mid.clone(); Box::new(move |_, _| m.clone()) }),
                    ("wide_shifted", true, { let m = old_mid.clone(); Box::new(move |_, _| m.clone()) }),
                    ("aimed", false, { let m = mid_w.clone(); Box::new(move |_, x2: &Integer| if *x2 < 0 { Integer::from(&m - Integer::from(x2 * pow2(127))) } else { m.clone() }) }),
                ];
                for (sn, shifted, w_of) in strategies {
                    let z = craft_range(h, &xo, &ro, &eo, &g, &hh, &n, &a, &b, shifted, &*w_of);
                    h.stat(&format!("C16.crafted.out_of_range.{}.{}", nm, sn));
                    let v = rverify(h, &z, &g, &hh, &n, &a, &b);
                    h.expect(!v.is_true(), "C16.cheating_prover_out_of_range", &format!("a prover who knows the opening of a commitment to {} (outside [min, max]) assembles a range proof that is accepted (strategy {})", nm, sn), &[h.last()]);
                }
            }
        }
    }
    // ONE masking draw of a larger-interval sub-proof at the very top of its range (w = 2^(t+l)*b_2 - 1, the other
    // draws as recorded): D_1 = w + x*c overshoots the window, the prover has to restart with fresh draws, and what it
    // returns verifies. (If the bound computed here were too large, the model's tape contract would refuse the tape and
    // the correspondence would say so on the unchanged tree.)
    {
        let a = Integer::from(12345);
        let b = Integer::from(12345 + 1000);
        let x = Integer::from(12345 + 555);
        let (t, l) = (128u32, 40u32);
        let tt = tt_of(&a, &b);
        let b2 = Integer::from(Integer::from(pow2(tt) * Integer::from(&b - &a)).sqrt() * 2u32);
        let w_max = Integer::from(pow2(t + l) * &b2) - 1u32;
        let c = commit1(h, &ck, &x);
        let (rp0, tape) = rprove(h, &x, &c, &g, &hh, &n, &a, &b, vec![]);
        if rp0.ok().is_some() && tape.len() == 14 {
            // likewise the two draws that split the commitment randomness (r_a_1, r_b_1, draws 0 and 1) at the top of
            // their range 2^(s+T)*n - 1: the other half then falls outside its bound and the prover has to redraw
            let r_max = Integer::from(pow2(40 + tt) * &n) - 1u32;
            for idx in [10usize, 12, 0, 1] {
                // (r_a_2 = r - r_a_1 leaves the bound for r_a_1 = -max, r_b_2 = -r - r_b_1 for r_b_1 = +max)
                let top = if idx >= 10 { w_max.clone() } else if idx == 0 { Integer::from(-&r_max) } else { r_max.clone() };
                // (the draws at these positions have about bits(top) bits)
                if tape[idx].1.clone().abs().significant_bits() + 8 < top.significant_bits() || tape[idx].1.clone().abs() > top.clone().abs() { continue; }
                // (the tape is cut after the boundary value: a restart shifts every later draw, and the recorded values
                // would then be injected into draws with other ranges)
                let mut t2 = tape[..=idx].to_vec();
                t2[idx].1 = top.clone();
                let (rp2, used) = rprove(h, &x, &c, &g, &hh, &n, &a, &b, t2);
                let pid = h.last();
                h.stat("C16.boundary_w");
                h.stat(if used.len() > 14 { "C16.boundary_w.prover_restarted" } else { "C16.boundary_w.no_restart" });
                h.expect(used.len() > 14, "C16.boundary_selfcheck", "the injected boundary draw did not make the prover restart: either the prover no longer redraws when a part falls outside its bound, or the bound computed by the harness no longer mirrors the implementation", &[pid]);
                match rp2.ok().cloned() {
                    Some(rp2) => {
                        let v = rverify(h, &rp2, &g, &hh, &n, &a, &b);
                        h.expect(v.is_true(), "C16.verify_boundary_w", "an honest range proof whose masking draw w was at the top of its range does not verify (the prover did not restart)", &[pid, h.last()]);
                    }
                    None => h.expect(false, "C16.prove", "prove panicked with a masking draw at the top of its range", &[pid]),
                }
            }
        }
    }
    // hash values with LEADING ZERO octets (one hash in 256): honest proofs whose Fiat-Shamir challenges happen to be
    // short must verify like any other. Proofs are generated with the production randomness until a few such
    // challenges have been seen (about one proof in 64 has one).
    {
        let a = Integer::from(10);
        let b = Integer::from(1000);
        let tries = if h.thorough { 1200 } else { 260 };
        let mut hits = 0u32;
        for t in 0..tries {
            if hits >= 4 { break; }
            let x = Integer::from(10 + (t * 37) % 991);
            let c = commit1(h, &ck, &x);
            let (rp, _) = rprove(h, &x, &c, &g, &hh, &n, &a, &b, vec![]);
            let pid = h.last();
            let rp = match rp.ok() { Some(v) => v.clone(), None => continue };
            let mut lv = Vec::new();
            leaves(&rp, String::new(), &mut lv);
            let short = lv.iter().any(|(p, v)| (p.ends_with(".C") || p.ends_with(".challenge")) && *v >= 0 && v.significant_bits() <= 248);
            if !short { continue; }
            hits += 1;
            h.stat("C16.short_challenge");
            let v = rverify(h, &rp, &g, &hh, &n, &a, &b);
            h.expect(v.is_true(), "C16.verify_short_challenge", "an honest range proof one of whose challenges has a leading zero octet does not verify", &[pid, h.last()]);
        }
    }
    let _ = json!(0);
}
