// C05 (blind issuance + presentation completeness), C06 (blind soundness)
use super::gen_proof::{rand_scalar_bytes, rand_tape};
use super::*;
use crate::ops::*;
use crate::H;
use bls12_381_plus::Scalar;
use elliptic_curve::hash2curve::ExpandMsg;
use zkryptium::bbsplus::ciphersuites::BbsCiphersuite;
use zkryptium::bbsplus::keys::{BBSplusPublicKey, BBSplusSecretKey};
use zkryptium::bbsplus::signature::BBSplusSignature;

pub struct BlindRun {
    pub cwp: Vec<u8>,
    pub blind: [u8; 32],
    pub sig: BBSplusSignature,
}

/// commit -> blind_sign -> verify_blind_sign, all expected to succeed
pub fn honest_issue<CS: BbsCiphersuite>(
    h: &mut H,
    sk: &BBSplusSecretKey,
    pk: &BBSplusPublicKey,
    hdr: Option<&[u8]>,
    msgs: &[Vec<u8>],
    cmsgs: &[Vec<u8>],
    inject: bool,
) -> Option<BlindRun>
where
    CS::Expander: for<'a> ExpandMsg<'a>,
{
    let m = cmsgs.len();
    h.stat(&format!("blind.L={}.M={}", msgs.len(), m));
    let tape = if inject { rand_tape(h, m + 2) } else { vec![] };
    let cm_arg: Option<&[Vec<u8>]> = if m == 0 && h.rng.chance(1, 2) { None } else { Some(cmsgs) };
    let (c, draws) = commit::<CS>(h, cm_arg, tape);
    let cid = h.last();
    h.expect(draws.len() == m + 2, "C05.draws", "commit did not draw M + 2 scalars", &[cid]);
    h.expect(c.is_ok(), "C05.commit", "commit failed", &[cid]);
    let (c, bf) = c.ok()?;
    let cwp = c.to_bytes();
    h.expect(cwp.len() == 48 + 32 * (m + 2), "C05.commit_len", "commitment length is not 48 + 32*(M+2)", &[cid]);
    let blind = bf.to_bytes();
    let s = blindsign::<CS>(h, sk, pk, Some(&cwp), hdr, Some(msgs));
    let sid = h.last();
    h.expect(s.is_ok(), "C05.blind_sign", "blind_sign refused an honest commitment", &[cid, sid]);
    let s = s.ok()?;
    let sig = s.bbsPlusBlindSignature().clone();
    let v = verifyblind::<CS>(h, pk, &sig, hdr, Some(msgs), Some(cmsgs), Some(&blind));
    let vid = h.last();
    h.expect(v.is_ok(), "C05.verify_blind", "honest blind signature does not verify", &[cid, sid, vid]);
    Some(BlindRun { cwp, blind, sig })
}

pub fn honest_blind_proof<CS: BbsCiphersuite>(
    h: &mut H,
    pk: &BBSplusPublicKey,
    run: &BlindRun,
    hdr: Option<&[u8]>,
    ph: Option<&[u8]>,
    msgs: &[Vec<u8>],
    cmsgs: &[Vec<u8>],
    d: &[usize],
    dc: &[usize],
    inject: bool,
) -> Option<Pok<CS>>
where
    CS::Expander: for<'a> ExpandMsg<'a>,
{
    let (l, m) = (msgs.len(), cmsgs.len());
    let u = l + m + 1 - d.len() - dc.len();
    let tape = if inject { rand_tape(h, 5 + u) } else { vec![] };
    let sb = run.sig.to_bytes();
    let (p, draws) = blindproofgen::<CS>(h, pk, &sb, hdr, ph, Some(msgs), Some(cmsgs), Some(d), Some(dc), Some(&run.blind), tape);
    let gid = h.last();
    h.expect(draws.len() == 5 + u, "C05.proof_draws", "blind_proof_gen did not draw 5 + U scalars", &[gid]);
    h.expect(p.is_ok(), "C05.blind_proof_gen", "blind_proof_gen failed", &[gid]);
    let p = p.ok()?;
    h.expect(p.to_bytes().len() == 272 + 32 * u, "C05.proof_len", "blind proof length is not 272 + 32*U", &[gid]);
    let dm = pick_msgs(msgs, d);
    let dcm = pick_msgs(cmsgs, dc);
    let v = blindproofverify::<CS>(h, pk, &p, hdr, ph, Some(l), Some(&dm), Some(&dcm), Some(d), Some(dc));
    let vid = h.last();
    h.expect(v.is_ok(), "C05.blind_proof_verify", "honest blind proof does not verify", &[gid, vid]);
    Some(p)
}

pub fn c05<CS: BbsCiphersuite>(h: &mut H)
where
    CS::Expander: for<'a> ExpandMsg<'a>,
{
    let thorough = h.tier_thorough;
    let (sk, pk) = rand_keypair::<CS>(h);
    let maxn = if thorough { 4 } else { 2 };
    let budget = if thorough { 6 } else { 3 };
    for l in 0..=maxn {
        for m in 0..=maxn {
            let msgs = rand_msgs(h, l);
            let cmsgs = rand_msgs(h, m);
            let hdr = rand_header(h);
            let run = match honest_issue::<CS>(h, &sk, &pk, hdr.as_deref(), &msgs, &cmsgs, (l + m) % 2 == 0) {
                Some(r) => r,
                None => continue,
            };
            if l + m <= budget {
                for (a, d) in subsets(l).into_iter().enumerate() {
                    for (b, dc) in subsets(m).into_iter().enumerate() {
                        let ph = header_of_class(h, a + b);
                        honest_blind_proof::<CS>(h, &pk, &run, hdr.as_deref(), ph.as_deref(), &msgs, &cmsgs, &d, &dc, (a + b) % 2 == 0);
                    }
                }
            } else {
                for _ in 0..2 {
                    let d = rand_subset(h, l);
                    let dc = rand_subset(h, m);
                    let ph = rand_header(h);
                    honest_blind_proof::<CS>(h, &pk, &run, hdr.as_deref(), ph.as_deref(), &msgs, &cmsgs, &d, &dc, true);
                }
            }
        }
    }
    let big: &[(usize, usize)] = if thorough { &[(10, 5), (0, 33), (257, 1), (3, 40)] } else { &[(10, 5), (0, 33)] };
    for &(l, m) in big {
        let (sk, pk) = rand_keypair::<CS>(h);
        let msgs = rand_msgs(h, l);
        let cmsgs = rand_msgs(h, m);
        let hdr = rand_header(h);
        if let Some(run) = honest_issue::<CS>(h, &sk, &pk, hdr.as_deref(), &msgs, &cmsgs, true) {
            let d = rand_subset(h, l);
            let dc = rand_subset(h, m);
            honest_blind_proof::<CS>(h, &pk, &run, hdr.as_deref(), None, &msgs, &cmsgs, &d, &dc, false);
        }
    }
    // shapes that need MANY random scalars in one operation, with the production randomness (record mode):
    // commit draws M + 2, blind_proof_gen 5 + U
    let many: &[(usize, usize)] = if thorough { &[(2, 170), (120, 48), (1, 260), (0, 1400)] } else { &[(2, 170), (120, 48)] };
    for &(l, m) in many {
        let (sk, pk) = rand_keypair::<CS>(h);
        let msgs = rand_msgs(h, l);
        let cmsgs = rand_msgs(h, m);
        let hdr = rand_header(h);
        h.stat(&format!("C05.many_scalars.L={}.M={}", l, m));
        match honest_issue::<CS>(h, &sk, &pk, hdr.as_deref(), &msgs, &cmsgs, false) {
            Some(run) => {
                let d: Vec<usize> = if l > 1 { vec![0, 1] } else { vec![] };
                honest_blind_proof::<CS>(h, &pk, &run, hdr.as_deref(), None, &msgs, &cmsgs, &d, &[], false);
            }
            None => h.expect(false, "C05.many_scalars", &format!("the blind issuance flow failed for L = {}, M = {} with the production randomness", l, m), &[h.last()]),
        }
    }
    // an absent header is the empty header, for every party of the blind flow: the signer signs with one spelling, the
    // holder verifies and proves with the other, the verifier uses the first again
    {
        let (sk, pk) = rand_keypair::<CS>(h);
        let msgs = rand_msgs(h, 2);
        let cmsgs = rand_msgs(h, 1);
        let empty: &[u8] = &[];
        for (hs, hv) in [(None, Some(empty)), (Some(empty), None)] {
            h.stat("C05.header_spelling");
            let tape = rand_tape(h, 3);
            let (c, _) = commit::<CS>(h, Some(&cmsgs), tape);
            if let Some((c, bf)) = c.ok() {
                let cwp = c.to_bytes();
                let s = blindsign::<CS>(h, &sk, &pk, Some(&cwp), hs, Some(&msgs));
                let sid = h.last();
                if let Some(s) = s.ok() {
                    let sig = s.bbsPlusBlindSignature().clone();
                    let v = verifyblind::<CS>(h, &pk, &sig, hv, Some(&msgs), Some(&cmsgs), Some(&bf.to_bytes()));
                    h.expect(v.is_ok(), "C05.none_empty_hdr", "a blind signature issued with an absent header does not verify with the empty header (or the reverse)", &[sid, h.last()]);
                    let run = BlindRun { cwp: cwp.clone(), blind: bf.to_bytes(), sig: sig.clone() };
                    let tape2 = rand_tape(h, 5 + 2);
                    let (bp, _) = blindproofgen::<CS>(h, &pk, &run.sig.to_bytes(), hv, None, Some(&msgs), Some(&cmsgs), Some(&[0]), Some(&[0]), Some(&run.blind), tape2);
                    if let Some(bp) = bp.ok() {
                        let dm = vec![msgs[0].clone()];
                        let dcm = vec![cmsgs[0].clone()];
                        let v = blindproofverify::<CS>(h, &pk, &bp, hs, Some(empty), Some(2), Some(&dm), Some(&dcm), Some(&[0]), Some(&[0]));
                        h.expect(v.is_ok(), "C05.none_empty_hdr", "a blind proof made with one spelling of the empty header / presentation header does not verify with the other", &[h.last()]);
                    }
                } else {
                    h.expect(false, "C05.blind_sign", "blind_sign refused an honest commitment", &[sid]);
                }
            }
        }
    }
    // commitments to THOUSANDS of messages (beyond 2^11; thorough: beyond 2^12 and 2^13): prover-side and signer-side
    // limits, if any, must agree -- what `commit` produces, `blind_sign` accepts
    let huge: &[(usize, usize)] = if thorough { &[(1, 2100), (0, 4100), (1, 8200)] } else { &[(1, 2100)] };
    for &(l, m) in huge {
        let (sk, pk) = rand_keypair::<CS>(h);
        let msgs = rand_msgs(h, l);
        let cmsgs: Vec<Vec<u8>> = (0..m).map(|i| format!("c{}", i).into_bytes()).collect();
        h.stat(&format!("C05.huge.L={}.M={}", l, m));
        if honest_issue::<CS>(h, &sk, &pk, None, &msgs, &cmsgs, true).is_none() {
            h.expect(false, "C05.huge", &format!("commit / blind_sign / verify_blind_sign failed for {} committed messages", m), &[h.last()]);
        }
    }
    // no commitment at all: blind_sign(None / empty) verifies with no committed messages and no blind
    for l in [0usize, 1, 3] {
        let msgs = rand_msgs(h, l);
        let hdr = rand_header(h);
        for cw in [None, Some(&[][..])] {
            let s = blindsign::<CS>(h, &sk, &pk, cw, hdr.as_deref(), Some(&msgs));
            let sid = h.last();
            h.expect(s.is_ok(), "C05.no_commit_sign", "blind_sign without commitment failed", &[sid]);
            if let Some(s) = s.ok() {
                let sig = s.bbsPlusBlindSignature().clone();
                let v = verifyblind::<CS>(h, &pk, &sig, hdr.as_deref(), Some(&msgs), None, None);
                h.expect(v.is_ok(), "C05.no_commit_verify", "blind signature without commitment does not verify", &[sid, h.last()]);
                let run = BlindRun { cwp: vec![], blind: [0u8; 32], sig };
                let d = rand_subset(h, l);
                let (p, _) = blindproofgen::<CS>(h, &pk, &run.sig.to_bytes(), hdr.as_deref(), None, Some(&msgs), None, Some(&d), None, None, vec![]);
                let gid = h.last();
                h.expect(p.is_ok(), "C05.no_commit_proof", "blind_proof_gen without commitment failed", &[gid]);
                if let Some(p) = p.ok() {
                    let dm = pick_msgs(&msgs, &d);
                    let v = blindproofverify::<CS>(h, &pk, &p, hdr.as_deref(), None, Some(l), Some(&dm), None, Some(&d), None);
                    h.expect(v.is_ok(), "C05.no_commit_proof_verify", "blind proof without commitment does not verify", &[gid, h.last()]);
                }
            }
        }
    }
}

fn flip(b: &[u8], bit: usize) -> Vec<u8> {
    let mut v = b.to_vec();
    v[bit / 8] ^= 0x80 >> (bit % 8);
    v
}

/// commitment_with_proof (M = 0) for C = Q_2*s + T, T of order 3 outside G1, with a proof that satisfies
/// the verification equation of core_commit_verify (challenge divisible by 3)
pub fn ground_small_order_commitment<CS: BbsCiphersuite>(h: &mut H, sort: u8) -> Option<Vec<u8>>
where
    CS::Expander: for<'a> ExpandMsg<'a>,
{
    use bls12_381_plus::{G1Affine, G1Projective};
    use bls12_381_plus::group::Curve;
    use zkryptium::bbsplus::generators::Generators;
    use zkryptium::utils::util::bbsplus_utils::{calculate_blind_challenge, ScalarExt};
    let mut enc = [0u8; 48];
    enc[0] = 0x80 | sort;
    let t: G1Affine = Option::from(G1Affine::from_compressed_unchecked(&enc))?;
    if bool::from(t.is_torsion_free()) || bool::from(t.is_identity()) {
        return None;
    }
    let t = G1Projective::from(t);
    let gens = Generators::create::<CS>(1, Some(&[b"BLIND_", CS::API_ID_BLIND].concat())).values;
    let q2 = gens[0];
    let mut arr = [0u8; 32];
    arr.copy_from_slice(&rand_scalar_bytes(h));
    let s = Scalar::from_be_bytes(&arr).unwrap();
    let c_pt = q2 * s + t;
    for _ in 0..200 {
        arr.copy_from_slice(&rand_scalar_bytes(h));
        let s_tilde = Scalar::from_be_bytes(&arr).unwrap();
        let cbar = q2 * s_tilde;
        let c = calculate_blind_challenge::<CS>(c_pt, cbar, &gens, Some(CS::API_ID_BLIND)).ok()?;
        let cb = c.to_be_bytes();
        let s_cap = s_tilde + s * c;
        // the verifier recomputes Cbar as Q_2*s^ + C*(-c) = Cbar + T*(-c): keep the attempts where the
        // order-3 component cancels
        if q2 * s_cap + c_pt * (-c) != cbar {
            continue;
        }
        let mut out = c_pt.to_affine().to_compressed().to_vec();
        out.extend_from_slice(&s_cap.to_be_bytes());
        out.extend_from_slice(&cb);
        return Some(out);
    }
    None
}

/// commitment_with_proof strings assembled from PUBLIC information for a point the prover cannot open, each
/// consistent with what a verifier would recompute if it lost some terms of
/// `Cbar = Q_2*s^ + sum J_i*m^_i - C*c`: everything after the first zero response (so `s^ = 0` gives the identity),
/// everything after a zero `m^_j`, the `- C*c` term alone, or all of them (all-zero responses). The challenge is the
/// hash of (C, that truncated Cbar). A correct verifier refuses every one.
pub fn forged_commitments<CS: BbsCiphersuite>(h: &mut H, m: usize) -> Vec<(&'static str, Vec<u8>)>
where
    CS::Expander: for<'a> ExpandMsg<'a>,
{
    use bls12_381_plus::group::Curve;
    use bls12_381_plus::G1Projective;
    use zkryptium::bbsplus::generators::Generators;
    use zkryptium::utils::util::bbsplus_utils::{calculate_blind_challenge, ScalarExt};
    let gens = Generators::create::<CS>(m + 1, Some(&[b"BLIND_", CS::API_ID_BLIND].concat())).values;
    let rs = |h: &mut H| -> Scalar {
        let mut a = [0u8; 32];
        a.copy_from_slice(&rand_scalar_bytes(h));
        Scalar::from_be_bytes(&a).unwrap()
    };
    let mut out = Vec::new();
    let c_pt = G1Projective::GENERATOR * rs(h);
    let mut variants: Vec<(&'static str, Vec<Scalar>, usize, bool)> = Vec::new(); // (name, responses s^ m^.., terms kept, keep the C term)
    let mut r: Vec<Scalar> = (0..m + 1).map(|_| rs(h)).collect();
    variants.push(("forged_commit_term_dropped", r.clone(), m + 1, false));
    r[0] = Scalar::ZERO;
    variants.push(("forged_zero_first_response", r.clone(), 0, false));
    if m >= 1 {
        let mut r2: Vec<Scalar> = (0..m + 1).map(|_| rs(h)).collect();
        r2[m] = Scalar::ZERO;
        variants.push(("forged_zero_last_response", r2, m, false));
    }
    variants.push(("forged_all_zero_responses", vec![Scalar::ZERO; m + 1], 0, false));
    for (nm, resp, kept, keep_c) in variants {
        let mut cbar = G1Projective::IDENTITY;
        for i in 0..kept.min(gens.len()) {
            cbar += gens[i] * resp[i];
        }
        let _ = keep_c;
        let c = match calculate_blind_challenge::<CS>(c_pt, cbar, &gens, Some(CS::API_ID_BLIND)) { Ok(c) => c, Err(_) => continue };
        let mut b = c_pt.to_affine().to_compressed().to_vec();
        for x in &resp {
            b.extend_from_slice(&x.to_be_bytes());
        }
        b.extend_from_slice(&c.to_be_bytes());
        out.push((nm, b));
    }
    out
}

/// Weak Fiat-Shamir: commitment proofs made by a prover who KNOWS an opening of C but hashes only part of the
/// transcript the verifier is supposed to bind (C and Cbar only; without the count; without the generators; without
/// C). The responses satisfy the verification equation for that challenge, so the only thing that refuses them is the
/// challenge comparison over the FULL transcript.
pub fn weak_transcript_commitments<CS: BbsCiphersuite>(h: &mut H, m: usize) -> Vec<(&'static str, Vec<u8>)>
where
    CS::Expander: for<'a> ExpandMsg<'a>,
{
    use bls12_381_plus::group::Curve;
    use bls12_381_plus::G1Projective;
    use zkryptium::bbsplus::generators::Generators;
    use zkryptium::utils::util::bbsplus_utils::{hash_to_scalar, ScalarExt};
    let gens = Generators::create::<CS>(m + 1, Some(&[b"BLIND_", CS::API_ID_BLIND].concat())).values;
    let rs = |h: &mut H| -> Scalar {
        let mut a = [0u8; 32];
        a.copy_from_slice(&rand_scalar_bytes(h));
        Scalar::from_be_bytes(&a).unwrap()
    };
    let secret: Vec<Scalar> = (0..m + 1).map(|_| rs(h)).collect();
    let tilde: Vec<Scalar> = (0..m + 1).map(|_| rs(h)).collect();
    let mut c_pt = G1Projective::IDENTITY;
    let mut cbar = G1Projective::IDENTITY;
    for i in 0..m + 1 {
        c_pt += gens[i] * secret[i];
        cbar += gens[i] * tilde[i];
    }
    let enc = |p: &G1Projective| p.to_affine().to_compressed().to_vec();
    let gens_b: Vec<u8> = gens.iter().flat_map(|g| enc(g)).collect();
    let cnt = (m as u64).to_be_bytes().to_vec();
    let dst = [CS::API_ID_BLIND, CS::H2S].concat();
    let transcripts: Vec<(&'static str, Vec<u8>)> = vec![
        ("weak_fs_points_only", [enc(&c_pt), enc(&cbar)].concat()),
        ("weak_fs_no_generators", [cnt.clone(), enc(&c_pt), enc(&cbar)].concat()),
        ("weak_fs_no_count", [gens_b.clone(), enc(&c_pt), enc(&cbar)].concat()),
        ("weak_fs_no_commitment", [cnt.clone(), gens_b.clone(), enc(&cbar)].concat()),
        // (self-check of this construction: the FULL transcript must be accepted)
        ("weak_fs_selfcheck_full_transcript", [cnt.clone(), gens_b.clone(), enc(&c_pt), enc(&cbar)].concat()),
    ];
    let mut out = Vec::new();
    for (nm, t) in transcripts {
        let c = match hash_to_scalar::<CS>(&t, &dst) { Ok(c) => c, Err(_) => continue };
        let mut b = enc(&c_pt);
        for i in 0..m + 1 {
            b.extend_from_slice(&(tilde[i] + secret[i] * c).to_be_bytes());
        }
        b.extend_from_slice(&c.to_be_bytes());
        out.push((nm, b));
    }
    out
}

pub fn c06<CS: BbsCiphersuite>(h: &mut H)
where
    CS::Expander: for<'a> ExpandMsg<'a>,
{
    let thorough = h.tier_thorough;
    let nruns = if thorough { 6 } else { 2 };
    for k in 0..nruns {
        let (sk, pk) = rand_keypair::<CS>(h);
        let (_sk2, pk2) = rand_keypair::<CS>(h);
        let l = [2usize, 1, 3, 0, 4, 2][k % 6];
        let m = [2usize, 3, 1, 2, 0, 4][k % 6];
        let msgs = distinct_msgs(h, l);
        let cmsgs = distinct_msgs(h, m);
        let hdr = rand_header(h);
        let run = match honest_issue::<CS>(h, &sk, &pk, hdr.as_deref(), &msgs, &cmsgs, true) {
            Some(r) => r,
            None => continue,
        };
        let refuse = |h: &mut H, class: &str, cwp: &[u8]| {
            h.stat(&format!("C06.commit.{}", class));
            let s = blindsign::<CS>(h, &sk, &pk, Some(cwp), hdr.as_deref(), Some(&msgs));
            let id = h.last();
            h.expect(!s.is_panic(), "C06.sign_panic", "blind_sign panicked on a bad commitment", &[id]);
            h.expect(!s.is_ok(), &format!("C06.{}", class), "signer issued a blind signature for a bad commitment", &[id]);
        };
        // a commitment outside the prime-order subgroup whose proof of correctness is consistent:
        // C = Q_2*s + T with T = (0, +-2) of order 3; the verification equation differs by c*T, so the
        // prover retries s~ until (-c)*T vanishes (a third of the attempts)
        for sort in [0u8, 0x20] {
            if let Some(cwp) = ground_small_order_commitment::<CS>(h, sort) {
                refuse(h, "small_order_component", &cwp);
                let d = dec(h, "commit", &cwp);
                h.expect(!d.is_ok(), "C06.small_order_decode", "Commitment::from_bytes decoded a commitment that is not in the prime-order group", &[h.last()]);
                let v = devc::<CS>(h, Some(&cwp), 1);
                h.expect(!v.is_ok(), "C06.small_order_validate", "deserialize_and_validate_commit accepted a commitment that is not in the prime-order group", &[h.last()]);
            }
        }
        // proofs by a prover who knows an opening but hashes only part of the transcript
        for mm in [0usize, 2] {
            for (class, cwp) in weak_transcript_commitments::<CS>(h, mm) {
                if class == "weak_fs_selfcheck_full_transcript" {
                    let s = blindsign::<CS>(h, &sk, &pk, Some(&cwp), hdr.as_deref(), Some(&msgs));
                    h.expect(s.is_ok(), "C06.weak_fs_selfcheck", "harness self-check: a commitment proof assembled by the harness over the full transcript is refused (the construction no longer mirrors the implementation)", &[h.last()]);
                } else {
                    refuse(h, class, &cwp);
                }
            }
        }
        // forgeries from public information that are consistent with a verifier losing terms of its recomputation
        for mm in [0usize, 1, m.max(2)] {
            for (class, cwp) in forged_commitments::<CS>(h, mm) {
                refuse(h, class, &cwp);
            }
        }
        // a whole 32-octet slot that is NOT a canonical scalar inserted at every scalar boundary
        {
            let r_be: [u8; 32] = [0x73, 0xed, 0xa7, 0x53, 0x29, 0x9d, 0x7d, 0x48, 0x33, 0x39, 0xd8, 0x08, 0x09, 0xa1, 0xd8, 0x05, 0x53, 0xbd, 0xa4, 0x02, 0xff, 0xfe, 0x5b, 0xfe, 0xff, 0xff, 0xff, 0xff, 0x00, 0x00, 0x00, 0x01];
            for slot in [[0xffu8; 32], r_be] {
                for off in (48..=run.cwp.len()).step_by(32) {
                    let mut t = run.cwp[..off].to_vec();
                    t.extend_from_slice(&slot);
                    t.extend_from_slice(&run.cwp[off..]);
                    refuse(h, "noncanonical_slot", &t);
                }
            }
        }
        // bit flips of the commitment-with-proof
        let nbits = run.cwp.len() * 8;
        let bits: Vec<usize> = if thorough {
            (0..nbits).collect()
        } else {
            let mut b = vec![0, 1, 2, 383, 384, 385, 640, nbits - 1, nbits - 256];
            for _ in 0..23 {
                b.push(h.rng.below(nbits as u64) as usize);
            }
            b
        };
        for bit in bits {
            refuse(h, "bitflip", &flip(&run.cwp, bit));
        }
        // proof made for other committed messages, spliced onto this commitment point
        let other = distinct_msgs(h, m);
        let otape = rand_tape(h, m + 2);
        if let (Some((c2, _)), _) = {
            let (o, d) = commit::<CS>(h, Some(&other), otape);
            (o.ok(), d)
        } {
            let b2 = c2.to_bytes();
            let mut spliced = run.cwp[..48].to_vec();
            spliced.extend_from_slice(&b2[48..]);
            refuse(h, "other_messages_proof", &spliced);
            let mut spliced2 = b2[..48].to_vec();
            spliced2.extend_from_slice(&run.cwp[48..]);
            refuse(h, "other_commitment_point", &spliced2);
        }
        // the identity as commitment point followed by scalars that prove nothing
        {
            let idp = bls12_381_plus::G1Affine::identity().to_compressed();
            let mut t = idp.to_vec();
            t.extend_from_slice(&run.cwp[48..]);
            refuse(h, "identity_point_honest_scalars", &t);
            for k in [2usize, 3, 5] {
                let mut t = idp.to_vec();
                for _ in 0..k {
                    t.extend_from_slice(&rand_scalar_bytes(h));
                }
                refuse(h, "identity_point_junk_scalars", &t);
            }
            let g = bls12_381_plus::G1Affine::generator().to_compressed();
            let mut t = g.to_vec();
            for _ in 0..(m + 2) {
                t.extend_from_slice(&rand_scalar_bytes(h));
            }
            refuse(h, "generator_point_junk_scalars", &t);
        }
        // every truncation of the honest commitment-with-proof, and garbage of the short lengths
        for len in 1..run.cwp.len() {
            if !thorough && len > 120 && len % 16 != 0 && len % 32 != 1 {
                continue;
            }
            refuse(h, "truncated_to_len", &run.cwp[..len]);
            if len <= 128 && (len % 16 == 0 || len < 100) {
                let g = h.rng.bytes(len);
                refuse(h, "garbage_len", &g);
            }
        }
        // a zero-message commitment (112 octets) and its truncations, for a signer with messages
        {
            let tape0 = rand_tape(h, 2);
            if let (Some((c0, _)), _) = { let (o, d) = commit::<CS>(h, None, tape0); (o.ok(), d) } {
                let b0 = c0.to_bytes();
                let s0 = blindsign::<CS>(h, &sk, &pk, Some(&b0), hdr.as_deref(), Some(&msgs));
                h.expect(s0.is_ok(), "C06.zero_msg_commit", "honest zero-message commitment refused", &[h.last()]);
                for len in [80usize, 81, 96, 111, 79, 48, 32] {
                    refuse(h, "zero_msg_commit_truncated", &b0[..len]);
                }
            }
        }
        // truncated / extended by whole scalars
        if m > 0 {
            let mut t = run.cwp[..run.cwp.len() - 64].to_vec();
            t.extend_from_slice(&run.cwp[run.cwp.len() - 32..]);
            refuse(h, "truncate_scalar", &t);
        }
        let mut t = run.cwp[..run.cwp.len() - 32].to_vec();
        t.extend_from_slice(&[0u8; 32]);
        t.extend_from_slice(&run.cwp[run.cwp.len() - 32..]);
        refuse(h, "extend_scalar", &t);
        let mut t = run.cwp.clone();
        t.extend_from_slice(&[0u8; 32]);
        refuse(h, "append_scalar", &t);
        refuse(h, "drop_challenge", &run.cwp[..run.cwp.len() - 32]);
        for extra in [1usize, 31, 33] {
            let mut t = run.cwp.clone();
            t.extend(std::iter::repeat(0u8).take(extra));
            refuse(h, "trailing_bytes", &t);
        }
        // +1 on each scalar
        for off in (48..run.cwp.len()).step_by(32) {
            let mut arr = [0u8; 32];
            arr.copy_from_slice(&run.cwp[off..off + 32]);
            let sc = Scalar::from_be_bytes(&arr).unwrap() + Scalar::ONE;
            let mut t = run.cwp.clone();
            t[off..off + 32].copy_from_slice(&sc.to_be_bytes());
            refuse(h, "scalar_plus_1", &t);
        }

        // verify_blind_sign binding
        let vreject = |h: &mut H, class: &str, p: &BBSplusPublicKey, hd: Option<&[u8]>, ms: &[Vec<u8>], cms: &[Vec<u8>], bl: Option<&[u8; 32]>| {
            h.stat(&format!("C06.vbs.{}", class));
            let v = verifyblind::<CS>(h, p, &run.sig, hd, Some(ms), Some(cms), bl);
            let id = h.last();
            h.expect(!v.is_ok(), &format!("C06.vbs_{}", class), "verify_blind_sign accepted altered inputs", &[id]);
        };
        for i in 0..m {
            let mut c = cmsgs.clone();
            c[i].push(1);
            vreject(h, "cmsg_edit", &pk, hdr.as_deref(), &msgs, &c, Some(&run.blind));
            let mut c = cmsgs.clone();
            c.remove(i);
            vreject(h, "cmsg_delete", &pk, hdr.as_deref(), &msgs, &c, Some(&run.blind));
        }
        for i in 0..l {
            let mut c = msgs.clone();
            c[i].push(1);
            vreject(h, "msg_edit", &pk, hdr.as_deref(), &c, &cmsgs, Some(&run.blind));
        }
        if l > 0 && m > 0 {
            // move a message across the signer/committed boundary
            let mut a = msgs.clone();
            let mut b = cmsgs.clone();
            let x = a.pop().unwrap();
            b.insert(0, x);
            vreject(h, "boundary_move", &pk, hdr.as_deref(), &a, &b, Some(&run.blind));
        }
        let mut bl = run.blind;
        bl[31] ^= 1;
        vreject(h, "blind_edit", &pk, hdr.as_deref(), &msgs, &cmsgs, Some(&bl));
        vreject(h, "blind_absent", &pk, hdr.as_deref(), &msgs, &cmsgs, None);
        // the same residue written as another 32-octet string (blind + r, when it fits): not a blind factor
        {
            let r_be: [u8; 32] = [0x73, 0xed, 0xa7, 0x53, 0x29, 0x9d, 0x7d, 0x48, 0x33, 0x39, 0xd8, 0x08, 0x09, 0xa1, 0xd8, 0x05, 0x53, 0xbd, 0xa4, 0x02, 0xff, 0xfe, 0x5b, 0xfe, 0xff, 0xff, 0xff, 0xff, 0x00, 0x00, 0x00, 0x01];
            let mut sum = [0u8; 32];
            let mut carry = 0u16;
            for i in (0..32).rev() {
                let t = run.blind[i] as u16 + r_be[i] as u16 + carry;
                sum[i] = t as u8;
                carry = t >> 8;
            }
            for cand in [if carry == 0 { Some(sum) } else { None }, Some(r_be), Some([0xffu8; 32])].into_iter().flatten() {
                let d = dec(h, "blind", &cand);
                h.stat("C06.vbs.blind_other_representative");
                h.expect(!d.is_panic(), "C06.blind_decode_panic", "BlindFactor::from_bytes panicked", &[h.last()]);
                if d.is_ok() {
                    h.expect(false, "C06.blind_other_representative", "BlindFactor::from_bytes accepted a 32-octet string that is not below the group order", &[h.last()]);
                    vreject(h, "blind_other_representative", &pk, hdr.as_deref(), &msgs, &cmsgs, Some(&cand));
                }
            }
        }
        let mut h1 = hdr.clone().unwrap_or_default();
        h1.push(9);
        vreject(h, "hdr", &pk, Some(&h1), &msgs, &cmsgs, Some(&run.blind));
        vreject(h, "other_pk", &pk2, hdr.as_deref(), &msgs, &cmsgs, Some(&run.blind));
        // a signature issued WITHOUT a commitment verifies with no committed messages and no blind factor, and not
        // with committed messages that were never signed (blind factor absent, zero-like, or the one of another run)
        if let Some(bs) = blindsign::<CS>(h, &sk, &pk, None, hdr.as_deref(), Some(&msgs)).ok() {
            let s0 = bs.bbsPlusBlindSignature().clone();
            let v = verifyblind::<CS>(h, &pk, &s0, hdr.as_deref(), Some(&msgs), None, None);
            h.expect(v.is_ok(), "C06.no_commitment_verify", "a blind signature issued without a commitment does not verify", &[h.last()]);
            let extra = vec![b"never committed".to_vec()];
            for (nm, cms, bl) in [
                ("extra_committed_no_blind", Some(&extra[..]), None),
                ("extra_committed_other_blind", Some(&extra[..]), Some(&run.blind)),
                ("own_committed_no_blind", if m > 0 { Some(&cmsgs[..]) } else { None }, None),
            ] {
                if cms.is_none() { continue; }
                h.stat(&format!("C06.vbs.{}", nm));
                let v = verifyblind::<CS>(h, &pk, &s0, hdr.as_deref(), Some(&msgs), cms, bl);
                h.expect(!v.is_ok(), &format!("C06.vbs_{}", nm), "verify_blind_sign accepted committed messages for a signature issued without a commitment", &[h.last()]);
            }
        }
        // plain verifier on a blind signature
        let v = verify::<CS>(h, &pk, &run.sig, hdr.as_deref(), Some(&[msgs.clone(), cmsgs.clone()].concat()));
        h.expect(!v.is_ok(), "C06.cross_iface", "blind signature verifies through the plain interface", &[h.last()]);

        // blind proof binding
        let d = rand_subset(h, l);
        let dc = rand_subset(h, m);
        let ph = rand_header(h);
        let p = match honest_blind_proof::<CS>(h, &pk, &run, hdr.as_deref(), ph.as_deref(), &msgs, &cmsgs, &d, &dc, true) {
            Some(p) => p,
            None => continue,
        };
        let pb = p.to_bytes();
        let dm = pick_msgs(&msgs, &d);
        let dcm = pick_msgs(&cmsgs, &dc);
        let preject = |h: &mut H, class: &str, p: &BBSplusPublicKey, pbytes: &[u8], hd: Option<&[u8]>, phh: Option<&[u8]>, lv: Option<usize>, a: &[Vec<u8>], b: &[Vec<u8>], ia: &[usize], ib: &[usize]| {
            h.stat(&format!("C06.bpv.{}", class));
            let dd = dec(h, "proof", pbytes);
            if !dd.is_ok() {
                return;
            }
            if let Ok(pp) = Pok::<CS>::from_bytes(pbytes) {
                let v = blindproofverify::<CS>(h, p, &pp, hd, phh, lv, Some(a), Some(b), Some(ia), Some(ib));
                let id = h.last();
                h.expect(!v.is_panic(), "C06.bpv_panic", "blind_proof_verify panicked", &[id]);
                h.expect(!v.is_ok(), &format!("C06.bpv_{}", class), "blind_proof_verify accepted altered inputs", &[id]);
            }
        };
        for lv in [l + 1, l.wrapping_sub(1), l + 2, usize::MAX, usize::MAX - 1, 1 << 40] {
            if lv != l {
                preject(h, "L", &pk, &pb, hdr.as_deref(), ph.as_deref(), Some(lv), &dm, &dcm, &d, &dc);
            }
        }
        if l != 0 {
            preject(h, "L_absent", &pk, &pb, hdr.as_deref(), ph.as_deref(), None, &dm, &dcm, &d, &dc);
        }
        for i in 0..dm.len() {
            let mut x = dm.clone();
            x[i].push(1);
            preject(h, "dmsg", &pk, &pb, hdr.as_deref(), ph.as_deref(), Some(l), &x, &dcm, &d, &dc);
        }
        for i in 0..dcm.len() {
            let mut x = dcm.clone();
            x[i].push(1);
            preject(h, "dcmsg", &pk, &pb, hdr.as_deref(), ph.as_deref(), Some(l), &dm, &x, &d, &dc);
        }
        if !dc.is_empty() {
            let mut x = dc.clone();
            let last = x.len() - 1;
            x[last] += 1;
            preject(h, "cidx", &pk, &pb, hdr.as_deref(), ph.as_deref(), Some(l), &dm, &dcm, &d, &x);
            let mut y = dc.clone();
            y[0] = usize::MAX;
            preject(h, "cidx_max", &pk, &pb, hdr.as_deref(), ph.as_deref(), Some(l), &dm, &dcm, &d, &y);
        }
        // more / fewer disclosed messages than indexes, in either half (surplus at the end, in front, alone)
        {
            let extra = b"surplus".to_vec();
            let mut dcm_more = dcm.clone();
            dcm_more.push(extra.clone());
            preject(h, "surplus_committed_message", &pk, &pb, hdr.as_deref(), ph.as_deref(), Some(l), &dm, &dcm_more, &d, &dc);
            let mut dm_more = dm.clone();
            dm_more.push(extra.clone());
            preject(h, "surplus_signer_message", &pk, &pb, hdr.as_deref(), ph.as_deref(), Some(l), &dm_more, &dcm, &d, &dc);
            let mut dm_front = dm.clone();
            dm_front.insert(0, extra.clone());
            preject(h, "surplus_signer_message_front", &pk, &pb, hdr.as_deref(), ph.as_deref(), Some(l), &dm_front, &dcm, &d, &dc);
            if !dcm.is_empty() {
                preject(h, "missing_committed_message", &pk, &pb, hdr.as_deref(), ph.as_deref(), Some(l), &dm, &dcm[..dcm.len() - 1].to_vec(), &d, &dc);
            }
            if !dm.is_empty() {
                preject(h, "missing_signer_message", &pk, &pb, hdr.as_deref(), ph.as_deref(), Some(l), &dm[1..].to_vec(), &dcm, &d, &dc);
            }
            // Option mismatches: messages given, indexes absent (and the reverse), per half
            if let Ok(pp) = Pok::<CS>::from_bytes(&pb) {
                let combos: Vec<(&str, Option<&[Vec<u8>]>, Option<&[Vec<u8>]>, Option<&[usize]>, Option<&[usize]>)> = vec![
                    ("committed_msgs_without_indexes", Some(&dm), Some(&dcm_more), Some(&d), None),
                    ("signer_msgs_without_indexes", Some(&dm_more), Some(&dcm), None, Some(&dc)),
                    ("committed_indexes_without_msgs", Some(&dm), None, Some(&d), Some(&[0usize][..])),
                    ("signer_indexes_without_msgs", None, Some(&dcm), Some(&[0usize][..]), Some(&dc)),
                ];
                for (nm, a, b, ia, ib) in combos {
                    let v = blindproofverify::<CS>(h, &pk, &pp, hdr.as_deref(), ph.as_deref(), Some(l), a, b, ia, ib);
                    let id = h.last();
                    h.stat(&format!("C06.bpv.{}", nm));
                    h.expect(!v.is_panic(), "C06.bpv_panic", "blind_proof_verify panicked", &[id]);
                    h.expect(!v.is_ok(), &format!("C06.bpv_{}", nm), "blind_proof_verify accepted messages and indexes that do not pair up", &[id]);
                }
            }
        }
        let mut h1 = hdr.clone().unwrap_or_default();
        h1.push(1);
        preject(h, "hdr", &pk, &pb, Some(&h1), ph.as_deref(), Some(l), &dm, &dcm, &d, &dc);
        let mut p1 = ph.clone().unwrap_or_default();
        p1.push(1);
        preject(h, "ph", &pk, &pb, hdr.as_deref(), Some(&p1), Some(l), &dm, &dcm, &d, &dc);
        preject(h, "other_pk", &pk2, &pb, hdr.as_deref(), ph.as_deref(), Some(l), &dm, &dcm, &d, &dc);
        let nb = pb.len() * 8;
        let nflips = if thorough { 256 } else { 24 };
        for _ in 0..nflips {
            let bit = h.rng.below(nb as u64) as usize;
            preject(h, "bitflip", &pk, &flip(&pb, bit), hdr.as_deref(), ph.as_deref(), Some(l), &dm, &dcm, &d, &dc);
        }
        // plain verifier on a blind proof
        if let Ok(pp) = Pok::<CS>::from_bytes(&pb) {
            let mut ia = d.clone();
            ia.extend(dc.iter().map(|j| j + l + 1));
            let v = proofverify::<CS>(h, &pk, &pp, hdr.as_deref(), ph.as_deref(), Some(&[dm.clone(), dcm.clone()].concat()), Some(&ia));
            h.expect(!v.is_ok(), "C06.proof_cross_iface", "blind proof verifies through the plain interface", &[h.last()]);
        }
    }
    // commitments around the power-of-two counts where limits and batched paths tend to start (M = 63, 64, 65;
    // thorough also 127..129 and 255..257): the honest one is signed, the same octets with the last response
    // or the challenge altered, one response dropped or added, and a made-up proof of that exact length on a
    // point the prover does not control are all refused
    {
        let (sk, pk) = rand_keypair::<CS>(h);
        let msgs = distinct_msgs(h, 2);
        let hdr = rand_header(h);
        let sizes: Vec<usize> = if thorough { vec![63, 64, 65, 127, 128, 129, 255, 256, 257] } else { vec![63, 64, 65] };
        for m in sizes {
            let cmsgs = rand_msgs(h, m);
            h.stat(&format!("C06.sized.M={}", m));
            let run = match honest_issue::<CS>(h, &sk, &pk, hdr.as_deref(), &msgs, &cmsgs, true) {
                Some(r) => r,
                None => {
                    h.expect(false, "C06.sized_honest", &format!("honest commit / blind_sign / verify_blind_sign with {} committed messages failed", m), &[h.last()]);
                    continue;
                }
            };
            let n = run.cwp.len();
            let mut cases: Vec<(&str, Vec<u8>)> = Vec::new();
            let mut t = run.cwp.clone();
            t[n - 33] ^= 1;
            cases.push(("sized_last_response", t));
            let mut t = run.cwp.clone();
            t[n - 1] ^= 1;
            cases.push(("sized_challenge", t));
            let mut t = run.cwp[..n - 64].to_vec();
            t.extend_from_slice(&run.cwp[n - 32..]);
            cases.push(("sized_response_dropped", t));
            let mut t = run.cwp[..n - 32].to_vec();
            t.extend_from_slice(&rand_scalar_bytes(h));
            t.extend_from_slice(&run.cwp[n - 32..]);
            cases.push(("sized_response_added", t));
            for pt in [bls12_381_plus::G1Affine::generator().to_compressed().to_vec(), run.cwp[..48].to_vec()] {
                let mut t = pt;
                for _ in 0..(m + 2) {
                    t.extend_from_slice(&rand_scalar_bytes(h));
                }
                cases.push(("sized_made_up_proof", t));
            }
            for (class, cwp) in cases {
                h.stat(&format!("C06.commit.{}", class));
                let s = blindsign::<CS>(h, &sk, &pk, Some(&cwp), hdr.as_deref(), Some(&msgs));
                let id = h.last();
                h.expect(!s.is_panic(), "C06.sign_panic", "blind_sign panicked on a bad commitment", &[id]);
                h.expect(!s.is_ok(), &format!("C06.{}", class), &format!("signer issued a blind signature for a bad commitment with {} responses", m), &[id]);
            }
        }
    }
    let _ = rand_scalar_bytes(h);
}
