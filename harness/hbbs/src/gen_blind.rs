use super::*; use crate::H; use elliptic_curve::hash2curve::ExpandMsg; use zkryptium::bbsplus::ciphersuites::BbsCiphersuite;
pub fn c05<CS: BbsCiphersuite>(_h: &mut H) where CS::Expander: for<'a> ExpandMsg<'a> {}
pub fn c06<CS: BbsCiphersuite>(_h: &mut H) where CS::Expander: for<'a> ExpandMsg<'a> {}
