// Case generators and implementation-side property oracles, one module per property group.
use crate::ops::*;
use crate::H;
use elliptic_curve::hash2curve::ExpandMsg;
use zkryptium::bbsplus::ciphersuites::BbsCiphersuite;
use zkryptium::bbsplus::keys::{BBSplusPublicKey, BBSplusSecretKey};

#[path = "gen_sig.rs"]
pub mod gen_sig;
#[path = "gen_codec.rs"]
pub mod gen_codec;
#[path = "gen_proof.rs"]
pub mod gen_proof;
#[path = "gen_blind.rs"]
pub mod gen_blind;
#[path = "gen_misc.rs"]
pub mod gen_misc;

pub fn run<CS: BbsCiphersuite>(h: &mut H, prop: &str)
where
    CS::Expander: for<'a> ExpandMsg<'a>,
{
    match prop {
        "C01" => {
            gen_sig::c01::<CS>(h);
            gen_sig::c02_large_octets::<CS>(h);
            gen_sig::interleave_dispatch(h, "C01");
        }
        "C02" => {
            gen_sig::c02::<CS>(h);
            gen_sig::c02_sizes::<CS>(h);
            gen_sig::c02_repeats::<CS>(h);
            gen_sig::c02_absent_messages::<CS>(h);
            gen_sig::c02_large_octets::<CS>(h);
            gen_sig::interleave_dispatch(h, "C02");
            use zkryptium::bbsplus::ciphersuites::{Bls12381Sha256, Bls12381Shake256};
            if h.suite == "sha" {
                gen_sig::cross_suite_sig::<Bls12381Sha256, Bls12381Shake256>(h)
            } else {
                gen_sig::cross_suite_sig::<Bls12381Shake256, Bls12381Sha256>(h)
            }
        }
        "C12" => gen_sig::c12::<CS>(h),
        "C03" => {
            gen_proof::c03::<CS>(h);
            gen_sig::interleave_dispatch(h, "C03");
        }
        "C04" => gen_proof::c04::<CS>(h),
        "C05" => {
            gen_blind::c05::<CS>(h);
            gen_sig::interleave_dispatch(h, "C05");
        }
        "C06" => gen_blind::c06::<CS>(h),
        "C07" => gen_misc::c07::<CS>(h),
        "C08" => gen_codec::c08::<CS>(h),
        "C09" => gen_codec::c09::<CS>(h),
        "C10" => {
            gen_misc::c10::<CS>(h);
            gen_sig::interleave_dispatch(h, "C10");
        }
        "C11" => {
            gen_misc::c11::<CS>(h);
            gen_sig::interleave_dispatch(h, "C11");
        }
        "corpus" => gen_misc::corpus::<CS>(h),
        _ => panic!("unknown property {}", prop),
    }
}

// ---- shared input classes --------------------------------------------------------------------

pub fn msg_of_class(h: &mut H, class: usize) -> Vec<u8> {
    let lens = [0usize, 1, 31, 32, 33, 255, 256, 1000, 10000];
    let n = lens[class % lens.len()];
    h.rng.bytes(n)
}

pub fn rand_msg(h: &mut H) -> Vec<u8> {
    // mostly short, sometimes boundary lengths
    let c = if h.rng.chance(1, 8) { h.rng.below(8) as usize } else { 1 + h.rng.below(4) as usize };
    let mut m = msg_of_class(h, c);
    if m.is_empty() && h.rng.chance(1, 2) {
        m = h.rng.bytes(5);
    }
    m
}

pub fn rand_msgs(h: &mut H, l: usize) -> Vec<Vec<u8>> {
    (0..l).map(|_| rand_msg(h)).collect()
}

/// distinct short messages (so that "swap" and "alter" edits really change the vector)
pub fn distinct_msgs(h: &mut H, l: usize) -> Vec<Vec<u8>> {
    (0..l)
        .map(|i| {
            let mut m = h.rng.bytes(3 + (i % 5));
            m.extend_from_slice(&(i as u32).to_be_bytes());
            m
        })
        .collect()
}

pub fn header_of_class(h: &mut H, class: usize) -> Option<Vec<u8>> {
    match class % 8 {
        0 => None,
        1 => Some(vec![]),
        2 => Some(h.rng.bytes(1)),
        3 => Some(h.rng.bytes(16)),
        4 => Some(h.rng.bytes(255)),
        5 => Some(h.rng.bytes(256)),
        6 => Some(h.rng.bytes(40)),
        _ => {
            if h.tier_thorough {
                Some(h.rng.bytes(65536))
            } else {
                Some(h.rng.bytes(300))
            }
        }
    }
}

pub fn rand_header(h: &mut H) -> Option<Vec<u8>> {
    let c = h.rng.below(8) as usize;
    header_of_class(h, c)
}

pub fn keypair_of_class<CS: BbsCiphersuite>(h: &mut H, class: usize) -> (BBSplusSecretKey, BBSplusPublicKey)
where
    CS::Expander: for<'a> ExpandMsg<'a>,
{
    let ikm_lens = [32usize, 33, 64, 1000];
    let ikm = h.rng.bytes(ikm_lens[class % 4]);
    let info: Option<Vec<u8>> = match (class / 4) % 6 {
        0 => None,
        1 => Some(vec![]),
        2 => Some(h.rng.bytes(1)),
        3 => Some(h.rng.bytes(255)),
        4 => Some(h.rng.bytes(256)),
        _ => Some(h.rng.bytes(65535)),
    };
    match keygen::<CS>(h, &ikm, info.as_deref(), None).ok() {
        Some(k) => k,
        None => {
            // a failure here is a finding of its own (every class above is valid input); carry on with the plainest key
            let id = h.last();
            h.expect(false, "keygen.valid_input", &format!("key generation failed for valid input (key material {} octets, key_info {:?} octets)", ikm.len(), info.as_ref().map(|x| x.len())), &[id]);
            let ikm = h.rng.bytes(32);
            keygen::<CS>(h, &ikm, None, None).ok().expect("keygen with 32 octets of key material and no key_info failed")
        }
    }
}

pub fn rand_keypair<CS: BbsCiphersuite>(h: &mut H) -> (BBSplusSecretKey, BBSplusPublicKey)
where
    CS::Expander: for<'a> ExpandMsg<'a>,
{
    let c = h.rng.below(8) as usize; // no 65535-byte key_info in the common path
    keypair_of_class::<CS>(h, c)
}

/// all subsets of 0..l as ascending index lists
pub fn subsets(l: usize) -> Vec<Vec<usize>> {
    (0..(1usize << l))
        .map(|mask| (0..l).filter(|i| mask >> i & 1 == 1).collect())
        .collect()
}

pub fn rand_subset(h: &mut H, l: usize) -> Vec<usize> {
    let mode = h.rng.below(4);
    (0..l)
        .filter(|_| match mode {
            0 => false,
            1 => true,
            _ => h.rng.chance(1, 2),
        })
        .collect()
}

pub fn pick_msgs(msgs: &[Vec<u8>], idx: &[usize]) -> Vec<Vec<u8>> {
    idx.iter().map(|&i| msgs[i].clone()).collect()
}

/// compressed encoding of `P + T` where `P` is the G1 point encoded by `enc48` and `T = (0, +-2)` has order 3
/// (a curve point outside the prime-order group); `None` if `enc48` does not decode
pub fn with_small_order_component(enc48: &[u8], sort: u8) -> Option<[u8; 48]> {
    use bls12_381_plus::group::Curve;
    use bls12_381_plus::{G1Affine, G1Projective};
    let mut a = [0u8; 48];
    a.copy_from_slice(enc48);
    let p: G1Affine = Option::from(G1Affine::from_compressed(&a))?;
    let mut t = [0u8; 48];
    t[0] = 0x80 | sort;
    let t: G1Affine = Option::from(G1Affine::from_compressed_unchecked(&t))?;
    if bool::from(t.is_torsion_free()) {
        return None;
    }
    Some((G1Projective::from(p) + G1Projective::from(t)).to_affine().to_compressed())
}
