// small helpers: deterministic PRNG, hex/list formatting of the line protocol

pub struct Rng(u64);

impl Rng {
    pub fn new(seed: u64) -> Self {
        Rng(seed.wrapping_add(0x9e3779b97f4a7c15))
    }
    pub fn next(&mut self) -> u64 {
        // splitmix64
        self.0 = self.0.wrapping_add(0x9e3779b97f4a7c15);
        let mut z = self.0;
        z = (z ^ (z >> 30)).wrapping_mul(0xbf58476d1ce4e5b9);
        z = (z ^ (z >> 27)).wrapping_mul(0x94d049bb133111eb);
        z ^ (z >> 31)
    }
    pub fn below(&mut self, n: u64) -> u64 {
        if n == 0 {
            0
        } else {
            self.next() % n
        }
    }
    pub fn bytes(&mut self, n: usize) -> Vec<u8> {
        let mut v = Vec::with_capacity(n);
        while v.len() < n {
            let x = self.next().to_le_bytes();
            for b in x {
                if v.len() < n {
                    v.push(b);
                }
            }
        }
        v
    }
    pub fn pick<'a, T>(&mut self, xs: &'a [T]) -> &'a T {
        &xs[self.below(xs.len() as u64) as usize]
    }
    pub fn chance(&mut self, num: u64, den: u64) -> bool {
        self.below(den) < num
    }
}

pub fn fnv(s: &str) -> u64 {
    let mut h: u64 = 0xcbf29ce484222325;
    for b in s.bytes() {
        h ^= b as u64;
        h = h.wrapping_mul(0x100000001b3);
    }
    h
}

/// bytes: lower-case hex, `.` for empty
pub fn hx(b: &[u8]) -> String {
    if b.is_empty() {
        ".".to_string()
    } else {
        hex::encode(b)
    }
}
/// optional bytes: `-` for None
pub fn ohx(b: Option<&[u8]>) -> String {
    match b {
        None => "-".to_string(),
        Some(b) => hx(b),
    }
}
/// list of byte strings: `L<n>` then `:elem` per element
pub fn lhx(l: &[Vec<u8>]) -> String {
    let mut s = format!("L{}", l.len());
    for e in l {
        s.push(':');
        s.push_str(&hx(e));
    }
    s
}
pub fn olhx(l: Option<&[Vec<u8>]>) -> String {
    match l {
        None => "-".to_string(),
        Some(l) => lhx(l),
    }
}
/// list of indexes: `I<n>` then `:dec` per element
pub fn lix(l: &[usize]) -> String {
    let mut s = format!("I{}", l.len());
    for e in l {
        s.push(':');
        s.push_str(&e.to_string());
    }
    s
}
pub fn olix(l: Option<&[usize]>) -> String {
    match l {
        None => "-".to_string(),
        Some(l) => lix(l),
    }
}

pub fn unhx(s: &str) -> Vec<u8> {
    if s == "." {
        vec![]
    } else {
        hex::decode(s).expect("hex")
    }
}
pub fn unohx(s: &str) -> Option<Vec<u8>> {
    if s == "-" {
        None
    } else {
        Some(unhx(s))
    }
}
pub fn unlhx(s: &str) -> Vec<Vec<u8>> {
    let mut it = s.split(':');
    let _n = it.next();
    it.map(unhx).collect()
}
pub fn unolhx(s: &str) -> Option<Vec<Vec<u8>>> {
    if s == "-" {
        None
    } else {
        Some(unlhx(s))
    }
}
pub fn unlix(s: &str) -> Vec<usize> {
    let mut it = s.split(':');
    let _n = it.next();
    it.map(|x| x.parse().expect("index")).collect()
}
pub fn unolix(s: &str) -> Option<Vec<usize>> {
    if s == "-" {
        None
    } else {
        Some(unlix(s))
    }
}
