// C01 (completeness), C02 (binding), C12 (update histories)
use super::*;
use crate::ops::*;
use crate::H;
use bls12_381_plus::{G1Projective, Scalar};
use elliptic_curve::hash2curve::ExpandMsg;
use zkryptium::bbsplus::ciphersuites::BbsCiphersuite;
use zkryptium::bbsplus::generators::Generators;
use zkryptium::bbsplus::signature::BBSplusSignature;
use zkryptium::utils::message::bbsplus_message::BBSplusMessage;

fn roundtrip_sig<CS: BbsCiphersuite>(h: &mut H, s: &Sig<CS>) -> Option<BBSplusSignature>
where
    CS::Expander: for<'a> ExpandMsg<'a>,
{
    let b = s.to_bytes();
    h.expect(b.len() == 80, "C01.len", "signature encoding is not 80 bytes", &[]);
    let d = dec(h, "sig", &b);
    let id = h.last();
    let ok = matches!(&d, Out::Ok(v) if v[..] == b[..]);
    h.expect(ok, "C01.roundtrip", "from_bytes(to_bytes(sig)) failed or differs", &[id]);
    BBSplusSignature::from_bytes(&b).ok()
}

pub fn c01<CS: BbsCiphersuite>(h: &mut H)
where
    CS::Expander: for<'a> ExpandMsg<'a>,
{
    let thorough = h.tier_thorough;
    let mut ls: Vec<usize> = vec![0, 1, 2, 3, 10, 11];
    if thorough {
        ls.extend_from_slice(&[255, 256, 257, 1000, 4096]);
    } else {
        ls.extend_from_slice(&[255, 256, 257]);
    }
    let nkeys = if thorough { 24 } else { 4 };
    // quick: four key classes that together hit every ikm / key_info boundary (32, 33, 64, 1000 bytes;
    // absent, empty, 255, 256, 65535 bytes)
    let quick_classes = [0usize, 13, 18, 23];
    let reps = if thorough { 6 } else { 1 };
    for k in 0..nkeys {
        let kc = if !thorough { quick_classes[k % 4] } else if k < 24 { k } else { h.rng.below(24) as usize };
        let (sk, pk) = keypair_of_class::<CS>(h, kc);
        for &l in &ls {
            if l > 300 && k > 0 {
                continue;
            }
            if !thorough && l > 200 && (k + l) % 4 != 0 {
                continue;
            }
            for rep in 0..reps {
                let msgs: Vec<Vec<u8>> = if l <= 11 && (k + rep) % 2 == 0 {
                    (0..l).map(|i| msg_of_class(h, i + k)).collect()
                } else {
                    rand_msgs(h, l)
                };
                let hdr = header_of_class(h, k + l + rep);
                h.stat(&format!("C01.L={}", l));
                h.stat(&format!("C01.hdr={}", hdr.as_ref().map(|x| x.len() as i64).unwrap_or(-1)));
                let s = sign::<CS>(h, &sk, &pk, hdr.as_deref(), Some(&msgs));
                let sid = h.last();
                h.expect(s.is_ok(), "C01.sign", "sign failed on valid input", &[sid]);
                if let Some(s) = s.ok() {
                    let v = verify::<CS>(h, &pk, s.bbsPlusSignature(), hdr.as_deref(), Some(&msgs));
                    let vid = h.last();
                    h.expect(v.is_ok(), "C01.verify", "verify(sign(x)) != Ok", &[sid, vid]);
                    if let Some(s2) = roundtrip_sig::<CS>(h, &s) {
                        let v2 = verify::<CS>(h, &pk, &s2, hdr.as_deref(), Some(&msgs));
                        let vid2 = h.last();
                        h.expect(v2.is_ok(), "C01.verify_rt", "verify after byte round trip != Ok", &[sid, vid2]);
                    }
                    // None == empty (header and message list)
                    if hdr.as_ref().map(|x| x.is_empty()).unwrap_or(true) {
                        let other: Option<&[u8]> = if hdr.is_none() { Some(&[]) } else { None };
                        let s3 = sign::<CS>(h, &sk, &pk, other, Some(&msgs));
                        let id3 = h.last();
                        let same = matches!(&s3, Out::Ok(x) if x.to_bytes() == s.to_bytes());
                        h.expect(same, "C01.none_empty_hdr", "absent header differs from empty header", &[sid, id3]);
                        let v3 = verify::<CS>(h, &pk, s.bbsPlusSignature(), other, Some(&msgs));
                        let vid3 = h.last();
                        h.expect(v3.is_ok(), "C01.none_empty_hdr_v", "verify: absent header differs from empty header", &[vid3]);
                    }
                    if l == 0 {
                        let s4 = sign::<CS>(h, &sk, &pk, hdr.as_deref(), None);
                        let id4 = h.last();
                        let same = matches!(&s4, Out::Ok(x) if x.to_bytes() == s.to_bytes());
                        h.expect(same, "C01.none_empty_msgs", "absent message list differs from empty list", &[sid, id4]);
                        let v4 = verify::<CS>(h, &pk, s.bbsPlusSignature(), hdr.as_deref(), None);
                        let vid4 = h.last();
                        h.expect(v4.is_ok(), "C01.none_empty_msgs_v", "verify: absent message list differs from empty", &[vid4]);
                    }
                }
            }
        }
    }
    // the 80-octet encoding with exponents at the edges of the scalar range (1, 2, r - 1, r - 2, values just below
    // r that differ from it in a middle octet only, 2^254): whatever `to_bytes` writes, `from_bytes` reads back
    {
        let (sk, pk) = rand_keypair::<CS>(h);
        let msgs = rand_msgs(h, 1);
        if let Some(s0) = sign::<CS>(h, &sk, &pk, None, Some(&msgs)).ok() {
            let r_be: [u8; 32] = [0x73, 0xed, 0xa7, 0x53, 0x29, 0x9d, 0x7d, 0x48, 0x33, 0x39, 0xd8, 0x08, 0x09, 0xa1, 0xd8, 0x05, 0x53, 0xbd, 0xa4, 0x02, 0xff, 0xfe, 0x5b, 0xfe, 0xff, 0xff, 0xff, 0xff, 0x00, 0x00, 0x00, 0x01];
            let mut cands: Vec<[u8; 32]> = Vec::new();
            let mut one = [0u8; 32]; one[31] = 1; cands.push(one);
            let mut two = [0u8; 32]; two[31] = 2; cands.push(two);
            let mut rm1 = r_be; rm1[31] = 0; cands.push(rm1);              // r - 1
            let mut rm2 = r_be; rm2[31] = 0; rm2[27] = 0xfe; cands.push(rm2); // r - 1 - 2^32
            for i in [2usize, 3, 4, 8, 16] {                                   // below r in octet i only
                let mut c = r_be;
                if c[i] > 0 { c[i] -= 1; for j in (i + 1)..32 { c[j] = 0xff; } cands.push(c); }
            }
            let mut big = [0u8; 32]; big[0] = 0x40; cands.push(big);           // 2^254
            for c in cands {
                if let Some(e2) = Option::<Scalar>::from(Scalar::from_be_bytes(&c)) {
                    let mut s2 = s0.bbsPlusSignature().clone();
                    s2.e = e2;
                    let b2 = s2.to_bytes();
                    let d = dec(h, "sig", &b2);
                    h.stat("C01.boundary_exponent_roundtrip");
                    h.expect(matches!(&d, Out::Ok(x) if x[..] == b2[..]), "C01.boundary_exponent_roundtrip", "a signature whose exponent lies at the edge of the scalar range does not survive its 80-octet encoding", &[h.last()]);
                }
            }
        }
    }
    // message lists with runs of EQUAL neighbouring messages (and runs of empty messages): a list is a list
    {
        let (sk, pk) = rand_keypair::<CS>(h);
        let a = rand_msg(h);
        let b = rand_msg(h);
        let e: Vec<u8> = vec![];
        let lists: Vec<Vec<Vec<u8>>> = vec![
            vec![a.clone(), a.clone()],
            vec![b.clone(), a.clone(), a.clone(), b.clone()],
            vec![a.clone(), a.clone(), a.clone(), b.clone(), b.clone()],
            vec![e.clone(), e.clone(), e.clone()],
            vec![a.clone(), e.clone(), e.clone(), a.clone(), a.clone()],
        ];
        for msgs in lists {
            let hdr = rand_header(h);
            h.stat("C01.equal_neighbours");
            let s = sign::<CS>(h, &sk, &pk, hdr.as_deref(), Some(&msgs));
            let sid = h.last();
            h.expect(s.is_ok(), "C01.sign", "sign failed on a list with equal neighbouring messages", &[sid]);
            if let Some(s) = s.ok() {
                let v = verify::<CS>(h, &pk, s.bbsPlusSignature(), hdr.as_deref(), Some(&msgs));
                h.expect(v.is_ok(), "C01.verify_equal_neighbours", "verify(sign(x)) != Ok for a list with equal neighbouring messages", &[sid, h.last()]);
            }
        }
    }
    // state that survives between operations (scratch buffers, caches): large operations in DECREASING size
    // order on this thread, and every earlier artefact verified again after all later operations
    {
        let (sk, pk) = rand_keypair::<CS>(h);
        let shapes: Vec<(usize, usize)> = if thorough {
            vec![(0, 70000), (1200, 0), (0, 40000), (400, 16), (0, 20000), (350, 0), (3, 17000), (300, 0), (2, 5), (0, 0)]
        } else {
            vec![(0, 70000), (400, 0), (0, 40000), (350, 16), (0, 20000), (3, 17000), (2, 5), (0, 0)]
        };
        let mut made = Vec::new();
        for (l, hl) in shapes {
            let msgs = rand_msgs(h, l);
            let hdr: Option<Vec<u8>> = if hl == 0 { None } else { Some(h.rng.bytes(hl)) };
            h.stat("C01.history");
            let s = sign::<CS>(h, &sk, &pk, hdr.as_deref(), Some(&msgs));
            let sid = h.last();
            h.expect(s.is_ok(), "C01.sign_history", "sign failed on valid input (after larger operations on the same thread)", &[sid]);
            if let Some(s) = s.ok() {
                let v = verify::<CS>(h, &pk, s.bbsPlusSignature(), hdr.as_deref(), Some(&msgs));
                h.expect(v.is_ok(), "C01.verify_history", "verify(sign(x)) != Ok after larger operations on the same thread", &[sid, h.last()]);
                made.push((s, hdr, msgs, sid));
            }
        }
        // one more, larger, unrelated operation first: whatever an earlier large operation left behind is overwritten
        let big = h.rng.bytes(80000);
        let one = rand_msgs(h, 1);
        let _ = sign::<CS>(h, &sk, &pk, Some(&big), Some(&one));
        for (s, hdr, msgs, sid) in &made {
            let v = verify::<CS>(h, &pk, s.bbsPlusSignature(), hdr.as_deref(), Some(msgs));
            h.expect(v.is_ok(), "C01.reverify_history", "a signature that verified no longer verifies after other operations on the same thread", &[*sid, h.last()]);
        }
    }
}

fn flip(b: &[u8], bit: usize) -> Vec<u8> {
    let mut v = b.to_vec();
    v[bit / 8] ^= 0x80 >> (bit % 8);
    v
}

pub fn c02<CS: BbsCiphersuite>(h: &mut H)
where
    CS::Expander: for<'a> ExpandMsg<'a>,
{
    let thorough = h.tier_thorough;
    let nsig = if thorough { 10 } else { 3 };
    for k in 0..nsig {
        let (sk, pk) = rand_keypair::<CS>(h);
        let (_sk2, pk2) = rand_keypair::<CS>(h);
        let l = [3usize, 1, 5, 2, 0, 8, 4, 6, 10, 7][k % 10];
        let msgs = distinct_msgs(h, l);
        let hdr = header_of_class(h, k);
        let s = match sign::<CS>(h, &sk, &pk, hdr.as_deref(), Some(&msgs)).ok() {
            Some(s) => s,
            None => {
                let id = h.last();
                h.expect(false, "C02.sign", "sign failed", &[id]);
                continue;
            }
        };
        let sig = s.bbsPlusSignature().clone();
        let v = verify::<CS>(h, &pk, &sig, hdr.as_deref(), Some(&msgs));
        h.expect(v.is_ok(), "C02.honest", "honest signature does not verify", &[h.last()]);

        let reject = |h: &mut H, class: &str, m: &[Vec<u8>], hd: Option<&[u8]>, p: &zkryptium::bbsplus::keys::BBSplusPublicKey, sg: &BBSplusSignature| {
            let v = verify::<CS>(h, p, sg, hd, Some(m));
            let id = h.last();
            h.stat(&format!("C02.edit.{}", class));
            h.expect(!v.is_ok(), &format!("C02.{}", class), "verify accepted an altered statement/signature", &[id]);
        };
        // message edits
        for i in 0..l {
            let mut m = msgs.clone();
            let pos = h.rng.below(m[i].len() as u64) as usize;
            m[i][pos] ^= 1 << h.rng.below(8);
            reject(h, "msg_byte", &m, hdr.as_deref(), &pk, &sig);
            let mut m = msgs.clone();
            m[i].pop();
            reject(h, "msg_truncate", &m, hdr.as_deref(), &pk, &sig);
            let mut m = msgs.clone();
            m[i].push(0);
            reject(h, "msg_extend", &m, hdr.as_deref(), &pk, &sig);
            let mut m = msgs.clone();
            m.remove(i);
            reject(h, "msg_delete", &m, hdr.as_deref(), &pk, &sig);
            let mut m = msgs.clone();
            m.insert(i, b"inserted".to_vec());
            reject(h, "msg_insert", &m, hdr.as_deref(), &pk, &sig);
            if i + 1 < l {
                let mut m = msgs.clone();
                m.swap(i, i + 1);
                reject(h, "msg_swap", &m, hdr.as_deref(), &pk, &sig);
            }
        }
        let mut m = msgs.clone();
        m.push(vec![]);
        reject(h, "msg_append_empty", &m, hdr.as_deref(), &pk, &sig);
        // header edits (None == empty must NOT be an edit)
        let hb = hdr.clone().unwrap_or_default();
        let mut h1 = hb.clone();
        h1.push(0);
        reject(h, "hdr_extend", &msgs, Some(&h1), &pk, &sig);
        if !hb.is_empty() {
            let mut h2 = hb.clone();
            h2[0] ^= 1;
            reject(h, "hdr_byte", &msgs, Some(&h2), &pk, &sig);
            reject(h, "hdr_none", &msgs, None, &pk, &sig);
            reject(h, "hdr_trunc", &msgs, Some(&hb[..hb.len() - 1]), &pk, &sig);
        }
        // other key
        reject(h, "other_pk", &msgs, hdr.as_deref(), &pk2, &sig);
        // a long header and a long message altered without changing their length (first octet, around octets 32
        // and 64, last octet), each directly after the honest verification
        if k < 2 {
            let hl = [100usize, 33][k % 2];
            let lh = h.rng.bytes(hl);
            let mut lm = distinct_msgs(h, 2);
            lm[0] = h.rng.bytes(hl);
            if let Some(s2) = sign::<CS>(h, &sk, &pk, Some(&lh), Some(&lm)).ok() {
                let sg2 = s2.bbsPlusSignature().clone();
                let mut pos: Vec<usize> = vec![0, 31, 32, 63, 64, hl - 1];
                pos.retain(|&x| x < hl);
                for x in pos {
                    let v = verify::<CS>(h, &pk, &sg2, Some(&lh), Some(&lm));
                    h.expect(v.is_ok(), "C02.honest", "honest signature with a long header does not verify", &[h.last()]);
                    let mut h2 = lh.clone();
                    h2[x] ^= 0x20;
                    reject(h, "hdr_same_length", &lm, Some(&h2), &pk, &sg2);
                    let v = verify::<CS>(h, &pk, &sg2, Some(&lh), Some(&lm));
                    h.expect(v.is_ok(), "C02.honest", "honest signature with a long header does not verify", &[h.last()]);
                    let mut m2 = lm.clone();
                    m2[0][x] ^= 0x20;
                    reject(h, "msg_same_length", &m2, Some(&lh), &pk, &sg2);
                }
            }
        }
        // component edits
        let mut s2 = sig.clone();
        s2.e += Scalar::ONE;
        reject(h, "e_plus_1", &msgs, hdr.as_deref(), &pk, &s2);
        let mut s2 = sig.clone();
        s2.A = -s2.A;
        reject(h, "A_neg", &msgs, hdr.as_deref(), &pk, &s2);
        let mut s2 = sig.clone();
        s2.A = G1Projective::IDENTITY;
        reject(h, "A_identity", &msgs, hdr.as_deref(), &pk, &s2);
        // bit flips of the 80 signature bytes
        let sb = s.to_bytes();
        let bits: Vec<usize> = if thorough {
            (0..640).collect()
        } else {
            let mut b = vec![0, 1, 2, 3, 383, 384, 385, 639, 638];
            for _ in 0..15 {
                b.push(h.rng.below(640) as usize);
            }
            b
        };
        for bit in bits {
            let fb = flip(&sb, bit);
            let d = dec(h, "sig", &fb);
            let did = h.last();
            h.stat(if d.is_ok() { "C02.flip.decodes" } else { "C02.flip.decode_err" });
            h.expect(!d.is_panic(), "C02.flip_panic", "decoder panicked on a flipped signature", &[did]);
            if d.is_ok() {
                if let Ok(sg) = BBSplusSignature::from_bytes(&fb.clone().try_into().unwrap()) {
                    let v = verify::<CS>(h, &pk, &sg, hdr.as_deref(), Some(&msgs));
                    let vid = h.last();
                    h.expect(!v.is_ok(), "C02.bitflip", "a bit-flipped signature verifies", &[did, vid]);
                }
            }
        }
        // the point A shifted by a point of order 3 outside G1: another octet string for "the same" signature
        for sort in [0u8, 0x20] {
            if let Some(a2) = crate::gen::with_small_order_component(&sb[..48], sort) {
                let mut fb = sb.to_vec();
                fb[..48].copy_from_slice(&a2);
                let d = dec(h, "sig", &fb);
                let did = h.last();
                h.stat("C02.small_order_A");
                h.expect(!d.is_ok(), "C02.small_order_decode", "signature decoder accepted a point A outside the prime-order group", &[did]);
                if d.is_ok() {
                    if let Ok(sg) = BBSplusSignature::from_bytes(&fb.clone().try_into().unwrap()) {
                        let v = verify::<CS>(h, &pk, &sg, hdr.as_deref(), Some(&msgs));
                        h.expect(!v.is_ok(), "C02.small_order_verifies", "a signature whose A carries a small-order component verifies", &[did, h.last()]);
                    }
                }
            }
        }
        // cross interface: a plain signature presented to the blind verifier and vice versa
        let vb = verifyblind::<CS>(h, &pk, &sig, hdr.as_deref(), Some(&msgs), None, None);
        h.expect(!vb.is_ok(), "C02.cross_iface", "plain signature verifies through the blind interface", &[h.last()]);
        if let Some(bs) = blindsign::<CS>(h, &sk, &pk, None, hdr.as_deref(), Some(&msgs)).ok() {
            let bsig = bs.bbsPlusBlindSignature().clone();
            let ok = verifyblind::<CS>(h, &pk, &bsig, hdr.as_deref(), Some(&msgs), None, None);
            h.expect(ok.is_ok(), "C02.blind_honest", "blind signature without commitment does not verify", &[h.last()]);
            reject(h, "blind_as_plain", &msgs, hdr.as_deref(), &pk, &bsig);
        }
    }
}

/// L = 0 given as an ABSENT message list (and as an empty one): the header is still bound
pub fn c02_absent_messages<CS: BbsCiphersuite>(h: &mut H)
where
    CS::Expander: for<'a> ExpandMsg<'a>,
{
    let (sk, pk) = rand_keypair::<CS>(h);
    let hdr = h.rng.bytes(12);
    let mut other = hdr.clone();
    other[3] ^= 4;
    let empty: Vec<Vec<u8>> = vec![];
    for (nm, ms) in [("absent", None), ("empty", Some(&empty[..]))] {
        let s = sign::<CS>(h, &sk, &pk, Some(&hdr), ms);
        let sid = h.last();
        h.stat("C02.absent_messages");
        if let Some(s) = s.ok() {
            let sig = s.bbsPlusSignature().clone();
            for (vn, vm) in [("absent", None), ("empty", Some(&empty[..]))] {
                let v = verify::<CS>(h, &pk, &sig, Some(&hdr), vm);
                h.expect(v.is_ok(), "C01.none_empty_msgs_v", &format!("signature over no messages (signed {}, verified {}) does not verify", nm, vn), &[sid, h.last()]);
                let v = verify::<CS>(h, &pk, &sig, Some(&other), vm);
                h.expect(!v.is_ok(), "C02.absent_messages_header", &format!("signature over no messages (signed {}, verified {}) verifies under another header", nm, vn), &[sid, h.last()]);
                let v = verify::<CS>(h, &pk, &sig, None, vm);
                h.expect(!v.is_ok(), "C02.absent_messages_header", &format!("signature over no messages (signed {}, verified {}) verifies without its header", nm, vn), &[sid, h.last()]);
                let v = verify::<CS>(h, &pk, &sig, Some(&hdr), Some(&[b"one".to_vec()]));
                h.expect(!v.is_ok(), "C02.absent_messages_extra", "signature over no messages verifies with one message", &[sid, h.last()]);
            }
        } else {
            h.expect(false, "C01.sign", "sign failed for L = 0", &[sid]);
        }
    }
}

/// inputs beyond 2^16 octets: a 70000-octet header, a 65536-octet message; signing works and the LAST octet
/// of each stays bound
pub fn c02_large_octets<CS: BbsCiphersuite>(h: &mut H)
where
    CS::Expander: for<'a> ExpandMsg<'a>,
{
    let (sk, pk) = rand_keypair::<CS>(h);
    let msgs = distinct_msgs(h, 2);
    let big_hdr = h.rng.bytes(70000);
    let s = sign::<CS>(h, &sk, &pk, Some(&big_hdr), Some(&msgs));
    let sid = h.last();
    h.stat("C02.large_octets");
    h.expect(s.is_ok(), "C01.sign_large_header", "sign failed with a 70000-octet header", &[sid]);
    if let Some(s) = s.ok() {
        let sig = s.bbsPlusSignature().clone();
        let v = verify::<CS>(h, &pk, &sig, Some(&big_hdr), Some(&msgs));
        h.expect(v.is_ok(), "C01.verify_large_header", "signature with a 70000-octet header does not verify", &[sid, h.last()]);
        for pos in [69999usize, 65536, 65535, 65400, 0] {
            let mut h2 = big_hdr.clone();
            h2[pos] ^= 1;
            let v = verify::<CS>(h, &pk, &sig, Some(&h2), Some(&msgs));
            h.expect(!v.is_ok(), "C02.large_header_tail", &format!("a signature with a 70000-octet header verifies with header octet {} altered", pos), &[sid, h.last()]);
        }
        let v = verify::<CS>(h, &pk, &sig, Some(&big_hdr[..69999]), Some(&msgs));
        h.expect(!v.is_ok(), "C02.large_header_truncated", "a signature with a 70000-octet header verifies with the header truncated by one octet", &[sid, h.last()]);
    }
    let big_msg = h.rng.bytes(65536);
    let m2 = vec![msgs[0].clone(), big_msg.clone()];
    let s = sign::<CS>(h, &sk, &pk, None, Some(&m2));
    let sid = h.last();
    h.expect(s.is_ok(), "C01.sign_large_message", "sign failed with a 65536-octet message", &[sid]);
    if let Some(s) = s.ok() {
        let sig = s.bbsPlusSignature().clone();
        let v = verify::<CS>(h, &pk, &sig, None, Some(&m2));
        h.expect(v.is_ok(), "C01.verify_large_message", "signature over a 65536-octet message does not verify", &[sid, h.last()]);
        let mut m3 = m2.clone();
        m3[1][65535] ^= 0x80;
        let v = verify::<CS>(h, &pk, &sig, None, Some(&m3));
        h.expect(!v.is_ok(), "C02.large_message_tail", "signature over a 65536-octet message verifies with its last octet altered", &[sid, h.last()]);
    }
}

/// message lists with REPEATED values: every position stays bound to its own value (a tampered list that
/// only re-arranges or substitutes values already present in the list must be rejected)
pub fn c02_repeats<CS: BbsCiphersuite>(h: &mut H)
where
    CS::Expander: for<'a> ExpandMsg<'a>,
{
    let (sk, pk) = rand_keypair::<CS>(h);
    let vals = distinct_msgs(h, 3);
    let (a, b, c) = (vals[0].clone(), vals[1].clone(), vals[2].clone());
    let shapes: Vec<Vec<Vec<u8>>> = vec![
        vec![a.clone(), a.clone(), b.clone(), b.clone()],
        vec![a.clone(), b.clone(), a.clone(), b.clone()],
        vec![a.clone(), a.clone(), a.clone(), b.clone(), b.clone()],
        vec![a.clone(), b.clone(), b.clone(), c.clone(), c.clone(), a.clone()],
        vec![b.clone(), b.clone()],
    ];
    for msgs in shapes {
        let hdr = rand_header(h);
        let s = match sign::<CS>(h, &sk, &pk, hdr.as_deref(), Some(&msgs)).ok() { Some(s) => s, None => continue };
        let sig = s.bbsPlusSignature().clone();
        let v = verify::<CS>(h, &pk, &sig, hdr.as_deref(), Some(&msgs));
        h.expect(v.is_ok(), "C02.repeats_honest", "signature over a list with repeated messages does not verify", &[h.last()]);
        h.stat("C02.repeats");
        for i in 0..msgs.len() {
            for v2 in [&a, &b, &c] {
                if *v2 == msgs[i] { continue; }
                let mut m = msgs.clone();
                m[i] = v2.clone();
                let v = verify::<CS>(h, &pk, &sig, hdr.as_deref(), Some(&m));
                h.expect(!v.is_ok(), "C02.repeats_substitute", &format!("signature over a list with repeated messages verifies with position {} replaced by another value", i), &[h.last()]);
            }
        }
        // a proof over the same list, disclosing everything: the substituted list must be refused there too
        let all: Vec<usize> = (0..msgs.len()).collect();
        let tape = crate::gen::gen_proof::rand_tape(h, 5);
        let (p, _) = proofgen::<CS>(h, &pk, &s.to_bytes(), hdr.as_deref(), None, Some(&msgs), Some(&all), tape);
        if let Some(p) = p.ok() {
            let last = msgs.len() - 1;
            let mut m = msgs.clone();
            m[last] = if msgs[last] == a { b.clone() } else { a.clone() };
            let v = proofverify::<CS>(h, &pk, &p, hdr.as_deref(), None, Some(&m), Some(&all));
            h.expect(!v.is_ok(), "C02.repeats_proof", "a full-disclosure proof over a list with repeated messages verifies with the last message replaced", &[h.last()]);
        }
    }
}

/// larger message counts: the first, a middle and the LAST message, the count and the header stay bound
pub fn c02_sizes<CS: BbsCiphersuite>(h: &mut H)
where
    CS::Expander: for<'a> ExpandMsg<'a>,
{
    let ls: Vec<usize> = if h.tier_thorough { vec![15, 16, 17, 31, 32, 33, 63, 64, 65, 127, 128, 129, 255, 256, 257, 300, 1000] } else { vec![16, 31, 32, 33, 64, 129, 256] };
    let (sk, pk) = rand_keypair::<CS>(h);
    for l in ls {
        let msgs = distinct_msgs(h, l);
        let hdr = rand_header(h);
        let s = match sign::<CS>(h, &sk, &pk, hdr.as_deref(), Some(&msgs)).ok() { Some(s) => s, None => continue };
        let sig = s.bbsPlusSignature().clone();
        h.stat(&format!("C02.sizes.L={}", l));
        let v = verify::<CS>(h, &pk, &sig, hdr.as_deref(), Some(&msgs));
        h.expect(v.is_ok(), "C02.sizes_honest", "honest signature over many messages does not verify", &[h.last()]);
        for i in [0usize, l / 2, l - 2, l - 1] {
            let mut m = msgs.clone();
            m[i].push(1);
            let v = verify::<CS>(h, &pk, &sig, hdr.as_deref(), Some(&m));
            h.expect(!v.is_ok(), "C02.sizes_msg_edit", &format!("L = {}: signature still verifies after message {} was altered", l, i), &[h.last()]);
        }
        let v = verify::<CS>(h, &pk, &sig, hdr.as_deref(), Some(&msgs[..l - 1].to_vec()));
        h.expect(!v.is_ok(), "C02.sizes_drop_last", &format!("L = {}: signature verifies without the last message", l), &[h.last()]);
        let mut m = msgs.clone();
        m.swap(l - 1, l - 2);
        let v = verify::<CS>(h, &pk, &sig, hdr.as_deref(), Some(&m));
        h.expect(!v.is_ok(), "C02.sizes_swap_last", &format!("L = {}: signature verifies with the last two messages swapped", l), &[h.last()]);
        // blind interface at the same total size (signer messages + committed ones)
        if l <= 64 || h.tier_thorough {
            let half = l / 2;
            let (sm, cm) = (msgs[..half].to_vec(), msgs[half..].to_vec());
            let tape = super::gen_proof::rand_tape(h, cm.len() + 2);
            if let (Some((c, bf)), _) = { let (o, d) = commit::<CS>(h, Some(&cm), tape); (o.ok(), d) } {
                if let Some(bs) = blindsign::<CS>(h, &sk, &pk, Some(&c.to_bytes()), hdr.as_deref(), Some(&sm)).ok() {
                    let bsig = bs.bbsPlusBlindSignature().clone();
                    let blind = bf.to_bytes();
                    let v = verifyblind::<CS>(h, &pk, &bsig, hdr.as_deref(), Some(&sm), Some(&cm), Some(&blind));
                    h.expect(v.is_ok(), "C02.sizes_blind_honest", &format!("honest blind signature over {} + {} messages does not verify", sm.len(), cm.len()), &[h.last()]);
                    let mut c2 = cm.clone();
                    let last = c2.len() - 1;
                    c2[last].push(1);
                    let v = verifyblind::<CS>(h, &pk, &bsig, hdr.as_deref(), Some(&sm), Some(&c2), Some(&blind));
                    h.expect(!v.is_ok(), "C02.sizes_blind_edit", "blind signature verifies after the last committed message was altered", &[h.last()]);
                }
            }
        }
    }
}

/// cross-suite replay needs both suites at once, so it lives here as a helper used by C02/C11
pub fn cross_suite_sig<CS: BbsCiphersuite, CS2: BbsCiphersuite>(h: &mut H)
where
    CS::Expander: for<'a> ExpandMsg<'a>,
    CS2::Expander: for<'a> ExpandMsg<'a>,
{
    let (sk, pk) = rand_keypair::<CS>(h);
    for l in [0usize, 1, 3] {
        let msgs = distinct_msgs(h, l);
        let hdr = rand_header(h);
        if let Some(s) = sign::<CS>(h, &sk, &pk, hdr.as_deref(), Some(&msgs)).ok() {
            let keep = h.suite;
            h.suite = if keep == "sha" { "shake" } else { "sha" };
            let v = verify::<CS2>(h, &pk, s.bbsPlusSignature(), hdr.as_deref(), Some(&msgs));
            h.expect(!v.is_ok(), "cross_suite_sig", "signature verifies under the other ciphersuite", &[h.last()]);
            h.suite = keep;
        }
    }
}


/// Interleaved use of BOTH ciphersuites and BOTH interfaces with the SAME key material, message
/// count and header on one thread: what any cache or memo keyed too coarsely gets wrong.
pub fn interleave<A: BbsCiphersuite, B: BbsCiphersuite>(h: &mut H, prop: &str)
where
    A::Expander: for<'a> ExpandMsg<'a>,
    B::Expander: for<'a> ExpandMsg<'a>,
{
    use zkryptium::bbsplus::keys::BBSplusSecretKey;
    let mut skb = h.rng.bytes(32);
    skb[0] %= 0x73;
    let sk = BBSplusSecretKey::from_bytes(&skb).unwrap();
    let pk = sk.public_key();
    let a_name = h.suite;
    let b_name = if a_name == "sha" { "shake" } else { "sha" };
    for (l, hc) in [(0usize, 0usize), (1, 3), (2, 0), (3, 1), (2, 3)] {
        let msgs = distinct_msgs(h, l);
        let hdr = header_of_class(h, hc);
        let hd = hdr.as_deref();
        h.stat(&format!("{}.interleave.L={}", prop, l));
        let sa = sign::<A>(h, &sk, &pk, hd, Some(&msgs)).ok();
        let va = sa.as_ref().map(|s| verify::<A>(h, &pk, s.bbsPlusSignature(), hd, Some(&msgs)));
        h.expect(va.map(|v| v.is_ok()).unwrap_or(false), &format!("{}.interleave_a", prop), "valid signature rejected (suite A)", &[h.last()]);
        h.suite = b_name;
        let sb = sign::<B>(h, &sk, &pk, hd, Some(&msgs)).ok();
        let vb = sb.as_ref().map(|s| verify::<B>(h, &pk, s.bbsPlusSignature(), hd, Some(&msgs)));
        h.expect(vb.map(|v| v.is_ok()).unwrap_or(false), &format!("{}.interleave_b", prop), "valid signature rejected under the other suite after the first suite used the same key, count and header", &[h.last()]);
        if let Some(sa) = &sa {
            let x = verify::<B>(h, &pk, sa.bbsPlusSignature(), hd, Some(&msgs));
            h.expect(!x.is_ok(), &format!("{}.interleave_cross", prop), "signature of suite A accepted by suite B (same key, count, header)", &[h.last()]);
        }
        h.suite = a_name;
        if let Some(sb) = &sb {
            let x = verify::<A>(h, &pk, sb.bbsPlusSignature(), hd, Some(&msgs));
            h.expect(!x.is_ok(), &format!("{}.interleave_cross", prop), "signature of suite B accepted by suite A (same key, count, header)", &[h.last()]);
        }
        if let Some(sa) = &sa {
            let x = verify::<A>(h, &pk, sa.bbsPlusSignature(), hd, Some(&msgs));
            h.expect(x.is_ok(), &format!("{}.interleave_a2", prop), "valid signature rejected on re-verification after the other suite ran", &[h.last()]);
            // proofs under both suites for the same statement
            let d: Vec<usize> = (0..l).step_by(2).collect();
            let dm = pick_msgs(&msgs, &d);
            let (pa, _) = proofgen::<A>(h, &pk, &sa.to_bytes(), hd, None, Some(&msgs), Some(&d), vec![]);
            if let Some(pa) = pa.ok() {
                let v = proofverify::<A>(h, &pk, &pa, hd, None, Some(&dm), Some(&d));
                h.expect(v.is_ok(), &format!("{}.interleave_proof_a", prop), "valid proof rejected (suite A)", &[h.last()]);
                h.suite = b_name;
                if let Ok(pab) = Pok::<B>::from_bytes(&pa.to_bytes()) {
                    let v = proofverify::<B>(h, &pk, &pab, hd, None, Some(&dm), Some(&d));
                    h.expect(!v.is_ok(), &format!("{}.interleave_proof_cross", prop), "proof of suite A accepted by suite B", &[h.last()]);
                }
                if let Some(sb) = &sb {
                    let (pb, _) = proofgen::<B>(h, &pk, &sb.to_bytes(), hd, None, Some(&msgs), Some(&d), vec![]);
                    if let Some(pb) = pb.ok() {
                        let v = proofverify::<B>(h, &pk, &pb, hd, None, Some(&dm), Some(&d));
                        h.expect(v.is_ok(), &format!("{}.interleave_proof_b", prop), "valid proof rejected under the other suite", &[h.last()]);
                    }
                }
                h.suite = a_name;
            }
        }
        // plain / blind with the same total generator count: L plain  ==  (L-1 signer) + blind slot
        if l >= 1 {
            let part = msgs[..l - 1].to_vec();
            if let Some(bs) = blindsign::<A>(h, &sk, &pk, None, hd, Some(&part)).ok() {
                let bsig = bs.bbsPlusBlindSignature().clone();
                let v = verifyblind::<A>(h, &pk, &bsig, hd, Some(&part), None, None);
                h.expect(v.is_ok(), &format!("{}.interleave_blind", prop), "valid blind signature rejected right after a plain verification with the same key, generator count and header", &[h.last()]);
                if let Some(sa) = &sa {
                    let v = verify::<A>(h, &pk, sa.bbsPlusSignature(), hd, Some(&msgs));
                    h.expect(v.is_ok(), &format!("{}.interleave_plain_after_blind", prop), "valid plain signature rejected right after a blind verification", &[h.last()]);
                }
                let v = verify::<A>(h, &pk, &bsig, hd, Some(&msgs));
                h.expect(!v.is_ok(), &format!("{}.interleave_blind_as_plain", prop), "blind signature accepted by the plain verifier", &[h.last()]);
            }
        }
    }
}

pub fn interleave_dispatch(h: &mut H, prop: &str) {
    use zkryptium::bbsplus::ciphersuites::{Bls12381Sha256, Bls12381Shake256};
    if h.suite == "sha" {
        interleave::<Bls12381Sha256, Bls12381Shake256>(h, prop)
    } else {
        interleave::<Bls12381Shake256, Bls12381Sha256>(h, prop)
    }
}

/// the EMPTY octet string is a message like any other: updates from it and to it
fn c12_empty_message<CS: BbsCiphersuite>(h: &mut H)
where
    CS::Expander: for<'a> ExpandMsg<'a>,
{
    let (sk, pk) = rand_keypair::<CS>(h);
    let mut cur = vec![rand_msg(h), vec![], rand_msg(h)];
    let s0 = match sign::<CS>(h, &sk, &pk, None, Some(&cur)).ok() { Some(s) => s, None => return };
    let mut sig = s0.bbsPlusSignature().clone();
    let steps: Vec<(usize, Vec<u8>)> = vec![(1, b"filled".to_vec()), (1, vec![]), (0, vec![]), (0, b"back".to_vec()), (2, vec![])];
    for (i, newv) in steps {
        let u = update::<CS>(h, &sig, &sk, &cur[i], &newv, i, 3);
        let uid = h.last();
        h.stat("C12.empty_message");
        match u.ok() {
            None => { h.expect(false, "C12.update", "update_signature failed on a valid update involving the empty message", &[uid]); return; }
            Some(ns) => {
                let nsig = ns.bbsPlusSignature().clone();
                let mut next = cur.clone();
                next[i] = newv;
                let v = verify::<CS>(h, &pk, &nsig, None, Some(&next));
                h.expect(v.is_ok(), "C12.verify_current", "a signature updated from / to the empty message does not verify for the new vector", &[uid, h.last()]);
                let a_ref = reference_A::<CS>(&sk.0, &pk, None, &next, nsig.e);
                h.expect(a_ref == Some(nsig.A), "C12.equals_fresh", "updated A differs from B(msgs)/(sk+e) (empty message involved)", &[uid]);
                cur = next;
                sig = nsig;
            }
        }
    }
}

/// positions that no longer fit a byte: a 258-message signature updated at 255, 256, 257
fn c12_large_positions<CS: BbsCiphersuite>(h: &mut H)
where
    CS::Expander: for<'a> ExpandMsg<'a>,
{
    let l = 258usize;
    let (sk, pk) = rand_keypair::<CS>(h);
    let mut cur = distinct_msgs(h, l);
    let s0 = match sign::<CS>(h, &sk, &pk, None, Some(&cur)).ok() { Some(s) => s, None => return };
    let mut sig = s0.bbsPlusSignature().clone();
    for i in [255usize, 256, 257, 1] {
        let newv = rand_msg(h);
        let u = update::<CS>(h, &sig, &sk, &cur[i], &newv, i, l);
        let uid = h.last();
        h.stat("C12.large_position");
        match u.ok() {
            None => { h.expect(false, "C12.update", "update_signature failed on a valid update at a position >= 255", &[uid]); return; }
            Some(ns) => {
                let nsig = ns.bbsPlusSignature().clone();
                let mut next = cur.clone();
                next[i] = newv;
                let v = verify::<CS>(h, &pk, &nsig, None, Some(&next));
                h.expect(v.is_ok(), "C12.verify_current", &format!("signature updated at position {} of {} does not verify for the new vector", i, l), &[uid, h.last()]);
                let a_ref = reference_A::<CS>(&sk.0, &pk, None, &next, nsig.e);
                h.expect(a_ref == Some(nsig.A), "C12.equals_fresh", "updated A differs from B(msgs)/(sk+e)", &[uid]);
                let v = verify::<CS>(h, &pk, &nsig, None, Some(&cur));
                h.expect(!v.is_ok(), "C12.old_vector", "updated signature verifies for the previous vector", &[uid, h.last()]);
                cur = next;
                sig = nsig;
            }
        }
    }
}

pub fn c12<CS: BbsCiphersuite>(h: &mut H)
where
    CS::Expander: for<'a> ExpandMsg<'a>,
{
    c12_large_positions::<CS>(h);
    c12_empty_message::<CS>(h);
    let thorough = h.tier_thorough;
    let ls: &[usize] = if thorough { &[1, 2, 3, 5, 10] } else { &[1, 2, 3, 5] };
    let chains = if thorough { 12 } else { 2 };
    let maxk = if thorough { 32 } else { 6 };
    for &l in ls {
        for chain in 0..chains {
            let (sk, pk) = rand_keypair::<CS>(h);
            let hdr = rand_header(h);
            let mut cur = distinct_msgs(h, l);
            let s0 = match sign::<CS>(h, &sk, &pk, hdr.as_deref(), Some(&cur)).ok() {
                Some(s) => s,
                None => continue,
            };
            let mut sig = s0.bbsPlusSignature().clone();
            // "any valid signature": the second chain starts from a signature with a chosen exponent (0 for even L,
            // 7 for odd L) that verifies but that `sign` would never produce
            if chain == 1 {
                let e2 = if l % 2 == 0 { Scalar::ZERO } else { Scalar::from(7u64) };
                if let Some(a2) = reference_A::<CS>(&sk.0, &pk, hdr.as_deref(), &cur, e2) {
                    let mut s2 = sig.clone();
                    s2.A = a2;
                    s2.e = e2;
                    let v = verify::<CS>(h, &pk, &s2, hdr.as_deref(), Some(&cur));
                    if v.is_ok() {
                        h.stat("C12.chosen_exponent_start");
                        sig = s2;
                    }
                }
            }
            let mut history: Vec<Vec<Vec<u8>>> = vec![cur.clone()];
            let k = if chain == 0 { l.max(2) } else { 1 + h.rng.below(maxk as u64) as usize };
            for step in 0..k {
                // every position at least once in chain 0; repeated positions and restores otherwise
                let i = if chain == 0 { step % l } else { h.rng.below(l as u64) as usize };
                let newv = if h.rng.chance(1, 5) && history.len() > 1 {
                    history[h.rng.below(history.len() as u64) as usize][i].clone()
                } else if chain == 0 && step < 4 {
                    // values of the lengths where length-limited paths start: 255, 256, 257 octets and 70000
                    h.rng.bytes([255usize, 256, 257, 70000][step])
                } else {
                    rand_msg(h)
                };
                h.stat(&format!("C12.L={}", l));
                let u = update::<CS>(h, &sig, &sk, &cur[i], &newv, i, l);
                let uid = h.last();
                let same_scalar = newv == cur[i];
                match u.ok() {
                    None => {
                        h.expect(false, "C12.update", "update_signature failed on a valid update", &[uid]);
                        break;
                    }
                    Some(ns) => {
                        let nsig = ns.bbsPlusSignature().clone();
                        let mut next = cur.clone();
                        next[i] = newv.clone();
                        let v = verify::<CS>(h, &pk, &nsig, hdr.as_deref(), Some(&next));
                        h.expect(v.is_ok(), "C12.verify_current", "updated signature does not verify for the current vector", &[uid, h.last()]);
                        h.expect(nsig.e == sig.e, "C12.same_e", "update changed the exponent", &[uid]);
                        // equals what the key holder computes for that vector with the same e
                        let a_ref = reference_A::<CS>(&sk.0, &pk, hdr.as_deref(), &next, nsig.e);
                        h.expect(a_ref == Some(nsig.A), "C12.equals_fresh", "updated A differs from B(msgs)/(sk+e)", &[uid]);
                        if !same_scalar {
                            // earlier, different vectors must not verify
                            let hist = history.clone();
                            for old in hist.iter().rev().take(3) {
                                if *old != next {
                                    let v = verify::<CS>(h, &pk, &nsig, hdr.as_deref(), Some(old));
                                    h.expect(!v.is_ok(), "C12.old_vector", "updated signature verifies for an earlier different vector", &[uid, h.last()]);
                                }
                            }
                            // wrong old value
                            let wrong_old = b"not the old value".to_vec();
                            if let Some(ws) = update::<CS>(h, &sig, &sk, &wrong_old, &newv, i, l).ok() {
                                let wid = h.last();
                                let v = verify::<CS>(h, &pk, ws.bbsPlusSignature(), hdr.as_deref(), Some(&next));
                                h.expect(!v.is_ok(), "C12.wrong_old", "update with a wrong old value verifies for the intended vector", &[wid, h.last()]);
                            }
                        }
                        history.push(next.clone());
                        cur = next;
                        sig = nsig;
                    }
                }
            }
            // out-of-range positions
            for bad in [l, l + 1, usize::MAX, usize::MAX - 1, 1usize << 32, 1usize << 63] {
                let u = update::<CS>(h, &sig, &sk, &cur[0], b"x", bad, l);
                let id = h.last();
                h.stat("C12.bad_index");
                h.expect(u.is_err(), "C12.bad_index", "out-of-range update position not refused with an error", &[id]);
            }
            // out-of-range positions with new == old ("nothing to do") must be refused too
            for bad in [l, l + 1, usize::MAX] {
                let u = update::<CS>(h, &sig, &sk, &cur[0], &cur[0], bad, l);
                let id = h.last();
                h.expect(u.is_err(), "C12.bad_index_same_value", "out-of-range update with new == old not refused with an error", &[id]);
            }
            let u = update::<CS>(h, &sig, &sk, &cur[0], &cur[0], 0, usize::MAX);
            h.expect(u.is_err(), "C12.bad_n_same_value", "n = usize::MAX with new == old not refused with an error", &[h.last()]);
            // in-range refresh with new == old keeps a verifying signature
            if let Some(same) = update::<CS>(h, &sig, &sk, &cur[0], &cur[0], 0, l).ok() {
                let v = verify::<CS>(h, &pk, same.bbsPlusSignature(), hdr.as_deref(), Some(&cur));
                h.expect(v.is_ok(), "C12.refresh", "update with new == old does not verify", &[h.last()]);
            }
            if chain == 0 {
                let u = update::<CS>(h, &sig, &sk, &cur[0], b"x", 0, usize::MAX);
                h.expect(u.is_err(), "C12.bad_n", "n = usize::MAX not refused with an error", &[h.last()]);
                let u = update::<CS>(h, &sig, &sk, &cur[0], b"x", 0, 0);
                h.expect(u.is_err(), "C12.n_zero", "n = 0 not refused with an error", &[h.last()]);
            }
        }
    }
}

/// A = B(msgs) / (sk + e) recomputed from public pieces of the API (generators, map-to-scalar)
/// and the domain through a signature-free route: we re-derive B from a fresh `sign` of the vector
/// (A_fresh * (sk + e_fresh)) which equals B(msgs) by construction of core_sign.
pub fn reference_A<CS: BbsCiphersuite>(
    sk: &Scalar,
    pk: &zkryptium::bbsplus::keys::BBSplusPublicKey,
    hdr: Option<&[u8]>,
    msgs: &[Vec<u8>],
    e: Scalar,
) -> Option<G1Projective>
where
    CS::Expander: for<'a> ExpandMsg<'a>,
{
    let _ = (Generators::create::<CS>(1, None), BBSplusMessage::new(Scalar::ONE));
    let fresh = Sig::<CS>::sign(Some(msgs), &zkryptium::bbsplus::keys::BBSplusSecretKey(*sk), pk, hdr).ok()?;
    let f = fresh.bbsPlusSignature();
    let b = f.A * (*sk + f.e);
    let inv = Option::<Scalar>::from((*sk + e).invert())?;
    Some(b * inv)
}
