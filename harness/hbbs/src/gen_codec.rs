// C08 (untrusted input never crashes), C09 (canonical, strict encodings)
use super::gen_blind::honest_issue;
use super::gen_proof::{honest_proof, rand_tape};
use super::*;
use crate::ops::*;
use crate::H;
use bls12_381_plus::{G1Affine, G1Projective, G2Affine, G2Projective, Scalar};
use elliptic_curve::group::Curve;
use elliptic_curve::hash2curve::ExpandMsg;
use std::time::Instant;
use zkryptium::bbsplus::ciphersuites::BbsCiphersuite;
use zkryptium::bbsplus::commitment::{BBSplusCommitment, BlindFactor};
use zkryptium::bbsplus::keys::{BBSplusPublicKey, BBSplusSecretKey};
use zkryptium::bbsplus::proof::{BBSplusPoKSignature, BBSplusZKPoK};
use zkryptium::bbsplus::signature::BBSplusSignature;

pub const TYPES: [&str; 7] = ["pk", "sk", "sig", "proof", "zkpok", "commit", "blind"];

pub struct Honest {
    pub pk: Vec<u8>,
    pub sk: Vec<u8>,
    pub sig: Vec<u8>,
    pub proof: Vec<u8>,
    pub commit: Vec<u8>,
    pub blind: Vec<u8>,
}

pub fn honest_artefacts<CS: BbsCiphersuite>(h: &mut H, l: usize, m: usize) -> Honest
where
    CS::Expander: for<'a> ExpandMsg<'a>,
{
    let (sk, pk) = rand_keypair::<CS>(h);
    let msgs = rand_msgs(h, l);
    let cmsgs = rand_msgs(h, m);
    let s = sign::<CS>(h, &sk, &pk, None, Some(&msgs)).ok().expect("sign");
    let d = rand_subset(h, l);
    let d = if d.len() == l && l > 0 { d[1..].to_vec() } else { d };
    let p = honest_proof::<CS>(h, &pk, &s.to_bytes(), None, None, &msgs, &d, true).expect("proof");
    let run = honest_issue::<CS>(h, &sk, &pk, None, &msgs, &cmsgs, true).expect("issue");
    Honest {
        pk: pk.to_bytes().to_vec(),
        sk: sk.to_bytes().to_vec(),
        sig: s.to_bytes().to_vec(),
        proof: p.to_bytes(),
        commit: run.cwp,
        blind: run.blind.to_vec(),
    }
}

fn honest_of<'a>(hon: &'a Honest, ty: &str) -> &'a [u8] {
    match ty {
        "pk" => &hon.pk,
        "sk" => &hon.sk,
        "sig" => &hon.sig,
        "proof" => &hon.proof,
        "zkpok" => &hon.commit[48..],
        "commit" => &hon.commit,
        _ => &hon.blind,
    }
}

/// serde_json decoding of the same types must return Ok/Err, never panic (implementation only)
fn json_probe(h: &mut H, ty: &str, text: &str) {
    let r = std::panic::catch_unwind(|| match ty {
        "pk" => serde_json::from_str::<BBSplusPublicKey>(text).is_ok(),
        "sk" => serde_json::from_str::<BBSplusSecretKey>(text).is_ok(),
        "sig" => serde_json::from_str::<BBSplusSignature>(text).is_ok(),
        "proof" => serde_json::from_str::<BBSplusPoKSignature>(text).is_ok(),
        "zkpok" => serde_json::from_str::<BBSplusZKPoK>(text).is_ok(),
        _ => serde_json::from_str::<BBSplusCommitment>(text).is_ok(),
    });
    h.stat("C08.json_probe");
    h.expect(r.is_ok(), "C08.json_panic", &format!("serde_json decoding of {} panicked on {:?}", ty, &text[..text.len().min(60)]), &[]);
}

/// JSON decoding of the GENERIC scheme enums (`Signature<S>`, `PoKSignature<S>`, `Commitment<S>`,
/// `BlindSignature<S>`), which is what an application receives, followed by every operation that takes the
/// decoded object: whatever the JSON says (another variant tag, the type-system-only variant, a shape of the
/// wrong scheme), decoding returns Ok/Err and the operations on a decoded object return Ok/Err -- no panic.
fn generic_enum_json<CS: BbsCiphersuite>(h: &mut H, hon: &Honest)
where
    CS::Expander: for<'a> ExpandMsg<'a>,
{
    use std::panic::{catch_unwind, AssertUnwindSafe};
    let pk = BBSplusPublicKey::from_bytes(&hon.pk).unwrap();
    let inner_sig = serde_json::to_string(&BBSplusSignature::from_bytes(&hon.sig.clone().try_into().unwrap()).unwrap()).unwrap();
    let inner_proof = serde_json::to_string(&BBSplusPoKSignature::from_bytes(&hon.proof).unwrap()).unwrap();
    let inner_commit = serde_json::to_string(&BBSplusCommitment::from_bytes(&hon.commit).unwrap()).unwrap();
    let texts = |inner: &str| -> Vec<String> {
        vec![
            format!("{{\"BBSplus\":{}}}", inner),
            "{\"_Unreachable\":null}".to_string(),
            "{\"_Unreachable\":[]}".to_string(),
            "\"_Unreachable\"".to_string(),
            format!("{{\"CL03\":{}}}", inner),
            "{\"CL03\":null}".to_string(),
            format!("{{\"_Unreachable\":{}}}", inner),
            format!("{{\"BBSplus\":{},\"_Unreachable\":null}}", inner),
            "{}".to_string(),
            "null".to_string(),
        ]
    };
    let mut probe = |h: &mut H, what: &str, f: &mut dyn FnMut() -> bool| {
        h.stat(&format!("C08.generic_json.{}", what));
        let r = catch_unwind(AssertUnwindSafe(|| f()));
        h.expect(r.is_ok(), "C08.generic_json_panic", &format!("an operation on a {} object decoded from JSON panicked", what), &[]);
    };
    for t in texts(&inner_sig) {
        probe(h, "Signature", &mut || match serde_json::from_str::<Sig<CS>>(&t) {
            Ok(s) => { let _ = s.verify(&pk, None, None); let _ = catch_unwind(AssertUnwindSafe(|| s.to_bytes())).map_err(|e| std::panic::resume_unwind(e)); true }
            Err(_) => false,
        });
        probe(h, "BlindSignature", &mut || match serde_json::from_str::<Bsig<CS>>(&t) {
            Ok(s) => { let _ = s.verify_blind_sign(&pk, None, None, None, None); let _ = s.to_bytes(); true }
            Err(_) => false,
        });
    }
    for t in texts(&inner_proof) {
        probe(h, "PoKSignature", &mut || match serde_json::from_str::<Pok<CS>>(&t) {
            Ok(p) => {
                let _ = p.proof_verify(&pk, None, None, None, None);
                let _ = p.blind_proof_verify(&pk, None, None, Some(0), None, None, None, None);
                let _ = p.to_bytes();
                true
            }
            Err(_) => false,
        });
    }
    for t in texts(&inner_commit) {
        probe(h, "Commitment", &mut || match serde_json::from_str::<Com<CS>>(&t) {
            Ok(c) => { let _ = c.to_bytes(); true }
            Err(_) => false,
        });
    }
}

pub fn c08<CS: BbsCiphersuite>(h: &mut H)
where
    CS::Expander: for<'a> ExpandMsg<'a>,
{
    let thorough = h.tier_thorough;
    let hon = honest_artefacts::<CS>(h, 3, 2);
    generic_enum_json::<CS>(h, &hon);
    // a long honest proof / commitment so that "honest prefix" classes exist up to 1024 bytes
    let hon_long = honest_artefacts::<CS>(h, 26, 27);
    // --- decoders: every length 0..=1024, several content classes
    let step = if thorough { 1 } else { 1 };
    for ty in TYPES {
        let base = honest_of(&hon_long, ty).to_vec();
        let mut len = 0usize;
        while len <= 1024 {
            let nclass = if thorough { 6 } else if len <= 300 || len % 32 <= 1 || len % 48 <= 1 { 3 } else { 1 };
            for c in 0..nclass {
                let cls = (len + c) % 6;
                let b: Vec<u8> = match cls {
                    0 => vec![0u8; len],
                    1 => vec![0xffu8; len],
                    2 => {
                        // honest prefix (possibly the whole honest encoding) padded with zeros
                        let mut v = base.clone();
                        v.resize(len, 0);
                        v
                    }
                    3 => {
                        // honest + junk
                        let mut v = base[..base.len().min(len)].to_vec();
                        while v.len() < len {
                            v.push((v.len() * 7 + 3) as u8);
                        }
                        v
                    }
                    4 => h.rng.bytes(len),
                    _ => {
                        // a valid point (compressed generator) then junk
                        let mut v = G1Affine::generator().to_compressed().to_vec();
                        if ty == "pk" {
                            v = G2Affine::generator().to_compressed().to_vec();
                        }
                        v.truncate(len);
                        while v.len() < len {
                            v.push(0x11);
                        }
                        v
                    }
                };
                h.stat(&format!("C08.dec.class{}", cls));
                let t0 = Instant::now();
                let o = dec(h, ty, &b);
                let dt = t0.elapsed().as_millis() as u64;
                let id = h.last();
                h.expect(!o.is_panic(), "C08.dec_panic", &format!("{}::from_bytes panicked on {} bytes", ty, len), &[id]);
                h.expect(dt <= 100 + 40 * (len as u64 / 32 + 1), "C08.dec_time", "decoder exceeded its size-proportional time budget", &[id]);
            }
            len += step;
        }
    }
    // --- serde_json decoding of structured and junk shapes
    let pkobj = BBSplusPublicKey::from_bytes(&hon.pk).unwrap();
    let sigobj = BBSplusSignature::from_bytes(&hon.sig.clone().try_into().unwrap()).unwrap();
    let proofobj = BBSplusPoKSignature::from_bytes(&hon.proof).unwrap();
    let comobj = BBSplusCommitment::from_bytes(&hon.commit).unwrap();
    let texts: Vec<(&str, String)> = vec![
        ("pk", serde_json::to_string(&pkobj).unwrap()),
        ("sig", serde_json::to_string(&sigobj).unwrap()),
        ("proof", serde_json::to_string(&proofobj).unwrap()),
        ("commit", serde_json::to_string(&comobj).unwrap()),
        ("zkpok", serde_json::to_string(&comobj.proof).unwrap()),
        ("sk", serde_json::to_string(&BBSplusSecretKey::from_bytes(&hon.sk).unwrap()).unwrap()),
    ];
    for (ty, t) in &texts {
        json_probe(h, ty, t);
        for cut in [0usize, 1, t.len() / 2, t.len().saturating_sub(1)] {
            json_probe(h, ty, &t[..cut]);
        }
        json_probe(h, ty, &t.replace('a', "g"));
        json_probe(h, ty, &t.replace("\"", ""));
        json_probe(h, ty, "null");
        json_probe(h, ty, "[]");
        json_probe(h, ty, "{}");
        json_probe(h, ty, "\"\"");
        json_probe(h, ty, &format!("\"{}\"", "ff".repeat(48)));
        json_probe(h, ty, &format!("\"{}\"", "00".repeat(96)));
        json_probe(h, ty, "[1,2,3]");
        json_probe(h, ty, &format!("{{\"A\":\"{}\",\"e\":\"{}\"}}", "c0".to_string() + &"00".repeat(47), "00".repeat(32)));
    }

    // --- API entry points with hostile arguments
    let (sk, pk) = rand_keypair::<CS>(h);
    let msgs = rand_msgs(h, 3);
    let s = sign::<CS>(h, &sk, &pk, None, Some(&msgs)).ok().expect("sign");
    let sb = s.to_bytes();
    let sig = s.bbsPlusSignature().clone();
    let p = honest_proof::<CS>(h, &pk, &sb, None, None, &msgs, &[1], true).expect("proof");
    let m = usize::MAX;
    let idx_sets: Vec<Vec<usize>> = vec![
        vec![], vec![0], vec![2], vec![3], vec![4], vec![1 << 32], vec![1 << 63], vec![m], vec![m - 1, m],
        vec![0, 0, 0], vec![2, 1, 0], vec![0, m], vec![1, 1, 2, 2, m, m], (0..64).collect(), vec![m; 40],
    ];
    let no_panic = |h: &mut H, what: &str, o: &'static str, id: u64| {
        h.stat(&format!("C08.api.{}.{}", what, o));
        h.expect(o != "panic", "C08.api_panic", &format!("{} panicked", what), &[id]);
    };
    for idx in &idx_sets {
        for nm in [0usize, 1, idx.len()] {
            let dm = rand_msgs(h, nm);
            let t0 = Instant::now();
            let o = proofverify::<CS>(h, &pk, &p, None, None, Some(&dm), Some(idx));
            let id = h.last();
            no_panic(h, "proof_verify", o.class(), id);
            h.expect(t0.elapsed().as_millis() < 4000, "C08.api_time", "proof_verify exceeded its budget", &[id]);
            for lv in [None, Some(0usize), Some(1), Some(2), Some(3), Some(4), Some(1 << 20), Some(1 << 40), Some(1 << 63), Some(m - 1), Some(m)] {
                if idx.len() > 8 && lv.map(|x| x > 4).unwrap_or(false) && !thorough {
                    continue;
                }
                let t0 = Instant::now();
                let o = blindproofverify::<CS>(h, &pk, &p, None, None, lv, Some(&dm), Some(&dm), Some(idx), Some(idx));
                let id = h.last();
                no_panic(h, "blind_proof_verify", o.class(), id);
                h.expect(t0.elapsed().as_millis() < 4000, "C08.api_time", "blind_proof_verify exceeded its budget", &[id]);
            }
        }
        let (o, _) = proofgen::<CS>(h, &pk, &sb, None, None, Some(&msgs), Some(idx), vec![]);
        let id = h.last();
        no_panic(h, "proof_gen", o.class(), id);
        let (o, _) = blindproofgen::<CS>(h, &pk, &sb, None, None, Some(&msgs), Some(&msgs), Some(idx), Some(idx), None, vec![]);
        let id = h.last();
        no_panic(h, "blind_proof_gen", o.class(), id);
    }
    // a genuine blind proof (3 signer + 2 committed messages) with hostile index combinations:
    // out-of-range signer indexes combined with in-range committed ones and vice versa
    {
        let cm = rand_msgs(h, 2);
        if let Some(run) = honest_issue::<CS>(h, &sk, &pk, None, &msgs, &cm, true) {
            if let Some(bp) = super::gen_blind::honest_blind_proof::<CS>(h, &pk, &run, None, None, &msgs, &cm, &[0], &[1], true) {
                let dis: Vec<Vec<usize>> = vec![vec![0], vec![0, 6], vec![6], vec![7], vec![5], vec![0, 1, 2, 3], vec![4, 5, 6], vec![1 << 32], vec![m], vec![0, m], vec![2, 1, 0, 9]];
                let dcis: Vec<Vec<usize>> = vec![vec![1], vec![0], vec![], vec![0, 1], vec![2], vec![m], vec![1, 0]];
                for di in &dis {
                    for dci in &dcis {
                        for lv in [Some(3usize), Some(2), Some(4), None] {
                            if lv != Some(3) && (di.len() > 2 || dci.len() > 1) && !thorough {
                                continue;
                            }
                            let dm = rand_msgs(h, di.len());
                            let dcm = rand_msgs(h, dci.len());
                            let o = blindproofverify::<CS>(h, &pk, &bp, None, None, lv, Some(&dm), Some(&dcm), Some(di), Some(dci));
                            let id = h.last();
                            no_panic(h, "blind_proof_verify_combo", o.class(), id);
                        }
                    }
                }
                // message lists that do NOT match their index lists (fewer, more, absent), in either half
                for (di, dci) in [(vec![0usize], vec![1usize]), (vec![0, 1], vec![0, 1]), (vec![], vec![0]), (vec![2], vec![])] {
                    for (nm, kd, kc) in [("fewer_committed", di.len(), dci.len().saturating_sub(1)), ("no_committed", di.len(), 0), ("fewer_signer", di.len().saturating_sub(1), dci.len()), ("more_committed", di.len(), dci.len() + 1), ("more_signer", di.len() + 2, dci.len())] {
                        let dm = rand_msgs(h, kd);
                        let dcm = rand_msgs(h, kc);
                        for (a, b2) in [(Some(&dm[..]), Some(&dcm[..])), (Some(&dm[..]), None), (None, Some(&dcm[..]))] {
                            let o = blindproofverify::<CS>(h, &pk, &bp, None, None, Some(3), a, b2, Some(&di), Some(&dci));
                            let id = h.last();
                            h.stat(&format!("C08.bpv_shape.{}", nm));
                            no_panic(h, "blind_proof_verify_shape", o.class(), id);
                        }
                    }
                }
                // the plain proof with the same shapes
                for di in &dis {
                    let dm = rand_msgs(h, di.len());
                    let o = proofverify::<CS>(h, &pk, &p, None, None, Some(&dm), Some(di));
                    let id = h.last();
                    no_panic(h, "proof_verify_combo", o.class(), id);
                }
            }
        }
    }
    // proof_gen with byte strings that are not signatures
    for len in [0usize, 1, 79, 80, 81, 160] {
        for c in 0..3 {
            let b = match c { 0 => vec![0u8; len], 1 => h.rng.bytes(len), _ => { let mut v = sb.to_vec(); v.resize(len, 0); v } };
            let (o, _) = proofgen::<CS>(h, &pk, &b, None, None, Some(&msgs), Some(&[0]), vec![]);
            let id = h.last();
            no_panic(h, "proof_gen_sigbytes", o.class(), id);
        }
    }
    // update_signature boundary set
    for n in [0usize, 1, 2, 3, 4, 100, m - 1, m] {
        for i in [0usize, 1, 2, 3, 4, 99, 100, 1 << 32, m - 1, m] {
            if n > 100 && n < m - 1 {
                continue;
            }
            if n == m - 1 && i < m - 1 {
                // n + 1 generators for n = 2^64 - 2 is "size proportional" but not runnable
                continue;
            }
            let o = update::<CS>(h, &sig, &sk, &msgs[0], b"new", i, n);
            let id = h.last();
            no_panic(h, "update_signature", o.class(), id);
        }
    }
    // a well-formed signature whose exponent is tied to the signer's key: e = -SK (SK + e = 0 has no inverse)
    {
        let skv = Scalar::from_be_bytes(&sk.to_bytes()).unwrap();
        let mut sb = sig.to_bytes();
        sb[48..80].copy_from_slice(&(-skv).to_be_bytes());
        if let Ok(s2) = BBSplusSignature::from_bytes(&sb) {
            let o = update::<CS>(h, &s2, &sk, &msgs[0], b"new", 0, msgs.len());
            let id = h.last();
            h.stat("C08.update_e_minus_sk");
            no_panic(h, "update_signature (e = -SK)", o.class(), id);
            h.expect(!o.is_ok(), "C08.update_e_minus_sk", "update_signature returned a signature although SK + e = 0", &[id]);
            let v = verify::<CS>(h, &pk, &s2, None, Some(&msgs));
            no_panic(h, "verify (e = -SK)", v.class(), h.last());
        }
    }
    // blind_sign / deserialize_and_validate_commit with arbitrary commitment bytes
    let cm2 = rand_msgs(h, 2);
    let run = honest_issue::<CS>(h, &sk, &pk, None, &msgs, &cm2, true).expect("issue");
    let lens: Vec<usize> = if thorough { (0..=400).collect() } else { (0..=180).chain([200, 208, 239, 240, 241, 272, 400]).collect() };
    for len in lens {
        for c in 0..2 {
            let b: Vec<u8> = if c == 0 { let mut v = run.cwp.clone(); v.resize(len, 0); v } else { h.rng.bytes(len) };
            let o = blindsign::<CS>(h, &sk, &pk, Some(&b), None, Some(&msgs));
            let id = h.last();
            no_panic(h, "blind_sign", o.class(), id);
            if len % 16 == 0 || len < 100 {
                for ng in [0usize, 1, 3, 5] {
                    let o = devc::<CS>(h, Some(&b), ng);
                    let id = h.last();
                    no_panic(h, "deserialize_and_validate_commit", o.class(), id);
                }
            }
        }
    }
    // verify / verify_blind_sign with odd message shapes
    for l in [0usize, 1, 2, 3, 4, 17] {
        let ms = rand_msgs(h, l);
        let o = verify::<CS>(h, &pk, &sig, None, Some(&ms));
        let id = h.last();
        no_panic(h, "verify", o.class(), id);
        let o = verifyblind::<CS>(h, &pk, &run.sig, None, Some(&ms), Some(&ms), Some(&run.blind));
        let id = h.last();
        no_panic(h, "verify_blind_sign", o.class(), id);
    }
    let _ = (BlindFactor::random(), rand_tape(h, 0), G1Projective::IDENTITY, G2Projective::IDENTITY, Scalar::ZERO);
}

fn flip(b: &[u8], bit: usize) -> Vec<u8> {
    let mut v = b.to_vec();
    v[bit / 8] ^= 0x80 >> (bit % 8);
    v
}

const R_BE: [u8; 32] = [
    0x73, 0xed, 0xa7, 0x53, 0x29, 0x9d, 0x7d, 0x48, 0x33, 0x39, 0xd8, 0x08, 0x09, 0xa1, 0xd8, 0x05, 0x53, 0xbd, 0xa4, 0x02,
    0xff, 0xfe, 0x5b, 0xfe, 0xff, 0xff, 0xff, 0xff, 0x00, 0x00, 0x00, 0x01,
];
const P_BE: [u8; 48] = [
    0x1a, 0x01, 0x11, 0xea, 0x39, 0x7f, 0xe6, 0x9a, 0x4b, 0x1b, 0xa7, 0xb6, 0x43, 0x4b, 0xac, 0xd7, 0x64, 0x77, 0x4b, 0x84,
    0xf3, 0x85, 0x12, 0xbf, 0x67, 0x30, 0xd2, 0xa0, 0xf6, 0xb0, 0xf6, 0x24, 0x1e, 0xab, 0xff, 0xfe, 0xb1, 0x53, 0xff, 0xff,
    0xb9, 0xfe, 0xff, 0xff, 0xff, 0xff, 0xaa, 0xab,
];

/// accepted => re-encoding reproduces the input; returns the outcome
fn strict(h: &mut H, ty: &str, b: &[u8], class: &str) -> bool {
    h.stat(&format!("C09.{}.{}", ty, class));
    let o = dec(h, ty, b);
    let id = h.last();
    h.expect(!o.is_panic(), "C09.panic", "decoder panicked", &[id]);
    match o {
        Out::Ok(v) => {
            h.expect(v == b, "C09.noncanonical", &format!("{} decoder accepted a non-canonical octet string ({})", ty, class), &[id]);
            true
        }
        _ => false,
    }
}

fn must_reject(h: &mut H, ty: &str, b: &[u8], class: &str) {
    h.stat(&format!("C09.{}.forbidden.{}", ty, class));
    let o = dec(h, ty, b);
    let id = h.last();
    h.expect(!o.is_ok(), &format!("C09.forbidden.{}", class), &format!("{} decoder accepted a forbidden encoding ({})", ty, class), &[id]);
}

pub fn c09<CS: BbsCiphersuite>(h: &mut H)
where
    CS::Expander: for<'a> ExpandMsg<'a>,
{
    let thorough = h.tier_thorough;
    // more than 255 response scalars in a proof and in a commitment: counts that no longer fit a byte
    {
        let (sk, pk) = rand_keypair::<CS>(h);
        let msgs = rand_msgs(h, 300);
        if let Some(s) = sign::<CS>(h, &sk, &pk, None, Some(&msgs)).ok() {
            if let Some(p) = honest_proof::<CS>(h, &pk, &s.to_bytes(), None, None, &msgs, &[0], true) {
                let pb = p.to_bytes();
                h.stat("C09.large_proof");
                let ok = strict(h, "proof", &pb, "honest_299_hidden");
                h.expect(ok, "C09.roundtrip_large", "a proof with 299 undisclosed messages does not survive decode/encode", &[h.last()]);
                // a non-canonical scalar deep inside must still be refused
                h.expect(pb.len() == 272 + 32 * 299, "C09.large_proof_len", "a proof with 299 undisclosed messages does not encode to 272 + 32*299 octets", &[h.last()]);
                let off = 144 + 32 * 200;
                if pb.len() >= off + 32 {
                    let mut t = pb.clone();
                    for b in &mut t[off..off + 32] { *b = 0xff; }
                    must_reject(h, "proof", &t, "scalar_max_deep");
                }
            }
        }
        let cm = rand_msgs(h, 258);
        let (c, _) = commit::<CS>(h, Some(&cm), vec![]);
        if let Some((c, _)) = c.ok() {
            let ok = strict(h, "commit", &c.to_bytes(), "honest_258_messages");
            h.expect(ok, "C09.roundtrip_large", "a commitment to 258 messages does not survive decode/encode", &[h.last()]);
        }
    }
    let nobj = if thorough { 6 } else { 2 };
    for k in 0..nobj {
        let hon = honest_artefacts::<CS>(h, 1 + k % 4, k % 3);
        for ty in TYPES {
            let b = honest_of(&hon, ty).to_vec();
            // round trip
            let ok = strict(h, ty, &b, "honest");
            h.expect(ok, "C09.roundtrip", &format!("honest {} encoding does not decode", ty), &[h.last()]);
            // extensions and truncations
            let exts: Vec<usize> = if thorough { (1..=64).collect() } else { vec![1, 2, 16, 31, 32, 33, 48, 63, 64] };
            for e in exts {
                let mut x = b.clone();
                x.extend(std::iter::repeat(0u8).take(e));
                let acc = strict(h, ty, &x, "extended");
                if e % 32 != 0 || !(ty == "proof" || ty == "zkpok" || ty == "commit") {
                    h.expect(!acc, "C09.trailing", &format!("{} decoder accepted {} trailing bytes", ty, e), &[h.last()]);
                }
                let mut y = b.clone();
                y.extend(h.rng.bytes(e));
                strict(h, ty, &y, "extended_random");
            }
            for cut in [1usize, 2, 31, 32, 33] {
                if cut < b.len() {
                    let acc = strict(h, ty, &b[..b.len() - cut], "truncated");
                    if cut % 32 != 0 {
                        h.expect(!acc, "C09.truncated", &format!("{} decoder accepted a truncated encoding", ty), &[h.last()]);
                    }
                }
            }
            // single-bit flips
            let nbits = b.len() * 8;
            let bits: Vec<usize> = if thorough { (0..nbits).collect() } else {
                let mut v = vec![0, 1, 2, 3, nbits - 1];
                for _ in 0..20 { v.push(h.rng.below(nbits as u64) as usize); }
                v
            };
            for bit in bits {
                strict(h, ty, &flip(&b, bit), "bitflip");
            }
        }
        // pk coordinates and JSON round trips (implementation side)
        let pk = BBSplusPublicKey::from_bytes(&hon.pk).unwrap();
        if let Some((x, y)) = pkcoords(h, &pk).ok() {
            let cid = h.last();
            let back = pkfromcoords(h, &x.clone().try_into().unwrap(), &y.clone().try_into().unwrap());
            let bid = h.last();
            h.expect(matches!(&back, Out::Ok(p) if p.to_bytes()[..] == hon.pk[..]), "C09.coords_roundtrip", "public key does not survive to/from coordinates", &[cid, bid]);
            // a flipped coordinate bit must not decode to the same key
            let mut y2: [u8; 96] = y.clone().try_into().unwrap();
            y2[95] ^= 1;
            let o = pkfromcoords(h, &x.clone().try_into().unwrap(), &y2);
            h.expect(!o.is_ok(), "C09.coords_offcurve", "from_coordinates accepted an off-curve point", &[h.last()]);
            let mut x2: [u8; 96] = x.clone().try_into().unwrap();
            x2[0] |= 0x80;
            let o = pkfromcoords(h, &x2, &y.clone().try_into().unwrap());
            h.expect(!o.is_ok(), "C09.coords_flag", "from_coordinates accepted a set compression flag", &[h.last()]);
        }
        macro_rules! json_rt {
            ($ty:ty, $obj:expr, $name:expr) => {{
                let o: $ty = $obj;
                let t = serde_json::to_string(&o).unwrap();
                let back: Result<$ty, _> = serde_json::from_str(&t);
                h.stat("C09.json_roundtrip");
                h.expect(matches!(&back, Ok(b) if *b == o), "C09.json_roundtrip", &format!("{} does not survive its JSON encoding", $name), &[]);
            }};
        }
        json_rt!(BBSplusPublicKey, pk.clone(), "public key");
        json_rt!(BBSplusSecretKey, BBSplusSecretKey::from_bytes(&hon.sk).unwrap(), "secret key");
        json_rt!(BBSplusSignature, BBSplusSignature::from_bytes(&hon.sig.clone().try_into().unwrap()).unwrap(), "signature");
        json_rt!(BBSplusPoKSignature, BBSplusPoKSignature::from_bytes(&hon.proof).unwrap(), "proof");
        json_rt!(BBSplusCommitment, BBSplusCommitment::from_bytes(&hon.commit).unwrap(), "commitment");
        let hexs = pk.encode();
        h.expect(hex::decode(&hexs).ok().as_deref() == Some(&hon.pk[..]), "C09.hex", "public key hex form differs from its octets", &[]);
    }
    // JSON round trips for the boundary shapes: nothing hidden (U = 0), nothing disclosed, no messages at
    // all, commitments to zero messages
    {
        let (sk, pk) = rand_keypair::<CS>(h);
        for l in [0usize, 1, 3] {
            let msgs = rand_msgs(h, l);
            if let Some(s) = sign::<CS>(h, &sk, &pk, None, Some(&msgs)).ok() {
                for d in [(0..l).collect::<Vec<usize>>(), vec![]] {
                    if let Some(p) = honest_proof::<CS>(h, &pk, &s.to_bytes(), None, None, &msgs, &d, true) {
                        h.stat("C09.json_shapes");
                        let js = serde_json::to_string(&p);
                        let back: Option<Pok<CS>> = js.as_ref().ok().and_then(|t| serde_json::from_str(t).ok());
                        h.expect(matches!(&back, Some(b) if b.to_bytes() == p.to_bytes()), "C09.json_roundtrip_shape", &format!("proof with L = {}, {} disclosed does not survive its JSON encoding", l, d.len()), &[]);
                        let inner = BBSplusPoKSignature::from_bytes(&p.to_bytes()).unwrap();
                        let back2: Option<BBSplusPoKSignature> = serde_json::to_string(&inner).ok().and_then(|t| serde_json::from_str(&t).ok());
                        h.expect(back2.as_ref() == Some(&inner), "C09.json_roundtrip_shape_inner", "proof object does not survive its JSON encoding", &[]);
                    }
                }
            }
            let cm = rand_msgs(h, l);
            let tape = rand_tape(h, l + 2);
            if let (Some((c, _)), _) = { let (o, d) = commit::<CS>(h, Some(&cm), tape); (o.ok(), d) } {
                let back: Option<Com<CS>> = serde_json::to_string(&c).ok().and_then(|t| serde_json::from_str(&t).ok());
                h.expect(matches!(&back, Some(b) if b.to_bytes() == c.to_bytes()), "C09.json_roundtrip_commit_shape", &format!("commitment to {} messages does not survive its JSON encoding", l), &[]);
            }
        }
    }
    // hex forms and the message-scalar codec on boundary values (leading zero bytes, 0, 1, r-1)
    {
        use zkryptium::utils::message::bbsplus_message::BBSplusMessage;
        use zkryptium::utils::util::bbsplus_utils::ScalarExt;
        let mut rm1 = R_BE;
        rm1[31] -= 1;
        let mut one = [0u8; 32];
        one[31] = 1;
        let mut small = [0u8; 32];
        small[20] = 7;
        for (nm, b) in [("zero", [0u8; 32]), ("one", one), ("leading_zeros", small), ("r_minus_1", rm1)] {
            let sc = Scalar::from_be_bytes(&b).unwrap();
            h.stat("C09.scalar_forms");
            h.expect(ScalarExt::encode(&sc) == hex::encode(b), "C09.scalar_hex", &format!("Scalar::encode differs from the hex of its octets for {}", nm), &[]);
            h.expect(ScalarExt::to_bytes_be(&sc) == b, "C09.scalar_bytes", &format!("Scalar::to_bytes_be is not the canonical 32 bytes for {}", nm), &[]);
            h.expect(<Scalar as ScalarExt>::from_bytes_be(&b).ok() == Some(sc), "C09.scalar_from", &format!("Scalar::from_bytes_be loses {}", nm), &[]);
            let m = BBSplusMessage::new(sc);
            h.expect(m.to_bytes_be() == b && BBSplusMessage::from_bytes_be(&b).ok().map(|x| x.value) == Some(sc), "C09.message_scalar", &format!("BBSplusMessage byte codec loses {}", nm), &[]);
            if let Ok(k) = BBSplusSecretKey::from_bytes(&b) {
                h.expect(k.encode() == hex::encode(b) && k.to_bytes() == b, "C09.sk_hex", &format!("secret key hex/bytes form loses {}", nm), &[]);
                let js = serde_json::to_string(&k).unwrap();
                let back: Result<BBSplusSecretKey, _> = serde_json::from_str(&js);
                h.expect(matches!(&back, Ok(x) if x.to_bytes() == b), "C09.sk_json_boundary", &format!("secret key JSON form loses {}", nm), &[]);
            }
            let d = dec(h, "sk", &b);
            h.expect(matches!(&d, Out::Ok(v) if v[..] == b[..]), "C09.sk_boundary", &format!("secret key octets lose {}", nm), &[h.last()]);
            let d = dec(h, "blind", &b);
            h.expect(matches!(&d, Out::Ok(v) if v[..] == b[..]), "C09.blind_boundary", &format!("blind factor octets lose {}", nm), &[h.last()]);
        }
        // short / long inputs to the slice-taking scalar decoder
        for len in [0usize, 31, 33, 64] {
            let v = vec![1u8; len];
            h.expect(<Scalar as ScalarExt>::from_bytes_be(&v).is_err(), "C09.scalar_len", "Scalar::from_bytes_be accepted a wrong length", &[]);
        }
    }
    // forbidden classes
    let hon = honest_artefacts::<CS>(h, 2, 1);
    let id1 = G1Affine::identity().to_compressed();
    let id2 = G2Affine::identity().to_compressed();
    must_reject(h, "pk", &id2, "identity_pk");
    let mut s = hon.sig.clone();
    s[..48].copy_from_slice(&id1);
    must_reject(h, "sig", &s, "identity_sigA");
    let mut s = hon.sig.clone();
    for b in &mut s[48..] { *b = 0; }
    must_reject(h, "sig", &s, "e_zero");
    for k in 0..3 {
        let mut p = hon.proof.clone();
        p[48 * k..48 * (k + 1)].copy_from_slice(&id1);
        must_reject(h, "proof", &p, "identity_proof_point");
    }
    // scalars not below the group order, in every scalar position
    let mut r1 = R_BE; r1[31] += 1;
    for (name, sc) in [("r", R_BE), ("r_plus_1", r1), ("max", [0xffu8; 32])] {
        must_reject(h, "sk", &sc, &format!("scalar_{}", name));
        must_reject(h, "blind", &sc, &format!("scalar_{}", name));
        let mut s = hon.sig.clone();
        s[48..].copy_from_slice(&sc);
        must_reject(h, "sig", &s, &format!("scalar_{}", name));
        for off in (144..hon.proof.len()).step_by(32) {
            let mut p = hon.proof.clone();
            p[off..off + 32].copy_from_slice(&sc);
            must_reject(h, "proof", &p, &format!("scalar_{}", name));
        }
        for off in (48..hon.commit.len()).step_by(32) {
            let mut c = hon.commit.clone();
            c[off..off + 32].copy_from_slice(&sc);
            must_reject(h, "commit", &c, &format!("scalar_{}", name));
        }
    }
    // r - 1 is canonical and must be accepted and reproduced
    let mut rm1 = R_BE; rm1[31] -= 1;
    let okr = strict(h, "sk", &rm1, "r_minus_1");
    h.expect(okr, "C09.r_minus_1", "scalar r-1 rejected", &[]);
    // point patterns (G1 in signature position, G2 as public key)
    let g1 = G1Affine::generator().to_compressed();
    let g2 = G2Affine::generator().to_compressed();
    let mut pats1: Vec<(String, Vec<u8>)> = Vec::new();
    for flags in 0..8u8 {
        // every compression/infinity/sort flag combination on the generator's x, on x = 0 and on x = p
        for (nm, body) in [("gen", g1.to_vec()), ("zero", vec![0u8; 48]), ("p", P_BE.to_vec()), ("ones", vec![0xffu8; 48])] {
            let mut v = body.clone();
            v[0] = (v[0] & 0x1f) | (flags << 5);
            pats1.push((format!("g1_{}_flags{}", nm, flags), v));
        }
    }
    // on-curve x not in the subgroup / off-curve x: scan small x values with both sort flags
    for x in 0u8..24 {
        for sort in [0u8, 0x20] {
            let mut v = vec![0u8; 48];
            v[47] = x;
            v[0] = 0x80 | sort;
            pats1.push((format!("g1_smallx{}_{}", x, sort), v));
        }
    }
    for (nm, v) in &pats1 {
        let mut s = hon.sig.clone();
        s[..48].copy_from_slice(v);
        strict(h, "sig", &s, "point_pattern");
        let mut c = hon.commit.clone();
        c[..48].copy_from_slice(v);
        strict(h, "commit", &c, "point_pattern");
        let _ = nm;
    }
    for flags in 0..8u8 {
        for (nm, body) in [("gen", g2.to_vec()), ("zero", vec![0u8; 96]), ("ones", vec![0xffu8; 96])] {
            let mut v = body.clone();
            v[0] = (v[0] & 0x1f) | (flags << 5);
            strict(h, "pk", &v, &format!("g2_{}_flags{}", nm, flags));
        }
    }
    for x in 0u8..24 {
        for sort in [0u8, 0x20] {
            let mut v = vec![0u8; 96];
            v[95] = x;
            v[0] = 0x80 | sort;
            strict(h, "pk", &v, "g2_smallx");
            let mut w = vec![0u8; 96];
            w[47] = x;
            w[0] = 0x80 | sort;
            strict(h, "pk", &w, "g2_smallx_c1");
        }
    }
    // public-key COORDINATES of points that are on the curve but outside the prime-order subgroup,
    // off the curve, or the identity
    let mut non_subgroup = 0;
    for x in 0u8..40 {
        for sort in [0u8, 0x20] {
            let mut v = [0u8; 96];
            v[95] = x;
            v[0] = 0x80 | sort;
            if let Some(pt) = Option::<G2Affine>::from(G2Affine::from_compressed_unchecked(&v)) {
                let in_subgroup: bool = pt.is_torsion_free().into();
                let u = pt.to_uncompressed();
                let (xx, yy) = u.split_at(96);
                let o = pkfromcoords(h, xx.try_into().unwrap(), yy.try_into().unwrap());
                let id = h.last();
                if !in_subgroup {
                    non_subgroup += 1;
                    h.stat("C09.coords_non_subgroup");
                    h.expect(!o.is_ok(), "C09.coords_subgroup", "from_coordinates accepted an on-curve point outside the prime-order subgroup", &[id]);
                }
                // the same point through the octet codec
                let mut c = pt.to_compressed();
                let o2 = dec(h, "pk", &c);
                if !in_subgroup {
                    h.expect(!o2.is_ok(), "C09.octets_subgroup", "from_bytes accepted an on-curve point outside the prime-order subgroup", &[h.last()]);
                }
                c[0] ^= 0x20;
                dec(h, "pk", &c);
            }
        }
    }
    h.expect(non_subgroup >= 4, "C09.coords_generator", "could not construct non-subgroup G2 points (harness problem)", &[]);
    let idu = G2Affine::identity().to_uncompressed();
    let (ix, iy) = idu.split_at(96);
    let o = pkfromcoords(h, ix.try_into().unwrap(), iy.try_into().unwrap());
    h.expect(!o.is_ok(), "C09.coords_identity", "from_coordinates accepted the identity", &[h.last()]);
    // same for G1 points inside signatures / commitments
    for x in 0u8..40 {
        let mut v = [0u8; 48];
        v[47] = x;
        v[0] = 0x80;
        if let Some(pt) = Option::<G1Affine>::from(G1Affine::from_compressed_unchecked(&v)) {
            let in_subgroup: bool = pt.is_torsion_free().into();
            if !in_subgroup {
                let mut s2 = hon.sig.clone();
                s2[..48].copy_from_slice(&pt.to_compressed());
                must_reject(h, "sig", &s2, "g1_non_subgroup");
                let mut c2 = hon.commit.clone();
                c2[..48].copy_from_slice(&pt.to_compressed());
                must_reject(h, "commit", &c2, "g1_non_subgroup");
                let mut p2 = hon.proof.clone();
                p2[48..96].copy_from_slice(&pt.to_compressed());
                must_reject(h, "proof", &p2, "g1_non_subgroup");
            }
        }
    }
    let _ = thorough;
}
