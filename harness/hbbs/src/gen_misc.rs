use super::*; use crate::H; use elliptic_curve::hash2curve::ExpandMsg; use zkryptium::bbsplus::ciphersuites::BbsCiphersuite;
pub fn c07<CS: BbsCiphersuite>(_h: &mut H) where CS::Expander: for<'a> ExpandMsg<'a> {}
pub fn c10<CS: BbsCiphersuite>(_h: &mut H) where CS::Expander: for<'a> ExpandMsg<'a> {}
pub fn c11<CS: BbsCiphersuite>(_h: &mut H) where CS::Expander: for<'a> ExpandMsg<'a> {}
pub fn corpus<CS: BbsCiphersuite>(_h: &mut H) where CS::Expander: for<'a> ExpandMsg<'a> {}
