// C07 (fresh blinding), C10 (conformance battery + threads), C11 (domain separation), corpus
use super::gen_blind::{honest_blind_proof, honest_issue};
use super::gen_proof::{honest_proof, rand_tape};
use super::*;
use crate::ops::*;
use crate::H;
use bls12_381_plus::Scalar;
use elliptic_curve::hash2curve::ExpandMsg;
use std::collections::{BTreeMap, HashSet};
use zkryptium::bbsplus::ciphersuites::BbsCiphersuite;
use zkryptium::bbsplus::commitment::BlindFactor;
use zkryptium::bbsplus::generators::Generators;
use zkryptium::bbsplus::keys::BBSplusPublicKey;
use zkryptium::keys::pair::KeyPair;
use zkryptium::schemes::algorithms::BBSplus;
use zkryptium::utils::message::bbsplus_message::BBSplusMessage;
use zkryptium::verif_hooks;

fn sc(b: &[u8]) -> Scalar {
    Scalar::from_be_bytes(&b.try_into().unwrap()).unwrap()
}

struct Transcript {
    points: Vec<Vec<u8>>,  // Abar, Bbar, D (or the commitment)
    blindings: Vec<Scalar>, // recomputed with the witness
    tape: Vec<Vec<u8>>,
}

/// recompute the proof blindings with the witness: e~ = e^ - e c, m~_j = m^_j - m_j c
fn proof_transcript(pb: &[u8], e: &Scalar, hidden: &[Scalar], draws: &[verif_hooks::Draw]) -> Transcript {
    let n = (pb.len() - 144) / 32;
    let s: Vec<Scalar> = (0..n).map(|k| sc(&pb[144 + 32 * k..176 + 32 * k])).collect();
    let c = s[n - 1];
    let mut bl = vec![s[0] - *e * c];
    for (j, m) in hidden.iter().enumerate() {
        bl.push(s[3 + j] - *m * c);
    }
    Transcript {
        points: vec![pb[0..48].to_vec(), pb[48..96].to_vec(), pb[96..144].to_vec()],
        blindings: bl,
        tape: draws.iter().map(|d| d.value.clone()).collect(),
    }
}

fn monitors(h: &mut H, what: &str, ts: &[Transcript], hidden_windows: &[Vec<u8>], encodings: &[Vec<u8>]) {
    let mut seen_pts: HashSet<Vec<u8>> = HashSet::new();
    let mut seen_bl: HashSet<[u8; 32]> = HashSet::new();
    let mut seen_tape: HashSet<Vec<u8>> = HashSet::new();
    let mut tops: HashSet<u64> = HashSet::new();
    let mut nbl = 0usize;
    for t in ts {
        for p in &t.points {
            let fresh = seen_pts.insert(p.clone());
            h.expect(fresh, "C07.repeat_point", &format!("{}: a group element repeated across generations", what), &[]);
        }
        for b in &t.blindings {
            nbl += 1;
            h.expect(*b != Scalar::ZERO, "C07.zero_blinding", &format!("{}: a blinding scalar is zero", what), &[]);
            let fresh = seen_bl.insert(b.to_be_bytes());
            h.expect(fresh, "C07.repeat_blinding", &format!("{}: a blinding scalar repeated within or across transcripts", what), &[]);
            tops.insert(u64::from_be_bytes(b.to_be_bytes()[..8].try_into().unwrap()));
        }
        for d in &t.tape {
            let fresh = seen_tape.insert(d.clone());
            h.expect(fresh, "C07.repeat_draw", &format!("{}: a random draw repeated", what), &[]);
        }
    }
    // spread of the top 64 bits (catches counters, small constants, fixed seeds with few outputs)
    h.expect(nbl < 8 || tops.len() * 10 >= nbl * 9, "C07.low_entropy", &format!("{}: blinding scalars cluster in their top 64 bits", what), &[]);
    for enc in encodings {
        for w in hidden_windows {
            let found = enc.windows(w.len()).any(|x| x == &w[..]);
            h.expect(!found, "C07.exposed", &format!("{}: an encoding contains a hidden scalar / A / e", what), &[]);
        }
    }
    h.stat_n(&format!("C07.{}.transcripts", what), ts.len() as u64);
}

pub fn c07<CS: BbsCiphersuite>(h: &mut H)
where
    CS::Expander: for<'a> ExpandMsg<'a>,
{
    let thorough = h.tier_thorough;
    let n = if thorough { 400 } else { 32 };
    let (sk, pk) = rand_keypair::<CS>(h);
    let l = 4usize;
    let msgs = rand_msgs(h, l);
    let hdr = rand_header(h);
    let s = sign::<CS>(h, &sk, &pk, hdr.as_deref(), Some(&msgs)).ok().expect("sign");
    let sb = s.to_bytes();
    let e = s.e();
    let ms = BBSplusMessage::messages_to_scalar::<CS>(&msgs, CS::API_ID).unwrap();
    let d = vec![1usize];
    let hidden: Vec<Scalar> = [0usize, 2, 3].iter().map(|&i| ms[i].value).collect();
    let mut windows: Vec<Vec<u8>> = hidden.iter().map(|x| x.to_be_bytes().to_vec()).collect();
    windows.push(e.to_be_bytes().to_vec());
    windows.push(sb[..48].to_vec());

    // degenerate draws fail closed: with r1 = 0, r2 = 0 or both injected, proof generation either refuses or returns
    // a proof that no verifier accepts -- never a VERIFYING proof whose multiplicative blinding is gone (Abar = A,
    // D = B) and whose octets contain the signature point
    for zeros in [vec![0usize], vec![1], vec![0, 1]] {
        let mut tape = rand_tape(h, 5 + 3);
        for &z in &zeros { tape[z] = vec![0u8; 32]; }
        let (p, _) = proofgen::<CS>(h, &pk, &sb, hdr.as_deref(), None, Some(&msgs), Some(&d), tape);
        let gid = h.last();
        h.stat("C07.degenerate_draw");
        if let Some(p) = p.ok() {
            let dm = vec![msgs[1].clone()];
            let v = proofverify::<CS>(h, &pk, &p, hdr.as_deref(), None, Some(&dm), Some(&d));
            h.expect(!v.is_ok(), "C07.degenerate_draw_verifies", &format!("proof generation with the multiplicative blinding draws {:?} forced to 0 returned a proof that verifies: the blinding was silently replaced", zeros), &[gid, h.last()]);
            let enc = p.to_bytes();
            h.expect(!enc.windows(48).any(|w| w == &sb[..48]), "C07.signature_point_in_proof", "the proof octets contain the signature point A", &[gid]);
        }
    }
    // (a) identical inputs, one thread, production RNG (record mode); every proof also goes to
    // the model with its recorded tape, which shows that ALL randomness reaching the output went
    // through the recorded draws
    let mut ts = Vec::new();
    let mut encs = Vec::new();
    for k in 0..n {
        let ph = if k % 2 == 0 { None } else { Some(vec![k as u8]) };
        let (p, draws) = proofgen::<CS>(h, &pk, &sb, hdr.as_deref(), ph.as_deref(), Some(&msgs), Some(&d), vec![]);
        let id = h.last();
        let p = match p.ok() { Some(p) => p, None => { h.expect(false, "C07.gen", "proof_gen failed", &[id]); continue; } };
        h.expect(draws.iter().all(|x| x.value == x.natural), "C07.tape", "record mode altered a draw", &[id]);
        let pb = p.to_bytes();
        let t = proof_transcript(&pb, &e, &hidden, &draws);
        // the recomputed blindings are exactly the draws used in those roles
        let ok_roles = draws.len() == 5 + hidden.len()
            && t.blindings[0].to_be_bytes()[..] == draws[2].value[..]
            && (0..hidden.len()).all(|j| t.blindings[1 + j].to_be_bytes()[..] == draws[5 + j].value[..]);
        h.expect(ok_roles, "C07.roles", "recomputed blindings are not the drawn scalars", &[id]);
        ts.push(t);
        encs.push(pb);
    }
    monitors(h, "proof_same_inputs", &ts, &windows, &encs);

    // (b) 16 threads, identical inputs (unlogged runs; each is then replayed with its own tape)
    let per = if thorough { 16 } else { 3 };
    let mut handles = Vec::new();
    for _ in 0..16 {
        let (pk2, sb2, hdr2, msgs2, d2) = (pk.clone(), sb, hdr.clone(), msgs.clone(), d.clone());
        handles.push(std::thread::spawn(move || {
            let mut out = Vec::new();
            for _ in 0..per {
                verif_hooks::start(vec![]);
                let p = Pok::<CS>::proof_gen(&pk2, &sb2, hdr2.as_deref(), None, Some(&msgs2), Some(&d2));
                let draws = verif_hooks::stop();
                out.push((p.map(|x| x.to_bytes()).ok(), draws));
            }
            out
        }));
    }
    let mut ts2 = Vec::new();
    let mut encs2 = Vec::new();
    for hd in handles {
        for (pb, draws) in hd.join().unwrap() {
            if let Some(pb) = pb {
                // replay on this thread with the recorded tape injected: same bytes <=> the proof is
                // a function of (inputs, tape) only
                let inj: Vec<Vec<u8>> = draws.iter().map(|x| x.value.clone()).collect();
                let (again, _) = proofgen::<CS>(h, &pk, &sb, hdr.as_deref(), None, Some(&msgs), Some(&d), inj);
                let id = h.last();
                h.expect(matches!(&again, Out::Ok(p) if p.to_bytes() == pb), "C07.thread_replay", "a proof made on another thread is not reproduced from its recorded tape", &[id]);
                ts2.push(proof_transcript(&pb, &e, &hidden, &draws));
                encs2.push(pb);
            }
        }
    }
    h.expect(ts2.len() == 16 * per, "C07.thread_gen", "proof_gen failed on a worker thread", &[]);
    ts2.extend(ts);
    monitors(h, "proof_threads_plus_main", &ts2, &windows, &encs2);

    // (c) another process
    if let Ok(exe) = std::env::current_exe() {
        let outp = std::process::Command::new(exe).args(["c07child", h.suite]).output();
        if let Ok(o) = outp {
            let text = String::from_utf8_lossy(&o.stdout);
            let mine = child_values::<CS>();
            let theirs: Vec<&str> = text.split_whitespace().collect();
            h.stat("C07.child_process");
            h.expect(theirs.len() == mine.len() && !theirs.is_empty(), "C07.child", "child process produced no values", &[]);
            for (a, b) in mine.iter().zip(theirs.iter()) {
                h.expect(a != b, "C07.cross_process_repeat", "two processes produced the same random artefact", &[]);
            }
        }
    }

    // (d) commitments and blind factors
    let cm = rand_msgs(h, 3);
    let cms = BBSplusMessage::messages_to_scalar::<CS>(&cm, CS::API_ID_BLIND).unwrap();
    let mut tc = Vec::new();
    let mut cencs = Vec::new();
    let mut blinds: HashSet<Vec<u8>> = HashSet::new();
    for _ in 0..n {
        let (c, draws) = commit::<CS>(h, Some(&cm), vec![]);
        let id = h.last();
        if let Some((c, bf)) = c.ok() {
            commit_sends_only_octets::<CS>(h, &c, &bf.to_bytes(), id);
            let cb = c.to_bytes();
            let k = (cb.len() - 48) / 32;
            let ss: Vec<Scalar> = (0..k).map(|i| sc(&cb[48 + 32 * i..80 + 32 * i])).collect();
            let ch = ss[k - 1];
            let blind = sc(&bf.to_bytes());
            let mut bl = vec![ss[0] - blind * ch];
            for j in 0..cms.len() {
                bl.push(ss[1 + j] - cms[j].value * ch);
            }
            h.expect(blinds.insert(bf.to_bytes().to_vec()), "C07.repeat_blind_factor", "secret_prover_blind repeated", &[id]);
            h.expect(blind != Scalar::ZERO, "C07.zero_blind_factor", "secret_prover_blind is zero", &[id]);
            let roles = draws.len() == cms.len() + 2 && draws[0].value[..] == bf.to_bytes()[..] && bl[0].to_be_bytes()[..] == draws[1].value[..];
            h.expect(roles, "C07.commit_roles", "commit blindings are not the drawn scalars", &[id]);
            tc.push(Transcript { points: vec![cb[..48].to_vec()], blindings: bl, tape: draws.iter().map(|d| d.value.clone()).collect() });
            cencs.push(cb);
        } else {
            h.expect(false, "C07.commit", "commit failed", &[id]);
        }
    }
    let mut cw: Vec<Vec<u8>> = cms.iter().map(|x| x.value.to_be_bytes().to_vec()).collect();
    cw.extend(blinds.iter().cloned());
    monitors(h, "commit_same_inputs", &tc, &cw, &cencs);

    // (e) blind proofs hide the blind factor too; different inputs
    let mut tb = Vec::new();
    let mut bencs = Vec::new();
    let mut bw = Vec::new();
    let reps = if thorough { 40 } else { 4 };
    for r in 0..reps {
        let msgs = rand_msgs(h, 2);
        let cmsgs = rand_msgs(h, 2);
        if let Some(run) = honest_issue::<CS>(h, &sk, &pk, None, &msgs, &cmsgs, false) {
            let dd = if r % 2 == 0 { vec![0usize] } else { vec![] };
            if let Some(p) = honest_blind_proof::<CS>(h, &pk, &run, None, None, &msgs, &cmsgs, &dd, &[1], false) {
                let pb = p.to_bytes();
                bw.push(run.blind.to_vec());
                bw.push(run.sig.e.to_be_bytes().to_vec());
                bw.push(g1hex(&run.sig.A));
                tb.push(Transcript { points: vec![pb[0..48].to_vec(), pb[48..96].to_vec(), pb[96..144].to_vec()], blindings: vec![], tape: vec![] });
                bencs.push(pb);
            }
        }
    }
    monitors(h, "blind_proofs", &tb, &bw, &bencs);

    // (h) repeated / unsorted disclosed indexes (legal input, de-duplicated by proof_gen): the number of
    // blindings and their roles must be those of the de-duplicated set -- every hidden message stays blinded
    for idx in [vec![1usize, 1], vec![0, 0, 2], vec![3, 1, 3], vec![2, 2, 2, 2], vec![1, 0, 1, 0]] {
        let mut set = idx.clone();
        set.sort();
        set.dedup();
        let hid_pos: Vec<usize> = (0..l).filter(|i| !set.contains(i)).collect();
        let hid: Vec<Scalar> = hid_pos.iter().map(|&i| ms[i].value).collect();
        let (p, draws) = proofgen::<CS>(h, &pk, &sb, hdr.as_deref(), None, Some(&msgs), Some(&idx), vec![]);
        let id = h.last();
        h.stat("C07.dup_indexes");
        if let Some(p) = p.ok() {
            let pb = p.to_bytes();
            h.expect(pb.len() == 272 + 32 * hid.len(), "C07.dup_len", "proof over repeated disclosed indexes has the wrong number of responses", &[id]);
            if pb.len() == 272 + 32 * hid.len() {
                let t = proof_transcript(&pb, &e, &hid, &draws);
                let ok_roles = draws.len() == 5 + hid.len()
                    && t.blindings[0].to_be_bytes()[..] == draws[2].value[..]
                    && (0..hid.len()).all(|j| t.blindings[1 + j].to_be_bytes()[..] == draws[5 + j].value[..]);
                h.expect(ok_roles, "C07.roles_dup_indexes", &format!("disclosed indexes {:?}: a hidden message is not blinded by its own fresh scalar", idx), &[id]);
                h.expect(t.blindings.iter().all(|b| *b != Scalar::ZERO), "C07.unblinded", &format!("disclosed indexes {:?}: a response equals secret * challenge (zero blinding)", idx), &[id]);
            }
        }
    }
    // (g) other shapes: U in 0..=3, M in 0..=2 (a reuse that only happens for one count)
    for l in [0usize, 1, 2, 3, 11, 12, 16, 17, 28, 33, 64] {
        let msgs = rand_msgs(h, l);
        let s = match sign::<CS>(h, &sk, &pk, None, Some(&msgs)).ok() { Some(s) => s, None => continue };
        let msc = BBSplusMessage::messages_to_scalar::<CS>(&msgs, CS::API_ID).unwrap();
        let hid: Vec<Scalar> = msc.iter().map(|m| m.value).collect();
        let mut tsh = Vec::new();
        for _ in 0..3 {
            let (p, draws) = proofgen::<CS>(h, &pk, &s.to_bytes(), None, None, Some(&msgs), Some(&[]), vec![]);
            let id = h.last();
            if let Some(p) = p.ok() {
                let t = proof_transcript(&p.to_bytes(), &s.e(), &hid, &draws);
                let ok_roles = draws.len() == 5 + l
                    && t.blindings[0].to_be_bytes()[..] == draws[2].value[..]
                    && (0..l).all(|j| t.blindings[1 + j].to_be_bytes()[..] == draws[5 + j].value[..]);
                h.expect(ok_roles, "C07.roles_shapes", &format!("U = {}: recomputed blindings are not the drawn scalars", l), &[id]);
                tsh.push(t);
            }
        }
        monitors(h, &format!("proof_U{}", l), &tsh, &[], &[]);
    }
    for m in [0usize, 1, 2, 13, 14, 15, 16, 31, 63, 257, 300] {
        let cm = rand_msgs(h, m);
        let cmsc = BBSplusMessage::messages_to_scalar::<CS>(&cm, CS::API_ID_BLIND).unwrap();
        let mut tsh = Vec::new();
        for _ in 0..3 {
            let (c, draws) = commit::<CS>(h, Some(&cm), vec![]);
            let id = h.last();
            if let Some((c, bf)) = c.ok() {
                commit_sends_only_octets::<CS>(h, &c, &bf.to_bytes(), id);
                let cb = c.to_bytes();
                let k = (cb.len() - 48) / 32;
                let ss: Vec<Scalar> = (0..k).map(|i| sc(&cb[48 + 32 * i..80 + 32 * i])).collect();
                let ch = ss[k - 1];
                let blind = sc(&bf.to_bytes());
                let mut bl = vec![ss[0] - blind * ch];
                for j in 0..m {
                    bl.push(ss[1 + j] - cmsc[j].value * ch);
                }
                let roles = draws.len() == m + 2
                    && draws[0].value[..] == bf.to_bytes()[..]
                    && bl[0].to_be_bytes()[..] == draws[1].value[..]
                    && (0..m).all(|j| bl[1 + j].to_be_bytes()[..] == draws[2 + j].value[..]);
                h.expect(roles, "C07.commit_roles_shapes", &format!("M = {}: commit blindings are not the drawn scalars", m), &[id]);
                tsh.push(Transcript { points: vec![cb[..48].to_vec()], blindings: bl, tape: draws.iter().map(|d| d.value.clone()).collect() });
            }
        }
        monitors(h, &format!("commit_M{}", m), &tsh, &[], &[]);
    }

    // commit with an ABSENT message list: the blind factor is as fresh as with an empty list, the commitment is
    // not the identity, and the blindings are the drawn scalars
    {
        let mut tsh = Vec::new();
        let mut blinds: HashSet<Vec<u8>> = HashSet::new();
        for _ in 0..3 {
            let (c, draws) = commit::<CS>(h, None, vec![]);
            let id = h.last();
            h.stat("C07.commit_absent_list");
            if let Some((c, bf)) = c.ok() {
                commit_sends_only_octets::<CS>(h, &c, &bf.to_bytes(), id);
                let cb = c.to_bytes();
                let bfb = bf.to_bytes();
                h.expect(bfb != [0u8; 32], "C07.commit_none_zero_blind", "commit(None) returned a zero blind factor", &[id]);
                h.expect(cb[0] & 0x40 == 0, "C07.commit_none_identity", "commit(None) returned the identity commitment", &[id]);
                h.expect(blinds.insert(bfb.to_vec()), "C07.repeat_blindfactor", "commit(None) repeated a blind factor", &[id]);
                let k = (cb.len() - 48) / 32;
                let ss: Vec<Scalar> = (0..k).map(|i| sc(&cb[48 + 32 * i..80 + 32 * i])).collect();
                let ch = ss[k - 1];
                let bl = vec![ss[0] - sc(&bfb) * ch];
                let roles = draws.len() == 2 && draws[0].value[..] == bfb[..] && bl[0].to_be_bytes()[..] == draws[1].value[..];
                h.expect(roles, "C07.commit_roles_shapes", "commit(None): blind factor / blinding are not the drawn scalars", &[id]);
                tsh.push(Transcript { points: vec![cb[..48].to_vec()], blindings: bl, tape: draws.iter().map(|d| d.value.clone()).collect() });
            } else {
                h.expect(false, "C07.commit_none", "commit(None) failed", &[id]);
            }
        }
        monitors(h, "commit_absent_list", &tsh, &[], &[]);
    }

    // (f) random key pairs
    let mut sks: HashSet<Vec<u8>> = HashSet::new();
    for _ in 0..n {
        match KeyPair::<BBSplus<CS>>::random() {
            Ok(kp) => {
                let (s, p) = kp.into_parts();
                h.expect(sks.insert(s.to_bytes().to_vec()), "C07.repeat_sk", "KeyPair::random repeated a secret key", &[]);
                h.expect(s.public_key().to_bytes() == p.to_bytes(), "C07.random_pk", "random key pair is inconsistent", &[]);
            }
            Err(_) => h.expect(false, "C07.random_key", "KeyPair::random failed", &[]),
        }
        let b = BlindFactor::random().to_bytes().to_vec();
        h.expect(sks.insert(b), "C07.repeat_blindfactor_random", "BlindFactor::random repeated", &[]);
    }
    h.stat_n("C07.random_keys", n as u64);
    let _ = honest_proof::<CS>;
}

/// what the prover hands over is the commitment-with-proof: its JSON form must not carry anything that the octet
/// form does not (e.g. the blind factor kept next to the commitment for the prover's convenience)
fn commit_sends_only_octets<CS: BbsCiphersuite>(h: &mut H, c: &Com<CS>, blind: &[u8], id: u64)
where
    CS::Expander: for<'a> ExpandMsg<'a>,
{
    let j1 = serde_json::to_value(c).ok();
    let j2 = Com::<CS>::from_bytes(&c.to_bytes()).ok().and_then(|x| serde_json::to_value(&x).ok());
    h.expect(j1.is_some() && j1 == j2, "C07.commit_json_extra", "the JSON form of a fresh commitment differs from the JSON form of the same commitment decoded from its octets: it carries something the octets do not", &[id]);
    if let Ok(t) = serde_json::to_string(c) {
        let hx = hex::encode(blind);
        let arr = blind.iter().map(|b| b.to_string()).collect::<Vec<_>>().join(",");
        h.expect(!t.to_lowercase().contains(&hx) && !t.contains(&arr), "C07.commit_json_blind", "the JSON form of a commitment contains the prover's blind factor", &[id]);
    }
}

/// values a fresh process generates from FIXED inputs (must differ between processes)
pub fn child_values<CS: BbsCiphersuite>() -> Vec<String>
where
    CS::Expander: for<'a> ExpandMsg<'a>,
{
    let kp = KeyPair::<BBSplus<CS>>::generate(&[7u8; 32], None, None).unwrap();
    let (sk, pk) = kp.into_parts();
    let msgs = vec![b"m0".to_vec(), b"m1".to_vec()];
    let s = Sig::<CS>::sign(Some(&msgs), &sk, &pk, None).unwrap();
    let p = Pok::<CS>::proof_gen(&pk, &s.to_bytes(), None, None, Some(&msgs), Some(&[0])).unwrap();
    let (c, b) = Com::<CS>::commit(Some(&msgs)).unwrap();
    let r = KeyPair::<BBSplus<CS>>::random().unwrap();
    vec![
        hex::encode(p.to_bytes()),
        hex::encode(c.to_bytes()),
        hex::encode(b.to_bytes()),
        hex::encode(r.private_key().to_bytes()),
        hex::encode(BlindFactor::random().to_bytes()),
    ]
}

// ---------------------------------------------------------------------------------------------

/// the deterministic conformance battery (every output is compared octet-for-octet with the model)
fn battery<CS: BbsCiphersuite>(h: &mut H, size: usize)
where
    CS::Expander: for<'a> ExpandMsg<'a>,
{
    // key generation incl. the exact limits
    for (il, kl, dl) in [
        (31usize, 0usize, None), (32, 0, None), (33, 1, None), (64, 65535, None), (32, 65536, None),
        (32, 2, Some(0usize)), (32, 2, Some(1)), (48, 2, Some(255)), (32, 2, Some(256)), (0, 0, None), (1000, 256, Some(17)),
    ] {
        let ikm = h.rng.bytes(il);
        let info = h.rng.bytes(kl);
        let dst = dl.map(|n| h.rng.bytes(n));
        let o = keygen::<CS>(h, &ikm, if kl == 0 && il % 2 == 0 { None } else { Some(&info) }, dst.as_deref());
        let id = h.last();
        let must_fail = il < 32 || kl > 65535 || dl.map(|d| d > 255).unwrap_or(false);
        h.expect(o.is_ok() != must_fail, "C10.keygen_guard", "key generation guard (ikm<32 / key_info>65535 / dst>255) not enforced", &[id]);
    }
    // generators: counts, api ids, prefix property
    let blind_api = [b"BLIND_".as_slice(), CS::API_ID_BLIND].concat();
    let apis: Vec<Option<Vec<u8>>> = vec![Some(CS::API_ID.to_vec()), Some(CS::API_ID_BLIND.to_vec()), Some(blind_api), None, Some(vec![]), Some(b"other".to_vec())];
    for (k, api) in apis.iter().enumerate() {
        let nmax = if k < 3 { size } else { 3 };
        let big = gens::<CS>(h, api.as_deref(), nmax);
        let bid = h.last();
        for kk in [0usize, 1, 2, nmax / 2] {
            let small = gens::<CS>(h, api.as_deref(), kk);
            let sid = h.last();
            if let (Out::Ok(b), Out::Ok(s)) = (&big, &small) {
                h.expect(b.values[..kk.min(b.values.len())] == s.values[..], "C10.gens_prefix", "the first k generators depend on the requested count", &[bid, sid]);
            }
        }
    }
    // hash-to-scalar / map-to-scalar
    for len in [0usize, 1, 32, 255, 256, 1000] {
        let m = h.rng.bytes(len);
        let dst = h.rng.bytes([1usize, 16, 255, 256, 300][len % 5]);
        let o = h2s::<CS>(h, &m, &dst);
        h.expect(o.is_ok() == (dst.len() <= 255), "C10.h2s_dst", "hash_to_scalar DST length guard", &[h.last()]);
        mapmsg::<CS>(h, &m, CS::API_ID);
        mapmsg::<CS>(h, &m, CS::API_ID_BLIND);
    }
    // sign / verify / proofs / blind with injected tapes: octets and decisions
    let (sk, pk) = rand_keypair::<CS>(h);
    for l in [0usize, 1, 3, 7] {
        let msgs = rand_msgs(h, l);
        let hdr = rand_header(h);
        if let Some(s) = sign::<CS>(h, &sk, &pk, hdr.as_deref(), Some(&msgs)).ok() {
            let sig = s.bbsPlusSignature().clone();
            verify::<CS>(h, &pk, &sig, hdr.as_deref(), Some(&msgs));
            let mut m2 = msgs.clone();
            m2.push(b"x".to_vec());
            verify::<CS>(h, &pk, &sig, hdr.as_deref(), Some(&m2));
            // the octets of the honest signature with a point of order 3 added to A: on the curve, outside the
            // prime-order group, invisible to the pairing -- octets_to_signature refuses them
            {
                use bls12_381_plus::group::Curve;
                let mut enc = [0u8; 48];
                enc[0] = 0x80;
                if let Some(t) = Option::<bls12_381_plus::G1Affine>::from(bls12_381_plus::G1Affine::from_compressed_unchecked(&enc)) {
                    let shifted = (sig.A + bls12_381_plus::G1Projective::from(t)).to_affine().to_compressed();
                    let mut sb2 = s.to_bytes().to_vec();
                    sb2[..48].copy_from_slice(&shifted);
                    let o = dec(h, "sig", &sb2);
                    h.expect(!o.is_panic() && !o.is_ok(), "C10.non_subgroup_point", "Signature::from_bytes accepted a point outside the prime-order group", &[h.last()]);
                }
            }
            let d = rand_subset(h, l);
            let ph = rand_header(h);
            if let Some(p) = honest_proof::<CS>(h, &pk, &s.to_bytes(), hdr.as_deref(), ph.as_deref(), &msgs, &d, true) {
                {
                    use bls12_381_plus::group::Curve;
                    let mut enc = [0u8; 48];
                    enc[0] = 0xa0;
                    if let Some(t) = Option::<bls12_381_plus::G1Affine>::from(bls12_381_plus::G1Affine::from_compressed_unchecked(&enc)) {
                        let pb = p.to_bytes();
                        for slot in 0..3usize {
                            let mut arr = [0u8; 48];
                            arr.copy_from_slice(&pb[48 * slot..48 * slot + 48]);
                            if let Some(q) = Option::<bls12_381_plus::G1Affine>::from(bls12_381_plus::G1Affine::from_compressed(&arr)) {
                                let shifted = (bls12_381_plus::G1Projective::from(q) + bls12_381_plus::G1Projective::from(t)).to_affine().to_compressed();
                                let mut pb2 = pb.clone();
                                pb2[48 * slot..48 * slot + 48].copy_from_slice(&shifted);
                                let o = dec(h, "proof", &pb2);
                                h.expect(!o.is_panic() && !o.is_ok(), "C10.non_subgroup_point", "PoKSignature::from_bytes accepted a point outside the prime-order group", &[h.last()]);
                            }
                        }
                    }
                }
                let dm = pick_msgs(&msgs, &d);
                proofverify::<CS>(h, &pk, &p, hdr.as_deref(), None, Some(&dm), Some(&d));
                let o = proofverify::<CS>(h, &pk, &p, hdr.as_deref(), ph.as_deref(), Some(&[b"x".to_vec()]), Some(&[l + 3]));
                h.expect(!o.is_panic() && !o.is_ok(), "C10.bad_indexes", "proof_verify did not refuse an out-of-range disclosed index", &[h.last()]);
                // argument SHAPES the draft refuses (len(disclosed messages) != len(disclosed indexes)): more messages
                // than indexes, fewer, messages without an index list, an index list without messages
                let mut surplus = dm.clone();
                surplus.push(b"surplus".to_vec());
                let shapes: Vec<(&str, Option<Vec<Vec<u8>>>, Option<Vec<usize>>)> = vec![
                    ("surplus_message", Some(surplus.clone()), Some(d.clone())),
                    ("surplus_message_no_index_list", Some(surplus), None),
                    ("message_missing", Some(dm[..dm.len().saturating_sub(1)].to_vec()), Some(d.clone())),
                    ("indexes_without_messages", None, Some(d.clone())),
                ];
                for (nm, ms, ix) in shapes {
                    // (with nothing disclosed the last two shapes ARE the honest call)
                    if d.is_empty() && (nm == "message_missing" || nm == "indexes_without_messages") { continue; }
                    let o = proofverify::<CS>(h, &pk, &p, hdr.as_deref(), ph.as_deref(), ms.as_deref(), ix.as_deref());
                    h.stat(&format!("C10.shape.{}", nm));
                    h.expect(!o.is_panic() && !o.is_ok(), "C10.bad_shape", &format!("proof_verify accepted a disclosed-message list that does not match the index list ({})", nm), &[h.last()]);
                }
                // a disclosed position listed twice by the verifier (ascending, one message per distinct position): the
                // same set, the same decision as for the plain list
                if !d.is_empty() {
                    let mut dd = d.clone();
                    dd.insert(0, d[0]);
                    let o = proofverify::<CS>(h, &pk, &p, hdr.as_deref(), ph.as_deref(), Some(&dm), Some(&dd));
                    h.expect(o.is_ok(), "C10.repeated_index", "proof_verify refused an honest proof because a disclosed position was listed twice", &[h.last()]);
                }
                // a plain proof shown to the blind verifier with the optional arguments left out
                let o = blindproofverify::<CS>(h, &pk, &p, hdr.as_deref(), ph.as_deref(), None, Some(&dm), None, Some(&d), None);
                h.expect(!o.is_panic() && !o.is_ok(), "C10.plain_proof_blind_verifier_defaults", "blind_proof_verify with L and the committed lists omitted accepted a plain proof", &[h.last()]);
            }
            let cm = rand_msgs(h, l % 3);
            if let Some(run) = honest_issue::<CS>(h, &sk, &pk, hdr.as_deref(), &msgs, &cm, true) {
                let dc = rand_subset(h, cm.len());
                if let Some(bp) = honest_blind_proof::<CS>(h, &pk, &run, hdr.as_deref(), ph.as_deref(), &msgs, &cm, &d, &dc, true) {
                    // error outcomes are part of conformance too: index lists the draft refuses (out of range in
                    // either half, repeated, more indexes than messages) must be refused, never crash
                    let dm = pick_msgs(&msgs, &d);
                    let dcm = pick_msgs(&cm, &dc);
                    let big = l + cm.len() + 9;
                    let mut bad_idx = d.clone();
                    bad_idx.insert(0, big);
                    let mut bad_dm = dm.clone();
                    bad_dm.insert(0, b"x".to_vec());
                    let variants: Vec<(Vec<usize>, Vec<Vec<u8>>, Vec<usize>, Vec<Vec<u8>>)> = vec![
                        (bad_idx.clone(), bad_dm.clone(), dc.clone(), dcm.clone()),
                        (d.clone(), dm.clone(), { let mut x = dc.clone(); x.push(big); x }, { let mut x = dcm.clone(); x.push(b"y".to_vec()); x }),
                        (vec![big], vec![b"x".to_vec()], vec![0], vec![b"y".to_vec()]),
                        (vec![usize::MAX], vec![b"x".to_vec()], vec![], vec![]),
                        (vec![], vec![], vec![usize::MAX - l], vec![b"y".to_vec()]),
                    ];
                    for (i1, m1, i2, m2) in variants {
                        let o = blindproofverify::<CS>(h, &pk, &bp, hdr.as_deref(), ph.as_deref(), Some(l), Some(&m1), Some(&m2), Some(&i1), Some(&i2));
                        h.expect(!o.is_panic() && !o.is_ok(), "C10.bad_indexes", "blind_proof_verify did not refuse an index list the draft refuses", &[h.last()]);
                    }
                }
                let mut bl = run.blind;
                bl[31] ^= 2;
                verifyblind::<CS>(h, &pk, &run.sig, hdr.as_deref(), Some(&msgs), Some(&cm), Some(&bl));
                // the blind factor left out although a commitment was used: refused (the factor is never 0)
                let o = verifyblind::<CS>(h, &pk, &run.sig, hdr.as_deref(), Some(&msgs), Some(&cm), None);
                h.expect(!o.is_panic() && !o.is_ok(), "C10.blind_factor_omitted", "verify_blind_sign without the blind factor accepted a signature issued over a commitment", &[h.last()]);
                // an omitted signer-message count is the count 0: the same decision, on an honest blind proof that
                // discloses nothing
                if let Some(bp0) = honest_blind_proof::<CS>(h, &pk, &run, hdr.as_deref(), ph.as_deref(), &msgs, &cm, &[], &[], true) {
                    let a = blindproofverify::<CS>(h, &pk, &bp0, hdr.as_deref(), ph.as_deref(), None, None, None, None, None);
                    let aid = h.last();
                    let b = blindproofverify::<CS>(h, &pk, &bp0, hdr.as_deref(), ph.as_deref(), Some(0), Some(&[]), Some(&[]), Some(&[]), Some(&[]));
                    h.expect(a.class() == b.class(), "C10.L_omitted_is_zero", "blind_proof_verify decides differently for an omitted signer-message count and for the count 0", &[aid, h.last()]);
                    h.expect(a.is_ok() == (l == 0), "C10.L_omitted_decision", "blind_proof_verify with the signer-message count omitted: wrong decision", &[aid]);
                }
            }
            if l > 0 {
                update::<CS>(h, &sig, &sk, &msgs[l - 1], b"updated", l - 1, l);
            }
            // position one past the end, and the count one too small: refused
            let o = update::<CS>(h, &sig, &sk, if l > 0 { &msgs[l - 1] } else { b"" }, b"updated", l, l);
            h.expect(o.is_err(), "C10.update_past_end", "update_signature accepted the position one past the end", &[h.last()]);
            // the identity as commitment point followed by scalars that prove nothing: refused by the signer and by
            // the public validation helper (an identity commitment with a VALID proof is a different artefact)
            {
                let mut t = bls12_381_plus::G1Affine::identity().to_compressed().to_vec();
                for _ in 0..3 {
                    let mut a = h.rng.bytes(32);
                    a[0] &= 0x3f;
                    t.extend_from_slice(&a);
                }
                let o = blindsign::<CS>(h, &sk, &pk, Some(&t), hdr.as_deref(), Some(&msgs));
                h.expect(!o.is_panic() && !o.is_ok(), "C10.identity_commitment_junk_proof", "blind_sign signed for an identity commitment whose proof is junk", &[h.last()]);
                let o = devc::<CS>(h, Some(&t), 2);
                h.expect(!o.is_panic() && !o.is_ok(), "C10.identity_commitment_junk_proof", "deserialize_and_validate_commit accepted an identity commitment whose proof is junk", &[h.last()]);
            }
            // "no commitment" given as None and as the empty octet string: the same (deterministic) signature
            let b_none = blindsign::<CS>(h, &sk, &pk, None, hdr.as_deref(), Some(&msgs));
            let n_id = h.last();
            let b_empty = blindsign::<CS>(h, &sk, &pk, Some(&[]), hdr.as_deref(), Some(&msgs));
            let same = match (b_none.ok(), b_empty.ok()) { (Some(a), Some(b)) => a.to_bytes() == b.to_bytes(), _ => false };
            h.expect(same, "C10.no_commitment_default", "blind_sign with an absent commitment and with the empty octet string differ", &[n_id, h.last()]);
            // a signature issued WITHOUT a commitment: verifies with no committed messages (absent or empty list, no
            // blind factor) and with nothing else
            if let Some(bs) = blindsign::<CS>(h, &sk, &pk, None, hdr.as_deref(), Some(&msgs)).ok() {
                let bsig = bs.bbsPlusBlindSignature().clone();
                let o = verifyblind::<CS>(h, &pk, &bsig, hdr.as_deref(), Some(&msgs), None, None);
                h.expect(o.is_ok(), "C10.no_commitment_verify", "a blind signature issued without a commitment does not verify", &[h.last()]);
                let o = verifyblind::<CS>(h, &pk, &bsig, hdr.as_deref(), Some(&msgs), Some(&[]), None);
                h.expect(o.is_ok(), "C10.no_commitment_verify", "a blind signature issued without a commitment does not verify with an empty committed list", &[h.last()]);
                let o = verifyblind::<CS>(h, &pk, &bsig, hdr.as_deref(), Some(&msgs), Some(&[b"never committed".to_vec()]), None);
                h.expect(!o.is_panic() && !o.is_ok(), "C10.no_commitment_extra_committed", "a blind signature issued without a commitment verifies with a committed message that was never signed", &[h.last()]);
            }
        }
    }
    let _ = rand_tape(h, 0);
}

pub fn c10<CS: BbsCiphersuite>(h: &mut H)
where
    CS::Expander: for<'a> ExpandMsg<'a>,
{
    let size = if h.tier_thorough { 64 } else { 12 };
    if h.tier_thorough {
        // many more sequential batteries with fresh inputs (the threaded comparison below uses the last)
        for _ in 0..24 {
            battery::<CS>(h, 16);
        }
    }
    let seed0 = h.rng.next();
    let first = h.next_id;
    h.rng = crate::util::Rng::new(seed0);
    battery::<CS>(h, size);
    let seq: Vec<String> = h.lines.iter().filter(|l| l.split(' ').next().unwrap().parse::<u64>().unwrap() >= first).map(|l| l.splitn(2, ' ').nth(1).unwrap().to_string()).collect();
    // the same battery on 16 threads at once against the sequential answers
    let suite = h.suite;
    let thorough = h.tier_thorough;
    let mut hs = Vec::new();
    for _ in 0..16 {
        hs.push(std::thread::spawn(move || {
            let mut t = H {
                suite,
                lines: vec![],
                fails: vec![],
                stats: BTreeMap::new(),
                next_id: first,
                rng: crate::util::Rng::new(seed0),
                tier_thorough: thorough,
                oracle_checks: 0,
            };
            battery::<CS>(&mut t, size);
            let lines: Vec<String> = t.lines.iter().map(|l| l.splitn(2, ' ').nth(1).unwrap().to_string()).collect();
            (lines, t.fails.len())
        }));
    }
    for (k, hd) in hs.into_iter().enumerate() {
        match hd.join() {
            Ok((lines, nf)) => {
                h.stat("C10.thread_runs");
                let same = lines == seq;
                h.expect(same, "C10.threads", &format!("the battery run concurrently (thread {}) differs from the sequential answers", k), &[]);
                h.expect(nf == 0, "C10.threads_oracle", "oracle failure on a worker thread", &[]);
            }
            Err(_) => h.expect(false, "C10.thread_panic", "worker thread panicked", &[]),
        }
    }
}

// ---------------------------------------------------------------------------------------------

pub trait Dual: BbsCiphersuite {
    type Other: BbsCiphersuite;
}
impl Dual for zkryptium::bbsplus::ciphersuites::Bls12381Sha256 {
    type Other = zkryptium::bbsplus::ciphersuites::Bls12381Shake256;
}
impl Dual for zkryptium::bbsplus::ciphersuites::Bls12381Shake256 {
    type Other = zkryptium::bbsplus::ciphersuites::Bls12381Sha256;
}

fn other_suite(h: &mut H) -> &'static str {
    let keep = h.suite;
    h.suite = if keep == "sha" { "shake" } else { "sha" };
    keep
}

pub fn c11_dual<CS: Dual>(h: &mut H)
where
    CS::Expander: for<'a> ExpandMsg<'a>,
    <CS::Other as BbsCiphersuite>::Expander: for<'a> ExpandMsg<'a>,
{
    let thorough = h.tier_thorough;
    let reps = if thorough { 6 } else { 2 };
    for r in 0..reps {
        let (sk, pk) = rand_keypair::<CS>(h);
        let l = 1 + r % 3;
        let m = r % 3;
        let msgs = distinct_msgs(h, l);
        let cmsgs = distinct_msgs(h, m);
        let hdr = rand_header(h);
        let ph = rand_header(h);
        let s = match sign::<CS>(h, &sk, &pk, hdr.as_deref(), Some(&msgs)).ok() { Some(s) => s, None => continue };
        let sig = s.bbsPlusSignature().clone();
        let d = rand_subset(h, l);
        let dm = pick_msgs(&msgs, &d);
        let p = honest_proof::<CS>(h, &pk, &s.to_bytes(), hdr.as_deref(), ph.as_deref(), &msgs, &d, true);
        let run = honest_issue::<CS>(h, &sk, &pk, hdr.as_deref(), &msgs, &cmsgs, true);
        let dc = rand_subset(h, m);
        let dcm = pick_msgs(&cmsgs, &dc);
        let bp = run.as_ref().and_then(|run| honest_blind_proof::<CS>(h, &pk, run, hdr.as_deref(), ph.as_deref(), &msgs, &cmsgs, &d, &dc, true));
        // --- same suite, other interface
        let v = verifyblind::<CS>(h, &pk, &sig, hdr.as_deref(), Some(&msgs), None, None);
        h.expect(!v.is_ok(), "C11.sig_plain_to_blind", "plain signature verifies through the blind interface", &[h.last()]);
        if let Some(p) = &p {
            let v = blindproofverify::<CS>(h, &pk, p, hdr.as_deref(), ph.as_deref(), Some(l), Some(&dm), None, Some(&d), None);
            h.expect(!v.is_ok(), "C11.proof_plain_to_blind", "plain proof verifies through the blind interface", &[h.last()]);
            // the same with every optional argument of the blind verifier left out / empty (L omitted = 0)
            for (nm, ll, e1, e2) in [("L_omitted", None, None, None), ("L_omitted_empty_lists", None, Some(&[][..]), Some(&[][..])), ("L_zero", Some(0usize), None, None)] {
                let e1v: Option<Vec<Vec<u8>>> = e1.map(|_: &[u8]| vec![]);
                let e2v: Option<Vec<usize>> = e2.map(|_: &[u8]| vec![]);
                let v = blindproofverify::<CS>(h, &pk, p, hdr.as_deref(), ph.as_deref(), ll, Some(&dm), e1v.as_deref(), Some(&d), e2v.as_deref());
                h.stat(&format!("C11.proof_plain_to_blind.{}", nm));
                h.expect(!v.is_ok(), "C11.proof_plain_to_blind_defaults", &format!("plain proof verifies through the blind interface when optional arguments are left out ({})", nm), &[h.last()]);
            }
        }
        if let Some(run) = &run {
            let all = [msgs.clone(), cmsgs.clone()].concat();
            let v = verify::<CS>(h, &pk, &run.sig, hdr.as_deref(), Some(&all));
            h.expect(!v.is_ok(), "C11.sig_blind_to_plain", "blind signature verifies through the plain interface", &[h.last()]);
        }
        if let Some(bp) = &bp {
            let mut ia = d.clone();
            ia.extend(dc.iter().map(|j| j + l + 1));
            let v = proofverify::<CS>(h, &pk, bp, hdr.as_deref(), ph.as_deref(), Some(&[dm.clone(), dcm.clone()].concat()), Some(&ia));
            h.expect(!v.is_ok(), "C11.proof_blind_to_plain", "blind proof verifies through the plain interface", &[h.last()]);
        }
        // --- other suite, both interfaces
        let keep = other_suite(h);
        let v = verify::<CS::Other>(h, &pk, &sig, hdr.as_deref(), Some(&msgs));
        h.expect(!v.is_ok(), "C11.sig_cross_suite", "signature verifies under the other ciphersuite", &[h.last()]);
        if let Some(p) = &p {
            let pb = p.to_bytes();
            if let Ok(p2) = Pok::<CS::Other>::from_bytes(&pb) {
                let v = proofverify::<CS::Other>(h, &pk, &p2, hdr.as_deref(), ph.as_deref(), Some(&dm), Some(&d));
                h.expect(!v.is_ok(), "C11.proof_cross_suite", "proof verifies under the other ciphersuite", &[h.last()]);
            }
        }
        if let Some(run) = &run {
            let v = verifyblind::<CS::Other>(h, &pk, &run.sig, hdr.as_deref(), Some(&msgs), Some(&cmsgs), Some(&run.blind));
            h.expect(!v.is_ok(), "C11.blindsig_cross_suite", "blind signature verifies under the other ciphersuite", &[h.last()]);
            if m > 0 || r == 0 {
                let s2 = blindsign::<CS::Other>(h, &sk, &pk, Some(&run.cwp), hdr.as_deref(), Some(&msgs));
                h.expect(!s2.is_ok(), "C11.commit_cross_suite", "a commitment made under one ciphersuite is accepted by the other", &[h.last()]);
                // the same with the degenerate commitment: blind factor 0 and no committed message give C = identity
                // with a genuine proof bound to THIS suite's hash
                let mut zero_tape = rand_tape(h, 2);
                zero_tape[0] = vec![0u8; 32];
                // (this block runs with h.suite naming the OTHER suite: switch back for the two own-suite operations)
                let other_name = other_suite(h);
                let (c0, _) = commit::<CS>(h, Some(&[]), zero_tape);
                h.suite = other_name;
                if let Some((c0, _)) = c0.ok() {
                    let b0 = c0.to_bytes();
                    let other_name = other_suite(h);
                    let own = blindsign::<CS>(h, &sk, &pk, Some(&b0), hdr.as_deref(), Some(&msgs));
                    h.suite = other_name;
                    h.stat(if own.is_ok() { "C11.identity_commit.own_suite_accepts" } else { "C11.identity_commit.own_suite_refuses" });
                    let s3 = blindsign::<CS::Other>(h, &sk, &pk, Some(&b0), hdr.as_deref(), Some(&msgs));
                    h.expect(!s3.is_ok(), "C11.commit_cross_suite_identity", "an identity commitment with a proof made under one ciphersuite is accepted by the other", &[h.last()]);
                }
            }
        }
        if let Some(bp) = &bp {
            if let Ok(p2) = Pok::<CS::Other>::from_bytes(&bp.to_bytes()) {
                let v = blindproofverify::<CS::Other>(h, &pk, &p2, hdr.as_deref(), ph.as_deref(), Some(l), Some(&dm), Some(&dcm), Some(&d), Some(&dc));
                h.expect(!v.is_ok(), "C11.blindproof_cross_suite", "blind proof verifies under the other ciphersuite", &[h.last()]);
            }
        }
        h.suite = keep;
    }
    // --- generator families: prefix property, duplicate-, identity-, P1-freeness, disjointness
    let n = if thorough { 1024 } else { 64 };
    let blind_api = [b"BLIND_".as_slice(), CS::API_ID_BLIND].concat();
    let oblind_api = [b"BLIND_".as_slice(), <CS::Other as BbsCiphersuite>::API_ID_BLIND].concat();
    let mut fams: Vec<(String, Vec<Vec<u8>>)> = Vec::new();
    for (nm, api) in [("plain", CS::API_ID.to_vec()), ("blind", CS::API_ID_BLIND.to_vec()), ("BLIND_", blind_api)] {
        if let Some(g) = gens::<CS>(h, Some(&api), n).ok() {
            let gid = h.last();
            let enc: Vec<Vec<u8>> = g.values.iter().map(g1hex).collect();
            let p1 = g1hex(&g.g1_base_point);
            let id = bls12_381_plus::G1Affine::identity().to_compressed().to_vec();
            let set: HashSet<&Vec<u8>> = enc.iter().collect();
            h.expect(set.len() == enc.len(), "C11.gen_dup", "generator set contains a repeated point", &[gid]);
            h.expect(!set.contains(&id), "C11.gen_identity", "generator set contains the identity", &[gid]);
            h.expect(!set.contains(&p1), "C11.gen_p1", "generator set contains the fixed base point P1", &[gid]);
            for k in [0usize, 1, 2, 7, n / 2, n - 1] {
                if let Some(s) = gens::<CS>(h, Some(&api), k).ok() {
                    let e2: Vec<Vec<u8>> = s.values.iter().map(g1hex).collect();
                    h.expect(e2[..] == enc[..k], "C11.gen_prefix", "create(n)[..k] != create(k)", &[gid, h.last()]);
                }
            }
            fams.push((format!("{}:{}", h.suite, nm), enc));
        }
    }
    // LONG api ids (the derived DSTs exceed 255 octets and go through the oversize-DST rule): ids that share a
    // long common prefix, or differ only in their last octet, still give unrelated generator sets
    {
        let base = vec![0x61u8; 300];
        let mut last = base.clone();
        last[299] = 0x62;
        let ids: Vec<(&str, Vec<u8>)> = vec![("a*300", base.clone()), ("a*299+b", last), ("a*236", base[..236].to_vec()), ("a*237", base[..237].to_vec()), ("a*255", base[..255].to_vec()), ("a*256", base[..256].to_vec())];
        let mut sets: Vec<(String, Vec<Vec<u8>>)> = Vec::new();
        for (nm, api) in &ids {
            if let Some(g) = gens::<CS>(h, Some(api), 4).ok() {
                sets.push((nm.to_string(), g.values.iter().map(g1hex).collect()));
            } else {
                h.expect(false, "C11.long_api_err", &format!("generator creation failed for api id {}", nm), &[h.last()]);
            }
        }
        h.stat("C11.long_api_ids");
        for a in 0..sets.len() {
            for b in a + 1..sets.len() {
                let sa: HashSet<&Vec<u8>> = sets[a].1.iter().collect();
                h.expect(!sets[b].1.iter().any(|x| sa.contains(x)), "C11.gen_disjoint_long_api", &format!("generator sets for the api ids {} and {} share an element", sets[a].0, sets[b].0), &[]);
            }
        }
    }
    // application-chosen / absent api ids, which do not embed the suite: the two suites must still
    // give unrelated sets, and the prefix law must hold in any call order
    for (nm, api) in [("none", None), ("empty", Some(vec![])), ("custom", Some(b"MY_APP_".to_vec())), ("binary", Some(vec![0xff, 0x00, 0x80, 0x7f, 0xfe]))] {
        let first = gens::<CS>(h, api.as_deref(), 7).ok().map(|g| g.values.iter().map(g1hex).collect::<Vec<_>>());
        let keep = other_suite(h);
        let second = gens::<CS::Other>(h, api.as_deref(), 5).ok().map(|g| g.values.iter().map(g1hex).collect::<Vec<_>>());
        let sid = h.last();
        h.suite = keep;
        let third = gens::<CS>(h, api.as_deref(), 3).ok().map(|g| g.values.iter().map(g1hex).collect::<Vec<_>>());
        let tid = h.last();
        if let (Some(a), Some(b), Some(c)) = (first, second, third) {
            let sa: HashSet<&Vec<u8>> = a.iter().collect();
            h.expect(!b.iter().any(|x| sa.contains(x)), "C11.gen_disjoint_generic_api", &format!("generator sets of the two ciphersuites share an element for api id {}", nm), &[sid]);
            h.expect(c[..] == a[..3], "C11.gen_prefix_generic_api", &format!("create(3) != create(7)[..3] for api id {} after the other suite was used", nm), &[tid]);
            // (absent and empty api ids are the same id: only one of them joins the disjointness matrix)
            if nm != "empty" {
                fams.push((format!("{}:{}", h.suite, nm), a));
            }
        }
    }
    let keep = other_suite(h);
    for (nm, api) in [("plain", <CS::Other as BbsCiphersuite>::API_ID.to_vec()), ("blind", <CS::Other as BbsCiphersuite>::API_ID_BLIND.to_vec()), ("BLIND_", oblind_api)] {
        if let Some(g) = gens::<CS::Other>(h, Some(&api), n.min(64)).ok() {
            fams.push((format!("{}:{}", h.suite, nm), g.values.iter().map(g1hex).collect()));
        }
    }
    h.suite = keep;
    for a in 0..fams.len() {
        for b in a + 1..fams.len() {
            let sa: HashSet<&Vec<u8>> = fams[a].1.iter().collect();
            let inter = fams[b].1.iter().any(|x| sa.contains(x));
            h.stat("C11.family_pairs");
            h.expect(!inter, "C11.gen_disjoint", &format!("generator families {} and {} share an element", fams[a].0, fams[b].0), &[]);
        }
    }
}

pub fn c11<CS: BbsCiphersuite>(h: &mut H)
where
    CS::Expander: for<'a> ExpandMsg<'a>,
{
    // dispatch on the concrete suite to obtain its dual
    if h.suite == "sha" {
        c11_dual::<zkryptium::bbsplus::ciphersuites::Bls12381Sha256>(h)
    } else {
        c11_dual::<zkryptium::bbsplus::ciphersuites::Bls12381Shake256>(h)
    }
    prepare_parameters_cases::<CS>(h);
    let _ = std::marker::PhantomData::<CS>;
}

/// the public helper `prepare_parameters`: for every api id (absent, empty, the suite's, custom) the message
/// generators and the blind generators are the two families `create(n, api)` and `create(m, "BLIND_" || api)`,
/// disjoint and without repetition; absent = empty
fn prepare_parameters_cases<CS: BbsCiphersuite>(h: &mut H)
where
    CS::Expander: for<'a> ExpandMsg<'a>,
{
    use bls12_381_plus::group::Curve;
    let msgs = rand_msgs(h, 2);
    let cmsgs = rand_msgs(h, 1);
    let blind = [7u8; 32];
    let custom = b"some other api".to_vec();
    // (api ids are octet strings, not text: two that differ only in octets that are not valid UTF-8 are different ids)
    let apis: Vec<(&str, Option<Vec<u8>>)> = vec![("none", None), ("empty", Some(vec![])), ("blind_api", Some(CS::API_ID_BLIND.to_vec())), ("custom", Some(custom)),
        ("binary_ff", Some(vec![0xff, 0x41, 0x80, 0x00, 0xc3, 0x28])), ("binary_fe", Some(vec![0xfe, 0x41, 0x80, 0x00, 0xc3, 0x28]))];
    let mut outs: Vec<Option<(Vec<Scalar>, Vec<Vec<u8>>)>> = Vec::new();
    for (nm, api) in &apis {
        for (gn, bgn) in [(3usize, 2usize), (1, 1), (4, 4)] {
            let o = prepparams::<CS>(h, Some(&msgs), Some(&cmsgs), gn, bgn, Some(&blind), api.as_deref());
            let id = h.last();
            h.stat(&format!("C11.prepare_parameters.{}", nm));
            match o.ok() {
                Some((ms, gs)) => {
                    let enc: Vec<Vec<u8>> = gs.iter().map(|g| g.to_affine().to_compressed().to_vec()).collect();
                    let set: std::collections::BTreeSet<&Vec<u8>> = enc.iter().collect();
                    h.expect(set.len() == enc.len() && enc.len() == gn + bgn, "C11.prepare_parameters_distinct", &format!("prepare_parameters(api {}): message and blind generators are not {} distinct points", nm, gn + bgn), &[id]);
                    let a = api.clone().unwrap_or_default();
                    let g1 = Generators::create::<CS>(gn, Some(&a)).values;
                    let g2 = Generators::create::<CS>(bgn, Some(&[b"BLIND_".to_vec(), a.clone()].concat())).values;
                    let want: Vec<Vec<u8>> = g1.iter().chain(g2.iter()).map(|g| g.to_affine().to_compressed().to_vec()).collect();
                    h.expect(enc == want, "C11.prepare_parameters_families", &format!("prepare_parameters(api {}): generators are not create(n, api) followed by create(m, BLIND_ || api)", nm), &[id]);
                    h.expect(ms.len() == msgs.len() + 1 + cmsgs.len(), "C11.prepare_parameters_scalars", "prepare_parameters: wrong number of scalars", &[id]);
                    if gn == 3 { outs.push(Some((ms, enc))); }
                }
                None => {
                    h.expect(false, "C11.prepare_parameters_err", "prepare_parameters failed on valid input", &[id]);
                    if gn == 3 { outs.push(None); }
                }
            }
        }
    }
    if outs.len() >= 2 {
        h.expect(outs[0] == outs[1], "C11.prepare_parameters_none_empty", "prepare_parameters: absent api id differs from the empty one", &[]);
    }
    if outs.len() >= 6 {
        if let (Some(a), Some(b)) = (&outs[4], &outs[5]) {
            let sa: HashSet<&Vec<u8>> = a.1.iter().collect();
            h.expect(!b.1.iter().any(|x| sa.contains(x)), "C11.prepare_parameters_binary_ids", "prepare_parameters: two api ids that differ in a non-UTF-8 octet share a generator", &[]);
        }
    }
}

pub fn corpus<CS: BbsCiphersuite>(_h: &mut H)
where
    CS::Expander: for<'a> ExpandMsg<'a>,
{
}

pub fn pk_of(b: &[u8]) -> BBSplusPublicKey {
    BBSplusPublicKey::from_bytes(b).unwrap()
}
