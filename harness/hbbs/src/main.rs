// hbbs: correspondence + oracle harness for the BBS / Blind-BBS half of zkryptium.
//
// usage: hbbs <property> <tier> <seed> <outdir>
//   writes <outdir>/ops.txt     one executed operation per line with the implementation's outcome
//          <outdir>/oracle.json property-oracle verdicts evaluated on the implementation alone
// The Lean driver replays ops.txt through the model; ./check diffs the outcomes.
#![allow(non_snake_case)]
#![allow(clippy::too_many_arguments)]

mod consts;
mod gen;
mod ops;
mod util;

use std::collections::BTreeMap;
use std::sync::Mutex;

/// watchdog: (start time, description) of the operation currently running on the main thread
pub static WATCH: Mutex<Option<(std::time::Instant, String)>> = Mutex::new(None);
/// oracle failures so far (so that a hang does not lose them)
pub static FAILS_SO_FAR: Mutex<Vec<String>> = Mutex::new(Vec::new());
pub fn watch_begin(desc: String) {
    *WATCH.lock().unwrap() = Some((std::time::Instant::now(), desc));
}
pub fn watch_end() {
    *WATCH.lock().unwrap() = None;
}
fn start_watchdog(outdir: String, limit_s: u64) {
    std::thread::spawn(move || loop {
        std::thread::sleep(std::time::Duration::from_millis(500));
        let g = WATCH.lock().unwrap();
        if let Some((t0, desc)) = &*g {
            if t0.elapsed().as_secs() > limit_s {
                let fails = FAILS_SO_FAR.lock().map(|f| f.clone()).unwrap_or_default();
                let body = format!("{{\"hung\": {}, \"oracle_failures_before_the_hang\": {}}}", desc, serde_json::to_string(&fails).unwrap_or("[]".into()));
                let _ = std::fs::write(format!("{}/hang.json", outdir), body);
                eprintln!("operation did not terminate within {} s", limit_s);
                std::process::exit(3);
            }
        }
    });
}

pub struct Fail {
    pub what: String,
    pub class: String,
    pub lines: Vec<u64>,
}

pub struct H {
    pub suite: &'static str,
    pub lines: Vec<String>,
    pub fails: Vec<Fail>,
    pub stats: BTreeMap<String, u64>,
    pub next_id: u64,
    pub rng: util::Rng,
    pub tier_thorough: bool,
    pub oracle_checks: u64,
}

impl H {
    pub fn stat(&mut self, k: &str) {
        *self.stats.entry(k.to_string()).or_insert(0) += 1;
    }
    pub fn stat_n(&mut self, k: &str, n: u64) {
        *self.stats.entry(k.to_string()).or_insert(0) += n;
    }
    /// property-oracle expectation on the implementation's own behaviour
    pub fn expect(&mut self, cond: bool, class: &str, what: &str, lines: &[u64]) {
        self.oracle_checks += 1;
        if !cond {
            if let Ok(mut f) = FAILS_SO_FAR.lock() {
                if f.len() < 50 {
                    f.push(format!("[{}] {}", class, what));
                }
            }
            self.fails.push(Fail {
                what: what.to_string(),
                class: class.to_string(),
                lines: lines.to_vec(),
            });
        }
    }
    pub fn last(&self) -> u64 {
        self.next_id - 1
    }
}

/// History independence: every recorded operation is a function of its arguments and its tape, so executing it
/// again -- after all the later operations of the run, in reverse order, and twice in a row -- must give the
/// recorded outcome. A memo, cache or scratch buffer that survives between calls and is keyed too coarsely shows
/// up here even when the generator never happened to produce the poisoning sequence in its forward order.
/// The pass stops after `budget_s` seconds.
fn history_pass(h: &mut H, prop: &str, budget_s: u64) {
    let t0 = std::time::Instant::now();
    let n = h.lines.len();
    let op_of = |l: &str| -> String { l.split(' ').nth(2).unwrap_or("").to_string() };
    let decides = |op: &str| op.contains("verify") || op.starts_with("dec.") || op == "pkfromcoords" || op == "devc";
    let deciders: Vec<usize> = (0..n).filter(|&i| decides(&op_of(&h.lines[i]))).collect();
    let others: Vec<usize> = (0..n).filter(|&i| !decides(&op_of(&h.lines[i])) && h.lines[i].len() < 200_000).collect();
    let pick = |v: &Vec<usize>, cap: usize| -> Vec<usize> {
        let stride = (v.len() + cap - 1) / cap.max(1);
        v.iter().cloned().step_by(stride.max(1)).collect()
    };
    let mut sel = pick(&deciders, 700);
    sel.extend(pick(&others, 200));
    sel.sort();
    sel.reverse();
    let mut checked = 0u64;
    for i in sel {
        if t0.elapsed().as_secs() >= budget_s {
            break;
        }
        let line = h.lines[i].clone();
        let want = line.split(" => ").nth(1).unwrap_or("").to_string();
        let id: u64 = line.split(' ').next().and_then(|x| x.parse().ok()).unwrap_or(0);
        for pass in 0..2 {
            let mut h2 = H { suite: h.suite, lines: vec![], fails: vec![], stats: BTreeMap::new(), next_id: id, rng: util::Rng::new(0), tier_thorough: h.tier_thorough, oracle_checks: 0 };
            let r = std::panic::catch_unwind(std::panic::AssertUnwindSafe(|| ops::replay(&mut h2, &line)));
            let got = match (r, h2.lines.last()) {
                (Ok(()), Some(l)) => l.split(" => ").nth(1).unwrap_or("").to_string(),
                _ => break, // the line cannot be rebuilt from its text (an object that has no octet form): skipped
            };
            checked += 1;
            let cut = |s: &str| -> String { s.chars().take(60).collect() };
            let same = got == want;
            h.expect(same, &format!("{}.history_dependence", prop),
                &format!("operation {} ({}) returned '{}' in the run and '{}' when executed again {} -- its outcome depends on earlier calls",
                    id, op_of(&line), cut(&want), cut(&got),
                    if pass == 0 { "after the later operations of the run" } else { "a second time in a row" }), &[id]);
            if !same {
                break;
            }
        }
    }
    h.stat_n("history_pass.reexecuted", checked);
}

fn main() {
    let args: Vec<String> = std::env::args().collect();
    if args.len() >= 3 && args[1] == "c07child" {
        let v = if args[2] == "sha" {
            gen::gen_misc::child_values::<zkryptium::bbsplus::ciphersuites::Bls12381Sha256>()
        } else {
            gen::gen_misc::child_values::<zkryptium::bbsplus::ciphersuites::Bls12381Shake256>()
        };
        println!("{}", v.join(" "));
        return;
    }
    if args.len() >= 3 && args[1] == "gentable" {
        consts::print_table(args[2].parse().unwrap_or(64));
        return;
    }
    if args.len() >= 2 && args[1] == "consts" {
        consts::print();
        return;
    }
    if args.len() < 5 {
        eprintln!("usage: hbbs <property|replay> <tier> <seed> <outdir> [replayfile]");
        std::process::exit(2);
    }
    let prop = args[1].clone();
    let tier = args[2].clone();
    let seed: u64 = args[3].parse().unwrap_or(0);
    let outdir = args[4].clone();
    if std::env::var("HARNESS_VERBOSE_PANIC").is_err() { std::panic::set_hook(Box::new(|_| {})); }
    std::fs::create_dir_all(&outdir).unwrap();
    let _ = std::fs::remove_file(format!("{}/hang.json", outdir));
    start_watchdog(outdir.clone(), if tier == "thorough" { 1800 } else { 180 });

    let mut all_lines: Vec<String> = Vec::new();
    let mut all_fails: Vec<serde_json::Value> = Vec::new();
    let mut stats: BTreeMap<String, u64> = BTreeMap::new();
    let mut oracle_checks = 0u64;
    let mut next_id = 1u64;

    if prop == "replay" {
        let text = std::fs::read_to_string(&args[5]).expect("replay file");
        let mut h = H {
            suite: "sha",
            lines: vec![],
            fails: vec![],
            stats: BTreeMap::new(),
            next_id,
            rng: util::Rng::new(seed),
            tier_thorough: false,
            oracle_checks: 0,
        };
        ops::replay(&mut h, &text);
        all_lines.append(&mut h.lines);
    } else {
        for suite in ["sha", "shake"] {
            let mut h = H {
                suite,
                lines: vec![],
                fails: vec![],
                stats: BTreeMap::new(),
                next_id,
                rng: util::Rng::new(
                    seed ^ util::fnv(&prop) ^ util::fnv(suite).rotate_left(17),
                ),
                tier_thorough: tier == "thorough",
                oracle_checks: 0,
            };
            if suite == "sha" {
                gen::run::<zkryptium::bbsplus::ciphersuites::Bls12381Sha256>(&mut h, &prop);
            } else {
                gen::run::<zkryptium::bbsplus::ciphersuites::Bls12381Shake256>(&mut h, &prop);
            }
            history_pass(&mut h, &prop, if tier == "thorough" { 150 } else { 20 });
            next_id = h.next_id;
            oracle_checks += h.oracle_checks;
            all_lines.append(&mut h.lines);
            for f in h.fails {
                all_fails.push(serde_json::json!({"suite": suite, "class": f.class, "what": f.what, "lines": f.lines}));
            }
            for (k, v) in h.stats {
                *stats.entry(k).or_insert(0) += v;
            }
        }
    }
    std::fs::write(format!("{}/ops.txt", outdir), all_lines.join("\n") + "\n").unwrap();
    let oracle = serde_json::json!({
        "property": prop, "tier": tier, "seed": seed,
        "oracle_checks": oracle_checks,
        "failures": all_fails,
        "stats": stats,
        "ops": all_lines.len(),
    });
    std::fs::write(
        format!("{}/oracle.json", outdir),
        serde_json::to_string_pretty(&oracle).unwrap(),
    )
    .unwrap();
}
