// One wrapper per API operation: runs the real zkryptium code under catch_unwind, appends the
// protocol line `<id> <suite> <op> <args…> => ok <hex>|err|panic` and hands the typed result back.
use crate::util::*;
use crate::H;
use bls12_381_plus::{G1Affine, G1Projective, Scalar};
use elliptic_curve::group::Curve;
use elliptic_curve::hash2curve::ExpandMsg;
use std::panic::{catch_unwind, AssertUnwindSafe};
use zkryptium::bbsplus::ciphersuites::{BbsCiphersuite, Bls12381Sha256, Bls12381Shake256};
use zkryptium::bbsplus::commitment::{BBSplusCommitment, BlindFactor};
use zkryptium::bbsplus::generators::Generators;
use zkryptium::bbsplus::keys::{BBSplusPublicKey, BBSplusSecretKey};
use zkryptium::bbsplus::proof::{BBSplusPoKSignature, BBSplusZKPoK};
use zkryptium::bbsplus::signature::BBSplusSignature;
use zkryptium::errors::Error;
use zkryptium::keys::pair::KeyPair;
use zkryptium::schemes::algorithms::BBSplus;
use zkryptium::schemes::generics::{BlindSignature, Commitment, PoKSignature, Signature};
use zkryptium::utils::message::bbsplus_message::BBSplusMessage;
use zkryptium::utils::util::bbsplus_utils::hash_to_scalar;
use zkryptium::verif_hooks;

pub static LAST_ID: std::sync::atomic::AtomicU64 = std::sync::atomic::AtomicU64::new(0);

pub enum Out<T> {
    Ok(T),
    Err,
    Panic,
}
impl<T> Out<T> {
    pub fn is_ok(&self) -> bool {
        matches!(self, Out::Ok(_))
    }
    pub fn is_err(&self) -> bool {
        matches!(self, Out::Err)
    }
    pub fn is_panic(&self) -> bool {
        matches!(self, Out::Panic)
    }
    pub fn ok(self) -> Option<T> {
        match self {
            Out::Ok(t) => Some(t),
            _ => None,
        }
    }
    pub fn class(&self) -> &'static str {
        match self {
            Out::Ok(_) => "ok",
            Out::Err => "err",
            Out::Panic => "panic",
        }
    }
}

pub fn guard<T>(f: impl FnOnce() -> Result<T, Error>) -> Out<T> {
    crate::watch_begin(format!("{{\"note\": \"the operation after line {} of this run\"}}", LAST_ID.load(std::sync::atomic::Ordering::Relaxed)));
    let r = catch_unwind(AssertUnwindSafe(f));
    crate::watch_end();
    match r {
        Ok(Ok(t)) => Out::Ok(t),
        Ok(Err(_)) => Out::Err,
        Err(_) => Out::Panic,
    }
}

fn log<T>(h: &mut H, op: &str, args: &[String], out: &Out<T>, bytes: impl Fn(&T) -> Vec<u8>) -> u64 {
    let id = h.next_id;
    h.next_id += 1;
    LAST_ID.store(id, std::sync::atomic::Ordering::Relaxed);
    let o = match out {
        Out::Ok(t) => {
            let b = bytes(t);
            if b.is_empty() {
                "ok".to_string()
            } else {
                format!("ok {}", hex::encode(b))
            }
        }
        Out::Err => "err".to_string(),
        Out::Panic => "panic".to_string(),
    };
    h.lines
        .push(format!("{} {} {} {} => {}", id, h.suite, op, args.join(" "), o));
    h.stat(&format!("op.{}.{}", op, out.class()));
    id
}

pub fn g1hex(p: &G1Projective) -> Vec<u8> {
    p.to_affine().to_compressed().to_vec()
}
pub fn sig_args(s: &BBSplusSignature) -> (String, String) {
    (hex::encode(g1hex(&s.A)), hex::encode(s.e.to_be_bytes()))
}
fn tape_str(draws: &[verif_hooks::Draw]) -> String {
    let mut s = format!("T{}", draws.len());
    for d in draws {
        s.push(':');
        s.push_str(&hex::encode(&d.value));
    }
    s
}
pub fn untape(s: &str) -> Vec<Vec<u8>> {
    let mut it = s.split(':');
    let _ = it.next();
    it.map(|x| hex::decode(x).unwrap()).collect()
}

pub trait Cs: BbsCiphersuite
where
    Self::Expander: for<'a> ExpandMsg<'a>,
{
}
impl Cs for Bls12381Sha256 {}
impl Cs for Bls12381Shake256 {}

pub type Sig<CS> = Signature<BBSplus<CS>>;
pub type Pok<CS> = PoKSignature<BBSplus<CS>>;
pub type Com<CS> = Commitment<BBSplus<CS>>;
pub type Bsig<CS> = BlindSignature<BBSplus<CS>>;

pub fn keygen<CS: BbsCiphersuite>(
    h: &mut H,
    ikm: &[u8],
    info: Option<&[u8]>,
    dst: Option<&[u8]>,
) -> Out<(BBSplusSecretKey, BBSplusPublicKey)>
where
    CS::Expander: for<'a> ExpandMsg<'a>,
{
    let out = guard(|| {
        let kp = KeyPair::<BBSplus<CS>>::generate(ikm, info, dst)?;
        Ok(kp.into_parts())
    });
    log(h, "keygen", &[hx(ikm), ohx(info), ohx(dst)], &out, |(sk, pk)| {
        [sk.to_bytes().to_vec(), pk.to_bytes().to_vec()].concat()
    });
    out
}

pub fn gens<CS: BbsCiphersuite>(h: &mut H, api: Option<&[u8]>, n: usize) -> Out<Generators>
where
    CS::Expander: for<'a> ExpandMsg<'a>,
{
    let out = guard(|| Ok(Generators::create::<CS>(n, api)));
    log(h, "gens", &[ohx(api), n.to_string()], &out, |g| {
        g.values.iter().flat_map(|p| g1hex(p)).collect()
    });
    out
}

pub fn h2s<CS: BbsCiphersuite>(h: &mut H, msg: &[u8], dst: &[u8]) -> Out<Scalar>
where
    CS::Expander: for<'a> ExpandMsg<'a>,
{
    let out = guard(|| hash_to_scalar::<CS>(msg, dst));
    log(h, "h2s", &[hx(msg), hx(dst)], &out, |s| s.to_be_bytes().to_vec());
    out
}

pub fn mapmsg<CS: BbsCiphersuite>(h: &mut H, msg: &[u8], api: &[u8]) -> Out<Scalar>
where
    CS::Expander: for<'a> ExpandMsg<'a>,
{
    let out = guard(|| Ok(BBSplusMessage::map_message_to_scalar_as_hash::<CS>(msg, api)?.value));
    log(h, "mapmsg", &[hx(msg), hx(api)], &out, |s| s.to_be_bytes().to_vec());
    out
}

pub fn sign<CS: BbsCiphersuite>(
    h: &mut H,
    sk: &BBSplusSecretKey,
    pk: &BBSplusPublicKey,
    hdr: Option<&[u8]>,
    msgs: Option<&[Vec<u8>]>,
) -> Out<Sig<CS>>
where
    CS::Expander: for<'a> ExpandMsg<'a>,
{
    let out = guard(|| Sig::<CS>::sign(msgs, sk, pk, hdr));
    log(
        h,
        "sign",
        &[hx(&sk.to_bytes()), hx(&pk.to_bytes()), ohx(hdr), olhx(msgs)],
        &out,
        |s| s.to_bytes().to_vec(),
    );
    out
}


/// A verifier's DECISION must not depend on the value of a random draw. The call is made with the draw tape in
/// record mode; if the verifier drew anything (none does on the pinned tree), it is repeated with every draw forced
/// to 0, to 1 and to r - 1, and a different outcome class is an oracle failure (a randomised check -- blinding,
/// batching -- is fine as long as no value of its randomness flips the decision).
pub fn decided<T>(h: &mut H, what: &str, f: impl Fn() -> Out<T>) -> Out<T> {
    verif_hooks::start(vec![]);
    let out = f();
    let draws = verif_hooks::stop();
    if !draws.is_empty() {
        h.stat("verifier.draws_randomness");
        let mut one = [0u8; 32];
        one[31] = 1;
        let rm1: [u8; 32] = [0x73, 0xed, 0xa7, 0x53, 0x29, 0x9d, 0x7d, 0x48, 0x33, 0x39, 0xd8, 0x08, 0x09, 0xa1, 0xd8, 0x05, 0x53, 0xbd, 0xa4, 0x02, 0xff, 0xfe, 0x5b, 0xfe, 0xff, 0xff, 0xff, 0xff, 0x00, 0x00, 0x00, 0x00];
        for (nm, v) in [("0", [0u8; 32]), ("1", one), ("r - 1", rm1)] {
            verif_hooks::start(vec![v.to_vec(); draws.len()]);
            let o2 = f();
            let _ = verif_hooks::stop();
            h.expect(o2.class() == out.class(), "C02.decision_depends_on_randomness",
                &format!("{} returned '{}' with its own randomness and '{}' with every random draw forced to {}: the decision depends on the value of a random draw", what, out.class(), o2.class(), nm), &[h.next_id]);
        }
    }
    out
}

pub fn verify<CS: BbsCiphersuite>(
    h: &mut H,
    pk: &BBSplusPublicKey,
    sig: &BBSplusSignature,
    hdr: Option<&[u8]>,
    msgs: Option<&[Vec<u8>]>,
) -> Out<()>
where
    CS::Expander: for<'a> ExpandMsg<'a>,
{
    let s = Sig::<CS>::BBSplus(sig.clone());
    let out = decided(h, "verify", || guard(|| s.verify(pk, msgs, hdr)));
    let (a, e) = sig_args(sig);
    log(h, "verify", &[hx(&pk.to_bytes()), a, e, ohx(hdr), olhx(msgs)], &out, |_| vec![]);
    out
}

/// decode + canonical re-encoding for every octet codec; `ty` in
/// pk sk sig proof zkpok commit blind
pub fn dec(h: &mut H, ty: &str, b: &[u8]) -> Out<Vec<u8>> {
    let out: Out<Vec<u8>> = guard(|| match ty {
        "pk" => Ok(BBSplusPublicKey::from_bytes(b)?.to_bytes().to_vec()),
        "sk" => Ok(BBSplusSecretKey::from_bytes(b)?.to_bytes().to_vec()),
        "sig" => {
            let arr: &[u8; 80] = b.try_into().map_err(|_| Error::InvalidSignature)?;
            Ok(BBSplusSignature::from_bytes(arr)?.to_bytes().to_vec())
        }
        "proof" => Ok(BBSplusPoKSignature::from_bytes(b)?.to_bytes()),
        "zkpok" => Ok(BBSplusZKPoK::from_bytes(b)?.to_bytes()),
        "commit" => Ok(BBSplusCommitment::from_bytes(b)?.to_bytes()),
        "blind" => {
            let arr: &[u8; 32] = b.try_into().map_err(|_| Error::Unspecified)?;
            Ok(BlindFactor::from_bytes(arr)?.to_bytes().to_vec())
        }
        _ => panic!("bad type"),
    });
    log(h, &format!("dec.{}", ty), &[hx(b)], &out, |v| v.clone());
    out
}

pub fn pkcoords(h: &mut H, pk: &BBSplusPublicKey) -> Out<(Vec<u8>, Vec<u8>)> {
    let out = guard(|| {
        let (x, y) = pk.to_coordinates();
        Ok((x.to_vec(), y.to_vec()))
    });
    log(h, "pkcoords", &[hx(&pk.to_bytes())], &out, |(x, y)| [x.clone(), y.clone()].concat());
    out
}

pub fn pkfromcoords(h: &mut H, x: &[u8; 96], y: &[u8; 96]) -> Out<BBSplusPublicKey> {
    let out = guard(|| BBSplusPublicKey::from_coordinates(x, y));
    log(h, "pkfromcoords", &[hx(x), hx(y)], &out, |pk| pk.to_bytes().to_vec());
    out
}

pub fn proofgen<CS: BbsCiphersuite>(
    h: &mut H,
    pk: &BBSplusPublicKey,
    sig: &[u8],
    hdr: Option<&[u8]>,
    ph: Option<&[u8]>,
    msgs: Option<&[Vec<u8>]>,
    idx: Option<&[usize]>,
    inject: Vec<Vec<u8>>,
) -> (Out<Pok<CS>>, Vec<verif_hooks::Draw>)
where
    CS::Expander: for<'a> ExpandMsg<'a>,
{
    verif_hooks::start(inject);
    let out = guard(|| Pok::<CS>::proof_gen(pk, sig, hdr, ph, msgs, idx));
    let draws = verif_hooks::stop();
    log(
        h,
        "proofgen",
        &[hx(&pk.to_bytes()), hx(sig), ohx(hdr), ohx(ph), olhx(msgs), olix(idx), tape_str(&draws)],
        &out,
        |p| p.to_bytes(),
    );
    (out, draws)
}

pub fn proofverify<CS: BbsCiphersuite>(
    h: &mut H,
    pk: &BBSplusPublicKey,
    proof: &Pok<CS>,
    hdr: Option<&[u8]>,
    ph: Option<&[u8]>,
    dmsgs: Option<&[Vec<u8>]>,
    idx: Option<&[usize]>,
) -> Out<()>
where
    CS::Expander: for<'a> ExpandMsg<'a>,
{
    let out = decided(h, "proof_verify", || guard(|| proof.proof_verify(pk, dmsgs, idx, hdr, ph)));
    log(
        h,
        "proofverify",
        &[hx(&pk.to_bytes()), hx(&proof.to_bytes()), ohx(hdr), ohx(ph), olhx(dmsgs), olix(idx)],
        &out,
        |_| vec![],
    );
    out
}

pub fn commit<CS: BbsCiphersuite>(
    h: &mut H,
    cmsgs: Option<&[Vec<u8>]>,
    inject: Vec<Vec<u8>>,
) -> (Out<(Com<CS>, BlindFactor)>, Vec<verif_hooks::Draw>)
where
    CS::Expander: for<'a> ExpandMsg<'a>,
{
    verif_hooks::start(inject);
    let out = guard(|| Com::<CS>::commit(cmsgs));
    let draws = verif_hooks::stop();
    log(h, "commit", &[olhx(cmsgs), tape_str(&draws)], &out, |(c, b)| {
        [c.to_bytes(), b.to_bytes().to_vec()].concat()
    });
    (out, draws)
}

pub fn blindsign<CS: BbsCiphersuite>(
    h: &mut H,
    sk: &BBSplusSecretKey,
    pk: &BBSplusPublicKey,
    cwp: Option<&[u8]>,
    hdr: Option<&[u8]>,
    msgs: Option<&[Vec<u8>]>,
) -> Out<Bsig<CS>>
where
    CS::Expander: for<'a> ExpandMsg<'a>,
{
    let out = guard(|| Bsig::<CS>::blind_sign(sk, pk, cwp, hdr, msgs));
    log(
        h,
        "blindsign",
        &[hx(&sk.to_bytes()), hx(&pk.to_bytes()), ohx(cwp), ohx(hdr), olhx(msgs)],
        &out,
        |s| s.to_bytes().to_vec(),
    );
    out
}

pub fn verifyblind<CS: BbsCiphersuite>(
    h: &mut H,
    pk: &BBSplusPublicKey,
    sig: &BBSplusSignature,
    hdr: Option<&[u8]>,
    msgs: Option<&[Vec<u8>]>,
    cmsgs: Option<&[Vec<u8>]>,
    blind: Option<&[u8; 32]>,
) -> Out<()>
where
    CS::Expander: for<'a> ExpandMsg<'a>,
{
    let s = Bsig::<CS>::BBSplus(sig.clone());
    let bf = blind.map(|b| BlindFactor::from_bytes(b).expect("blind factor"));
    let out = decided(h, "verify_blind_sign", || guard(|| s.verify_blind_sign(pk, hdr, msgs, cmsgs, bf.as_ref())));
    let (a, e) = sig_args(sig);
    log(
        h,
        "verifyblind",
        &[hx(&pk.to_bytes()), a, e, ohx(hdr), olhx(msgs), olhx(cmsgs), ohx(blind.map(|b| &b[..]))],
        &out,
        |_| vec![],
    );
    out
}

pub fn blindproofgen<CS: BbsCiphersuite>(
    h: &mut H,
    pk: &BBSplusPublicKey,
    sig: &[u8],
    hdr: Option<&[u8]>,
    ph: Option<&[u8]>,
    msgs: Option<&[Vec<u8>]>,
    cmsgs: Option<&[Vec<u8>]>,
    idx: Option<&[usize]>,
    cidx: Option<&[usize]>,
    blind: Option<&[u8; 32]>,
    inject: Vec<Vec<u8>>,
) -> (Out<Pok<CS>>, Vec<verif_hooks::Draw>)
where
    CS::Expander: for<'a> ExpandMsg<'a>,
{
    let bf = blind.map(|b| BlindFactor::from_bytes(b).expect("blind factor"));
    verif_hooks::start(inject);
    let out = guard(|| Pok::<CS>::blind_proof_gen(pk, sig, hdr, ph, msgs, cmsgs, idx, cidx, bf.as_ref()));
    let draws = verif_hooks::stop();
    log(
        h,
        "blindproofgen",
        &[
            hx(&pk.to_bytes()),
            hx(sig),
            ohx(hdr),
            ohx(ph),
            olhx(msgs),
            olhx(cmsgs),
            olix(idx),
            olix(cidx),
            ohx(blind.map(|b| &b[..])),
            tape_str(&draws),
        ],
        &out,
        |p| p.to_bytes(),
    );
    (out, draws)
}

pub fn blindproofverify<CS: BbsCiphersuite>(
    h: &mut H,
    pk: &BBSplusPublicKey,
    proof: &Pok<CS>,
    hdr: Option<&[u8]>,
    ph: Option<&[u8]>,
    L: Option<usize>,
    dmsgs: Option<&[Vec<u8>]>,
    dcmsgs: Option<&[Vec<u8>]>,
    idx: Option<&[usize]>,
    cidx: Option<&[usize]>,
) -> Out<()>
where
    CS::Expander: for<'a> ExpandMsg<'a>,
{
    let out = decided(h, "blind_proof_verify", || guard(|| proof.blind_proof_verify(pk, hdr, ph, L, dmsgs, dcmsgs, idx, cidx)));
    log(
        h,
        "blindproofverify",
        &[
            hx(&pk.to_bytes()),
            hx(&proof.to_bytes()),
            ohx(hdr),
            ohx(ph),
            L.map(|l| l.to_string()).unwrap_or("-".to_string()),
            olhx(dmsgs),
            olhx(dcmsgs),
            olix(idx),
            olix(cidx),
        ],
        &out,
        |_| vec![],
    );
    out
}

pub fn update<CS: BbsCiphersuite>(
    h: &mut H,
    sig: &BBSplusSignature,
    sk: &BBSplusSecretKey,
    old: &[u8],
    new: &[u8],
    idx: usize,
    n: usize,
) -> Out<Sig<CS>>
where
    CS::Expander: for<'a> ExpandMsg<'a>,
{
    let s = Sig::<CS>::BBSplus(sig.clone());
    let out = guard(|| s.update_signature(sk, old, new, idx, n));
    let (a, e) = sig_args(sig);
    log(
        h,
        "update",
        &[a, e, hx(&sk.to_bytes()), hx(old), hx(new), idx.to_string(), n.to_string()],
        &out,
        |s| s.to_bytes().to_vec(),
    );
    out
}

/// `deserialize_and_validate_commit` with `n` blind generators of the blind interface
/// the public helper `prepare_parameters` of the blind interface: scalars then generators
pub fn prepparams<CS: BbsCiphersuite>(
    h: &mut H,
    msgs: Option<&[Vec<u8>]>,
    cmsgs: Option<&[Vec<u8>]>,
    gn: usize,
    bgn: usize,
    blind: Option<&[u8; 32]>,
    api: Option<&[u8]>,
) -> Out<(Vec<Scalar>, Vec<G1Projective>)>
where
    CS::Expander: for<'a> ExpandMsg<'a>,
{
    let bf = blind.map(|b| BlindFactor::from_bytes(b).expect("blind factor"));
    let out = guard(|| {
        let (ms, gens) = zkryptium::bbsplus::blind::prepare_parameters::<CS>(msgs, cmsgs, gn, bgn, bf.as_ref(), api)?;
        Ok((ms.iter().map(|m| m.value).collect::<Vec<Scalar>>(), gens.values.clone()))
    });
    log(
        h,
        "prepparams",
        &[olhx(msgs), olhx(cmsgs), gn.to_string(), bgn.to_string(), ohx(blind.map(|b| &b[..])), ohx(api)],
        &out,
        |(ms, gs)| {
            let mut v = Vec::new();
            for m in ms {
                v.extend_from_slice(&m.to_be_bytes());
            }
            for g in gs {
                v.extend_from_slice(&g1hex(g));
            }
            v
        },
    );
    out
}

pub fn devc<CS: BbsCiphersuite>(h: &mut H, cwp: Option<&[u8]>, n: usize) -> Out<G1Projective>
where
    CS::Expander: for<'a> ExpandMsg<'a>,
{
    let out = guard(|| {
        let bg = Generators::create::<CS>(n, Some(&[b"BLIND_", CS::API_ID_BLIND].concat()));
        Com::<CS>::deserialize_and_validate_commit(cwp, &bg, Some(CS::API_ID_BLIND))
    });
    log(h, "devc", &[ohx(cwp), n.to_string()], &out, |p| g1hex(p));
    out
}


/// a proof object built from its parts through serde (bypasses `from_bytes` and its checks)
pub struct RawProof {
    pub abar: G1Projective,
    pub bbar: G1Projective,
    pub d: G1Projective,
    pub e_cap: Scalar,
    pub r1_cap: Scalar,
    pub r3_cap: Scalar,
    pub m_cap: Vec<Scalar>,
    pub c: Scalar,
}
impl RawProof {
    pub fn from_proof_bytes(b: &[u8]) -> RawProof {
        let g = |o: usize| G1Projective::from(G1Affine::from_compressed(&b[o..o + 48].try_into().unwrap()).unwrap());
        let sc = |o: usize| Scalar::from_be_bytes(&b[o..o + 32].try_into().unwrap()).unwrap();
        let n = (b.len() - 240) / 32;
        RawProof {
            abar: g(0),
            bbar: g(48),
            d: g(96),
            e_cap: sc(144),
            r1_cap: sc(176),
            r3_cap: sc(208),
            m_cap: (0..n - 1).map(|k| sc(240 + 32 * k)).collect(),
            c: sc(240 + 32 * (n - 1)),
        }
    }
    pub fn build<CS: BbsCiphersuite>(&self) -> Option<Pok<CS>> {
        let v = serde_json::json!({
            "Abar": serde_json::to_value(&self.abar).ok()?, "Bbar": serde_json::to_value(&self.bbar).ok()?,
            "D": serde_json::to_value(&self.d).ok()?, "e_cap": serde_json::to_value(&self.e_cap).ok()?,
            "r1_cap": serde_json::to_value(&self.r1_cap).ok()?, "r3_cap": serde_json::to_value(&self.r3_cap).ok()?,
            "m_cap": serde_json::to_value(&self.m_cap).ok()?, "challenge": serde_json::to_value(&self.c).ok()?,
        });
        let inner: BBSplusPoKSignature = serde_json::from_value(v).ok()?;
        Some(PoKSignature::BBSplus(inner))
    }
    fn args(&self) -> Vec<String> {
        let sc = |s: &Scalar| hex::encode(s.to_be_bytes());
        let mut m = format!("L{}", self.m_cap.len());
        for x in &self.m_cap {
            m.push(':');
            m.push_str(&sc(x));
        }
        vec![hex::encode(g1hex(&self.abar)), hex::encode(g1hex(&self.bbar)), hex::encode(g1hex(&self.d)), sc(&self.e_cap), sc(&self.r1_cap), sc(&self.r3_cap), m, sc(&self.c)]
    }
}

/// proof_verify / blind_proof_verify on a proof object that never went through `from_bytes`
pub fn proofverify_raw<CS: BbsCiphersuite>(
    h: &mut H,
    pk: &BBSplusPublicKey,
    raw: &RawProof,
    hdr: Option<&[u8]>,
    ph: Option<&[u8]>,
    blind_l: Option<Option<usize>>,
    dmsgs: Option<&[Vec<u8>]>,
    dcmsgs: Option<&[Vec<u8>]>,
    idx: Option<&[usize]>,
    cidx: Option<&[usize]>,
) -> Option<Out<()>>
where
    CS::Expander: for<'a> ExpandMsg<'a>,
{
    let proof = raw.build::<CS>()?;
    let out = match blind_l {
        None => guard(|| proof.proof_verify(pk, dmsgs, idx, hdr, ph)),
        Some(l) => guard(|| proof.blind_proof_verify(pk, hdr, ph, l, dmsgs, dcmsgs, idx, cidx)),
    };
    let mut a = vec![hx(&pk.to_bytes())];
    a.extend(raw.args());
    a.push(ohx(hdr));
    a.push(ohx(ph));
    match blind_l {
        None => {
            a.push(olhx(dmsgs));
            a.push(olix(idx));
            log(h, "proofverifyraw", &a, &out, |_| vec![]);
        }
        Some(l) => {
            a.push(l.map(|x| x.to_string()).unwrap_or("-".to_string()));
            a.push(olhx(dmsgs));
            a.push(olhx(dcmsgs));
            a.push(olix(idx));
            a.push(olix(cidx));
            log(h, "blindproofverifyraw", &a, &out, |_| vec![]);
        }
    }
    Some(out)
}

// ---------------------------------------------------------------------------------------------
// replay: re-execute protocol lines (the part before "=>") against the current implementation

fn arr<const N: usize>(v: &[u8]) -> [u8; N] {
    v.try_into().expect("fixed-size argument")
}

fn sig_of(a: &str, e: &str) -> BBSplusSignature {
    let A = G1Affine::from_compressed(&arr::<48>(&unhx(a))).unwrap();
    let e = Scalar::from_be_bytes(&arr::<32>(&unhx(e))).unwrap();
    BBSplusSignature { A: A.into(), e }
}

fn replay_line<CS: BbsCiphersuite>(h: &mut H, op: &str, a: &[&str])
where
    CS::Expander: for<'a> ExpandMsg<'a>,
{
    let pk = |s: &str| BBSplusPublicKey(
        bls12_381_plus::G2Affine::from_compressed(&arr::<96>(&unhx(s))).unwrap().into(),
    );
    let sk = |s: &str| BBSplusSecretKey(Scalar::from_be_bytes(&arr::<32>(&unhx(s))).unwrap());
    match op {
        "keygen" => {
            keygen::<CS>(h, &unhx(a[0]), unohx(a[1]).as_deref(), unohx(a[2]).as_deref());
        }
        "gens" => {
            gens::<CS>(h, unohx(a[0]).as_deref(), a[1].parse().unwrap());
        }
        "h2s" => {
            h2s::<CS>(h, &unhx(a[0]), &unhx(a[1]));
        }
        "mapmsg" => {
            mapmsg::<CS>(h, &unhx(a[0]), &unhx(a[1]));
        }
        "sign" => {
            sign::<CS>(h, &sk(a[0]), &pk(a[1]), unohx(a[2]).as_deref(), unolhx(a[3]).as_deref());
        }
        "verify" => {
            verify::<CS>(h, &pk(a[0]), &sig_of(a[1], a[2]), unohx(a[3]).as_deref(), unolhx(a[4]).as_deref());
        }
        "pkcoords" => {
            pkcoords(h, &pk(a[0]));
        }
        "pkfromcoords" => {
            pkfromcoords(h, &arr::<96>(&unhx(a[0])), &arr::<96>(&unhx(a[1])));
        }
        "proofgen" => {
            proofgen::<CS>(
                h,
                &pk(a[0]),
                &unhx(a[1]),
                unohx(a[2]).as_deref(),
                unohx(a[3]).as_deref(),
                unolhx(a[4]).as_deref(),
                unolix(a[5]).as_deref(),
                untape(a[6]),
            );
        }
        "proofverify" => {
            if let Ok(p) = Pok::<CS>::from_bytes(&unhx(a[1])) {
                proofverify::<CS>(
                    h,
                    &pk(a[0]),
                    &p,
                    unohx(a[2]).as_deref(),
                    unohx(a[3]).as_deref(),
                    unolhx(a[4]).as_deref(),
                    unolix(a[5]).as_deref(),
                );
            }
        }
        "commit" => {
            commit::<CS>(h, unolhx(a[0]).as_deref(), untape(a[1]));
        }
        "proofverifyraw" | "blindproofverifyraw" => {
            let g = |s: &str| G1Projective::from(G1Affine::from_compressed(&arr::<48>(&unhx(s))).unwrap());
            let sc = |s: &str| Scalar::from_be_bytes(&arr::<32>(&unhx(s))).unwrap();
            let raw = RawProof {
                abar: g(a[1]), bbar: g(a[2]), d: g(a[3]), e_cap: sc(a[4]), r1_cap: sc(a[5]), r3_cap: sc(a[6]),
                m_cap: unlhx(a[7]).iter().map(|b| Scalar::from_be_bytes(&arr::<32>(b)).unwrap()).collect(),
                c: sc(a[8]),
            };
            if op == "proofverifyraw" {
                proofverify_raw::<CS>(h, &pk(a[0]), &raw, unohx(a[9]).as_deref(), unohx(a[10]).as_deref(), None, unolhx(a[11]).as_deref(), None, unolix(a[12]).as_deref(), None);
            } else {
                let l = if a[11] == "-" { None } else { Some(a[11].parse().unwrap()) };
                proofverify_raw::<CS>(h, &pk(a[0]), &raw, unohx(a[9]).as_deref(), unohx(a[10]).as_deref(), Some(l), unolhx(a[12]).as_deref(), unolhx(a[13]).as_deref(), unolix(a[14]).as_deref(), unolix(a[15]).as_deref());
            }
        }
        "blindsign" => {
            blindsign::<CS>(
                h,
                &sk(a[0]),
                &pk(a[1]),
                unohx(a[2]).as_deref(),
                unohx(a[3]).as_deref(),
                unolhx(a[4]).as_deref(),
            );
        }
        "verifyblind" => {
            let b = unohx(a[6]).map(|v| arr::<32>(&v));
            verifyblind::<CS>(
                h,
                &pk(a[0]),
                &sig_of(a[1], a[2]),
                unohx(a[3]).as_deref(),
                unolhx(a[4]).as_deref(),
                unolhx(a[5]).as_deref(),
                b.as_ref(),
            );
        }
        "blindproofgen" => {
            let b = unohx(a[8]).map(|v| arr::<32>(&v));
            blindproofgen::<CS>(
                h,
                &pk(a[0]),
                &unhx(a[1]),
                unohx(a[2]).as_deref(),
                unohx(a[3]).as_deref(),
                unolhx(a[4]).as_deref(),
                unolhx(a[5]).as_deref(),
                unolix(a[6]).as_deref(),
                unolix(a[7]).as_deref(),
                b.as_ref(),
                untape(a[9]),
            );
        }
        "blindproofverify" => {
            if let Ok(p) = Pok::<CS>::from_bytes(&unhx(a[1])) {
                let L = if a[4] == "-" { None } else { Some(a[4].parse().unwrap()) };
                blindproofverify::<CS>(
                    h,
                    &pk(a[0]),
                    &p,
                    unohx(a[2]).as_deref(),
                    unohx(a[3]).as_deref(),
                    L,
                    unolhx(a[5]).as_deref(),
                    unolhx(a[6]).as_deref(),
                    unolix(a[7]).as_deref(),
                    unolix(a[8]).as_deref(),
                );
            }
        }
        "update" => {
            update::<CS>(
                h,
                &sig_of(a[0], a[1]),
                &sk(a[2]),
                &unhx(a[3]),
                &unhx(a[4]),
                a[5].parse().unwrap(),
                a[6].parse().unwrap(),
            );
        }
        "devc" => {
            devc::<CS>(h, unohx(a[0]).as_deref(), a[1].parse().unwrap());
        }
        "prepparams" => {
            let b = unohx(a[4]).map(|v| arr::<32>(&v));
            prepparams::<CS>(h, unolhx(a[0]).as_deref(), unolhx(a[1]).as_deref(), a[2].parse().unwrap(), a[3].parse().unwrap(), b.as_ref(), unohx(a[5]).as_deref());
        }
        _ if op.starts_with("dec.") => {
            dec(h, &op[4..], &unhx(a[0]));
        }
        _ => panic!("unknown op {}", op),
    }
}

pub fn replay(h: &mut H, text: &str) {
    for line in text.lines() {
        let line = line.trim();
        if line.is_empty() || line.starts_with('#') {
            continue;
        }
        let lhs = line.split(" => ").next().unwrap();
        let f: Vec<&str> = lhs.split(' ').collect();
        if f.len() < 3 {
            continue;
        }
        h.next_id = f[0].parse().unwrap_or(h.next_id);
        let op = f[2];
        let a = &f[3..];
        if f[1] == "sha" {
            h.suite = "sha";
            replay_line::<Bls12381Sha256>(h, op, a);
        } else {
            h.suite = "shake";
            replay_line::<Bls12381Shake256>(h, op, a);
        }
    }
}
