// C03 (proof completeness for every disclosure choice), C04 (proof soundness)
use super::*;
use crate::ops::*;
use crate::H;
use bls12_381_plus::{G1Projective, Scalar};
use elliptic_curve::group::Curve;
use elliptic_curve::hash2curve::ExpandMsg;
use zkryptium::bbsplus::ciphersuites::BbsCiphersuite;
use zkryptium::bbsplus::generators::Generators;
use zkryptium::bbsplus::keys::BBSplusPublicKey;
use zkryptium::utils::message::bbsplus_message::BBSplusMessage;
use zkryptium::utils::util::bbsplus_utils::{hash_to_scalar, i2osp};

pub fn rand_scalar_bytes(h: &mut H) -> Vec<u8> {
    // a canonical scalar: top byte < 0x73
    let mut b = h.rng.bytes(32);
    b[0] %= 0x73;
    b
}

pub fn rand_tape(h: &mut H, n: usize) -> Vec<Vec<u8>> {
    (0..n).map(|_| rand_scalar_bytes(h)).collect()
}

/// one honest proof: generate (inject or record tape), check length, round trip, verify
pub fn honest_proof<CS: BbsCiphersuite>(
    h: &mut H,
    pk: &BBSplusPublicKey,
    sig: &[u8],
    hdr: Option<&[u8]>,
    ph: Option<&[u8]>,
    msgs: &[Vec<u8>],
    idx_given: &[usize],
    inject: bool,
) -> Option<Pok<CS>>
where
    CS::Expander: for<'a> ExpandMsg<'a>,
{
    let l = msgs.len();
    let mut d: Vec<usize> = idx_given.to_vec();
    d.sort();
    d.dedup();
    let u = l - d.len();
    let tape = if inject { rand_tape(h, 5 + u) } else { vec![] };
    h.stat(if inject { "tape.inject" } else { "tape.record" });
    h.stat(&format!("proof.L={}.R={}", l, d.len()));
    let (p, draws) = proofgen::<CS>(h, pk, sig, hdr, ph, Some(msgs), Some(idx_given), tape);
    let gid = h.last();
    h.expect(draws.len() == 5 + u, "C03.draws", "proof_gen did not draw 5 + U scalars", &[gid]);
    h.expect(p.is_ok(), "C03.gen", "proof_gen failed on a valid signature and disclosure set", &[gid]);
    let p = p.ok()?;
    let pb = p.to_bytes();
    h.expect(pb.len() == 272 + 32 * u, "C03.len", "proof length is not 272 + 32*U", &[gid]);
    let dd = dec(h, "proof", &pb);
    let did = h.last();
    h.expect(matches!(&dd, Out::Ok(v) if *v == pb), "C03.roundtrip", "proof does not survive from_bytes(to_bytes)", &[gid, did]);
    let p2 = Pok::<CS>::from_bytes(&pb).ok()?;
    // the JSON encoding of the proof object round-trips as well (all shapes, incl. U = 0)
    {
        let back: Option<Pok<CS>> = serde_json::to_string(&p2).ok().and_then(|t| serde_json::from_str(&t).ok());
        h.expect(back.as_ref().map(|b| b.to_bytes()) == Some(pb.clone()), "C03.json_roundtrip", &format!("proof (U = {}) does not survive its JSON encoding", u), &[gid]);
    }
    let dm = pick_msgs(msgs, &d);
    let v = proofverify::<CS>(h, pk, &p2, hdr, ph, Some(&dm), Some(&d));
    let vid = h.last();
    h.expect(v.is_ok(), "C03.verify", "honest proof does not verify", &[gid, vid]);
    Some(p2)
}

pub fn c03<CS: BbsCiphersuite>(h: &mut H)
where
    CS::Expander: for<'a> ExpandMsg<'a>,
{
    let thorough = h.tier_thorough;
    let maxl = if thorough { 8 } else { 4 };
    let (sk, pk) = rand_keypair::<CS>(h);
    for l in 0..=maxl {
        let msgs = rand_msgs(h, l);
        let hdr = rand_header(h);
        let s = match sign::<CS>(h, &sk, &pk, hdr.as_deref(), Some(&msgs)).ok() {
            Some(s) => s.to_bytes(),
            None => continue,
        };
        for (k, d) in subsets(l).into_iter().enumerate() {
            let ph = header_of_class(h, k + l);
            honest_proof::<CS>(h, &pk, &s, hdr.as_deref(), ph.as_deref(), &msgs, &d, k % 3 != 2);
        }
    }
    // presentation headers, headers and disclosed messages beyond 2^16 octets (the challenge input has no size limit)
    {
        let mut msgs = rand_msgs(h, 3);
        msgs[2] = h.rng.bytes(66000);
        for (hl, pl) in [(0usize, 70000usize), (66000, 5), (66000, 70000)] {
            let hdr: Option<Vec<u8>> = if hl == 0 { None } else { Some(h.rng.bytes(hl)) };
            let ph = h.rng.bytes(pl);
            h.stat("C03.large_ph");
            if let Some(s) = sign::<CS>(h, &sk, &pk, hdr.as_deref(), Some(&msgs)).ok() {
                let sb = s.to_bytes();
                for d in [vec![0usize, 2], vec![]] {
                    if honest_proof::<CS>(h, &pk, &sb, hdr.as_deref(), Some(&ph), &msgs, &d, d.is_empty()).is_none() {
                        h.expect(false, "C03.large_ph", &format!("proof generation / verification failed with a {}-octet header and a {}-octet presentation header", hl, pl), &[h.last()]);
                    }
                }
            } else {
                h.expect(false, "C03.large_ph_sign", "sign failed with a large header", &[h.last()]);
            }
        }
    }
    // the verifier given a disclosed position TWICE in its index list (with one message per distinct position):
    // the list names the same set, the proof verifies
    {
        let msgs = rand_msgs(h, 4);
        if let Some(s) = sign::<CS>(h, &sk, &pk, None, Some(&msgs)).ok() {
            let sb = s.to_bytes();
            if let Some(p) = honest_proof::<CS>(h, &pk, &sb, None, None, &msgs, &[0, 2], true) {
                let dm = vec![msgs[0].clone(), msgs[2].clone()];
                for idx in [vec![0usize, 0, 2], vec![0, 2, 2], vec![2, 0, 0, 2]] {
                    let v = proofverify::<CS>(h, &pk, &p, None, None, Some(&dm), Some(&idx));
                    h.stat("C03.verifier_repeated_index");
                    // (unsorted lists pair messages with positions differently -- observation O5 -- so only lists whose
                    // sorted, de-duplicated form is the disclosed set in ascending order are required to verify)
                    if idx.windows(2).all(|w| w[0] <= w[1]) {
                        h.expect(v.is_ok(), "C03.verifier_repeated_index", &format!("an honest proof is refused when the verifier lists a disclosed position twice ({:?})", idx), &[h.last()]);
                    }
                }
            }
        }
    }
    // repeated message VALUES at different positions (all equal; a,t,t,b,t): every subset
    for pattern in [vec![0usize, 0, 0], vec![0, 1, 1, 2, 1], vec![1, 1], vec![0, 1, 0, 1]] {
        let vals = rand_msgs(h, 3);
        let msgs: Vec<Vec<u8>> = pattern.iter().map(|&k| vals[k].clone()).collect();
        let hdr = rand_header(h);
        if let Some(s) = sign::<CS>(h, &sk, &pk, hdr.as_deref(), Some(&msgs)).ok() {
            let sb = s.to_bytes();
            for (k, d) in subsets(msgs.len()).into_iter().enumerate() {
                h.stat("C03.repeated_values");
                honest_proof::<CS>(h, &pk, &sb, hdr.as_deref(), None, &msgs, &d, k % 2 == 0);
            }
        }
    }
    // particular VALUES of the randomness: 0, 1 and r-1 in every tape position (the model says what
    // must happen; for r1, r2 != 0 the proof must verify)
    {
        let msgs = rand_msgs(h, 3);
        let hdr = rand_header(h);
        if let Some(s) = sign::<CS>(h, &sk, &pk, hdr.as_deref(), Some(&msgs)).ok() {
            let sb = s.to_bytes();
            let d = vec![1usize];
            let dm = pick_msgs(&msgs, &d);
            let rm1 = hex::decode("73eda753299d7d483339d80809a1d80553bda402fffe5bfeffffffff00000000").unwrap();
            let mut one = vec![0u8; 32];
            one[31] = 1;
            for pos in 0..7 {
                for (vn, val) in [("zero", vec![0u8; 32]), ("one", one.clone()), ("r_minus_1", rm1.clone())] {
                    let mut tape = rand_tape(h, 7);
                    tape[pos] = val.clone();
                    h.stat(&format!("C03.special_tape.{}", vn));
                    let (p, _) = proofgen::<CS>(h, &pk, &sb, hdr.as_deref(), None, Some(&msgs), Some(&d), tape);
                    let gid = h.last();
                    let degenerate = vn == "zero" && pos < 2;
                    if !degenerate {
                        h.expect(p.is_ok(), "C03.special_tape_gen", "proof_gen failed for a particular value of the randomness", &[gid]);
                    }
                    if let Some(p) = p.ok() {
                        let v = proofverify::<CS>(h, &pk, &p, hdr.as_deref(), None, Some(&dm), Some(&d));
                        if !degenerate {
                            h.expect(v.is_ok(), "C03.special_tape_verify", "proof made with a particular value of the randomness does not verify", &[gid, h.last()]);
                        }
                    }
                }
            }
            // equal blindings in two roles, supplied by the tape (legal, must still verify)
            let t = rand_tape(h, 7);
            let tape = vec![t[0].clone(), t[1].clone(), t[2].clone(), t[2].clone(), t[2].clone(), t[5].clone(), t[5].clone()];
            let (p, _) = proofgen::<CS>(h, &pk, &sb, hdr.as_deref(), None, Some(&msgs), Some(&d), tape);
            if let Some(p) = p.ok() {
                let v = proofverify::<CS>(h, &pk, &p, hdr.as_deref(), None, Some(&dm), Some(&d));
                h.expect(v.is_ok(), "C03.equal_draws", "proof does not verify when the tape repeats a value", &[h.last()]);
            }
        }
    }
    // sampled larger L, unsorted / duplicated index lists, None arguments
    let big: &[usize] = if thorough { &[11, 32, 64, 170, 255, 256, 300, 1400] } else { &[11, 17, 40, 200, 257] };
    for &l in big {
        let (sk, pk) = rand_keypair::<CS>(h);
        let msgs = rand_msgs(h, l);
        let hdr = rand_header(h);
        if let Some(s) = sign::<CS>(h, &sk, &pk, hdr.as_deref(), Some(&msgs)).ok() {
            let sb = s.to_bytes();
            // nothing disclosed (U = L) and one disclosed, with the production randomness path
            h.stat(&format!("C03.large_U={}", l));
            honest_proof::<CS>(h, &pk, &sb, hdr.as_deref(), None, &msgs, &[], false);
            honest_proof::<CS>(h, &pk, &sb, hdr.as_deref(), None, &msgs, &[l - 1], true);
            let reps = if thorough { 4 } else { 2 };
            for r in 0..reps {
                let mut d = rand_subset(h, l);
                if r % 2 == 1 && d.len() > 1 {
                    // unsorted with duplicates: the prover sorts and dedups
                    d.reverse();
                    let x = d[0];
                    d.push(x);
                }
                let ph = rand_header(h);
                honest_proof::<CS>(h, &pk, &sb, hdr.as_deref(), ph.as_deref(), &msgs, &d, r % 2 == 0);
            }
        }
    }
    // absent lists: proof_gen(None, None) for a signature on no messages
    let (sk, pk) = rand_keypair::<CS>(h);
    if let Some(s) = sign::<CS>(h, &sk, &pk, None, None).ok() {
        let tape = rand_tape(h, 5);
        let (p, _) = proofgen::<CS>(h, &pk, &s.to_bytes(), None, None, None, None, tape);
        let gid = h.last();
        h.expect(p.is_ok(), "C03.gen_none", "proof_gen with absent lists failed", &[gid]);
        if let Some(p) = p.ok() {
            let v = proofverify::<CS>(h, &pk, &p, None, None, None, None);
            h.expect(v.is_ok(), "C03.verify_none", "proof with absent lists does not verify", &[gid, h.last()]);
            let v = proofverify::<CS>(h, &pk, &p, Some(&[]), Some(&[]), Some(&[]), Some(&[]));
            h.expect(v.is_ok(), "C03.verify_empty", "absent != empty in proof_verify", &[gid, h.last()]);
        }
    }
}

fn flip(b: &[u8], bit: usize) -> Vec<u8> {
    let mut v = b.to_vec();
    v[bit / 8] ^= 0x80 >> (bit % 8);
    v
}

fn expect_reject<CS: BbsCiphersuite>(
    h: &mut H,
    class: &str,
    pk: &BBSplusPublicKey,
    pb: &[u8],
    hdr: Option<&[u8]>,
    ph: Option<&[u8]>,
    dm: &[Vec<u8>],
    d: &[usize],
) where
    CS::Expander: for<'a> ExpandMsg<'a>,
{
    h.stat(&format!("C04.edit.{}", class));
    let dd = dec(h, "proof", pb);
    let did = h.last();
    h.expect(!dd.is_panic(), "C04.dec_panic", "proof decoder panicked", &[did]);
    if !dd.is_ok() {
        return;
    }
    if let Ok(p) = Pok::<CS>::from_bytes(pb) {
        let v = proofverify::<CS>(h, pk, &p, hdr, ph, Some(dm), Some(d));
        let vid = h.last();
        h.expect(!v.is_ok(), &format!("C04.{}", class), "proof_verify accepted an altered statement or proof", &[did, vid]);
    }
}

/// the verifier's own B_v and domain recomputed from public API pieces
pub fn verifier_bv<CS: BbsCiphersuite>(
    pk: &BBSplusPublicKey,
    hdr: Option<&[u8]>,
    l: usize,
    d: &[usize],
    dm: &[Vec<u8>],
    api: &[u8],
) -> (G1Projective, Scalar, Vec<G1Projective>)
where
    CS::Expander: for<'a> ExpandMsg<'a>,
{
    let gens = Generators::create::<CS>(l + 1, Some(api));
    let q1 = gens.values[0];
    let hs: Vec<G1Projective> = gens.values[1..].to_vec();
    let header = hdr.unwrap_or(b"");
    let mut dom: Vec<u8> = Vec::new();
    dom.extend_from_slice(&pk.to_bytes());
    dom.extend_from_slice(&i2osp::<8>(l));
    dom.extend_from_slice(&q1.to_affine().to_compressed());
    for p in &hs {
        dom.extend_from_slice(&p.to_affine().to_compressed());
    }
    dom.extend_from_slice(api);
    dom.extend_from_slice(&i2osp::<8>(header.len()));
    dom.extend_from_slice(header);
    let domain = hash_to_scalar::<CS>(&dom, &[api, CS::H2S].concat()).unwrap();
    let ms = BBSplusMessage::messages_to_scalar::<CS>(dm, api).unwrap();
    let mut bv = gens.g1_base_point + q1 * domain;
    for (k, &i) in d.iter().enumerate() {
        bv += hs[i] * ms[k].value;
    }
    (bv, domain, hs)
}

/// challenge exactly as the verifier computes it
pub fn challenge<CS: BbsCiphersuite>(
    d: &[usize],
    dm: &[Vec<u8>],
    pts: [&G1Projective; 5],
    domain: &Scalar,
    ph: Option<&[u8]>,
    api: &[u8],
) -> Scalar
where
    CS::Expander: for<'a> ExpandMsg<'a>,
{
    let ms = BBSplusMessage::messages_to_scalar::<CS>(dm, api).unwrap();
    let ph = ph.unwrap_or(b"");
    let mut c: Vec<u8> = Vec::new();
    c.extend_from_slice(&i2osp::<8>(d.len()));
    for (i, m) in d.iter().zip(ms.iter()) {
        c.extend_from_slice(&i2osp::<8>(*i));
        c.extend_from_slice(&m.value.to_be_bytes());
    }
    for p in pts {
        c.extend_from_slice(&p.to_affine().to_compressed());
    }
    c.extend_from_slice(&domain.to_be_bytes());
    c.extend_from_slice(&i2osp::<8>(ph.len()));
    c.extend_from_slice(ph);
    hash_to_scalar::<CS>(&c, &[api, CS::H2S].concat()).unwrap()
}

/// A proof assembled by a HOLDER who knows a valid signature `(A, e)` on the scalar vector `m` over the
/// generator list `hs` (one generator per position, `q1`/`p1` as usual) but who chooses freely which
/// (index, message) pairs to CLAIM as disclosed (`claim_idx`, `claim_msgs`: hashed into the challenge) and
/// which positions get a response (`resp`). Every response is computed correctly for the true `m`.
/// The verification equation holds iff `B = P1 + Q1*domain + sum_{claimed and bound} H_i m'_i + sum_{resp} H_j m_j`.
pub fn crafted_holder_proof<CS: BbsCiphersuite>(
    h: &mut H,
    a: &G1Projective,
    e: &Scalar,
    p1: &G1Projective,
    q1: &G1Projective,
    hs: &[G1Projective],
    domain: &Scalar,
    m: &[Scalar],
    claim_idx: &[usize],
    claim_msgs: &[Vec<u8>],
    resp: &[usize],
    ph: Option<&[u8]>,
    api: &[u8],
) -> Vec<u8>
where
    CS::Expander: for<'a> ExpandMsg<'a>,
{
    let rs = |h: &mut H| {
        let mut arr = [0u8; 32];
        arr.copy_from_slice(&rand_scalar_bytes(h));
        Scalar::from_be_bytes(&arr).unwrap()
    };
    let (r1, r2, et, r1t, r3t) = (rs(h), rs(h), rs(h), rs(h), rs(h));
    let mt: Vec<Scalar> = resp.iter().map(|_| rs(h)).collect();
    let r3 = r2.invert().unwrap();
    let mut b = *p1 + *q1 * *domain;
    for (i, mi) in m.iter().enumerate() {
        b += hs[i] * *mi;
    }
    let d = b * r2;
    let abar = *a * (r1 * r2);
    let bbar = d * r1 - abar * *e;
    let t1 = abar * et + d * r1t;
    let mut t2 = d * r3t;
    for (k, &j) in resp.iter().enumerate() {
        t2 += hs[j] * mt[k];
    }
    let c = challenge::<CS>(claim_idx, claim_msgs, [&abar, &bbar, &d, &t1, &t2], domain, ph, api);
    let mut out = Vec::new();
    for p in [&abar, &bbar, &d] {
        out.extend_from_slice(&p.to_affine().to_compressed());
    }
    out.extend_from_slice(&(et + *e * c).to_be_bytes());
    out.extend_from_slice(&(r1t - r1 * c).to_be_bytes());
    out.extend_from_slice(&(r3t - r3 * c).to_be_bytes());
    for (k, &j) in resp.iter().enumerate() {
        out.extend_from_slice(&(mt[k] + m[j] * c).to_be_bytes());
    }
    out.extend_from_slice(&c.to_be_bytes());
    out
}

/// domain exactly as the verifier computes it over an explicit generator list
pub fn domain_over<CS: BbsCiphersuite>(pk: &BBSplusPublicKey, q1: &G1Projective, hs: &[G1Projective], hdr: Option<&[u8]>, api: &[u8]) -> Scalar
where
    CS::Expander: for<'a> ExpandMsg<'a>,
{
    let header = hdr.unwrap_or(b"");
    let mut dom: Vec<u8> = Vec::new();
    dom.extend_from_slice(&pk.to_bytes());
    dom.extend_from_slice(&i2osp::<8>(hs.len()));
    dom.extend_from_slice(&q1.to_affine().to_compressed());
    for p in hs {
        dom.extend_from_slice(&p.to_affine().to_compressed());
    }
    dom.extend_from_slice(api);
    dom.extend_from_slice(&i2osp::<8>(header.len()));
    dom.extend_from_slice(header);
    hash_to_scalar::<CS>(&dom, &[api, CS::H2S].concat()).unwrap()
}

/// Holder-side forgeries: a holder of a GENUINE signature tries to get a statement accepted that the
/// issuer never signed (an extra disclosed message bound to no generator, a false disclosed value, a
/// hidden position without response). The crafted prover is validated first on the honest statement.
fn holder_forgeries<CS: BbsCiphersuite>(h: &mut H)
where
    CS::Expander: for<'a> ExpandMsg<'a>,
{
    let (sk, pk) = rand_keypair::<CS>(h);
    for l in [1usize, 3, 4] {
        let msgs = distinct_msgs(h, l);
        let hdr = rand_header(h);
        let ph = rand_header(h);
        // ---- plain interface
        if let Some(sig) = sign::<CS>(h, &sk, &pk, hdr.as_deref(), Some(&msgs)).ok() {
            let api = CS::API_ID;
            let gens = Generators::create::<CS>(l + 1, Some(api));
            let (q1, hs) = (gens.values[0], gens.values[1..].to_vec());
            let dom = domain_over::<CS>(&pk, &q1, &hs, hdr.as_deref(), api);
            let m: Vec<Scalar> = BBSplusMessage::messages_to_scalar::<CS>(&msgs, api).unwrap().iter().map(|x| x.value).collect();
            let (a, e) = (sig.a(), sig.e());
            let d: Vec<usize> = vec![0];
            let hidden: Vec<usize> = (1..l).collect();
            let dm = vec![msgs[0].clone()];
            let mut run = |h: &mut H, class: &str, ci: &[usize], cm: &[Vec<u8>], resp: &[usize], want_ok: bool| {
                let pb = crafted_holder_proof::<CS>(h, &a, &e, &gens.g1_base_point, &q1, &hs, &dom, &m, ci, cm, resp, ph.as_deref(), api);
                h.stat(&format!("C04.holder.{}", class));
                if let Ok(p) = Pok::<CS>::from_bytes(&pb) {
                    let v = proofverify::<CS>(h, &pk, &p, hdr.as_deref(), ph.as_deref(), Some(cm), Some(ci));
                    if want_ok {
                        h.expect(v.is_ok(), "C04.holder_selfcheck", "the crafted holder proof of an honest statement is rejected (harness prover wrong?)", &[h.last()]);
                    } else {
                        h.expect(!v.is_ok(), &format!("C04.holder_{}", class), "a holder of a genuine signature got an unsigned statement accepted", &[h.last()]);
                    }
                }
            };
            run(h, "honest", &d, &dm, &hidden, true);
            // an extra disclosed pair at the first position past the end, and further out
            for extra in [l, l + 1, l + 7] {
                let mut ci = d.clone();
                ci.push(extra);
                let mut cm = dm.clone();
                cm.push(b"never signed".to_vec());
                run(h, "extra_past_end", &ci, &cm, &hidden, false);
                if !hidden.is_empty() {
                    run(h, "extra_past_end_one_response_less", &ci, &cm, &hidden[..hidden.len() - 1], false);
                }
            }
            // a false value at a disclosed position; a hidden position left without response
            run(h, "false_disclosed_value", &d, &[b"not the signed message".to_vec()], &hidden, false);
            if !hidden.is_empty() {
                run(h, "response_missing", &d, &dm, &hidden[1..], false);
            }
        }
        // ---- blind interface, signature issued WITHOUT commitment: position L carries the prover blind 0
        if let Some(bs) = blindsign::<CS>(h, &sk, &pk, None, hdr.as_deref(), Some(&msgs)).ok() {
            let api = CS::API_ID_BLIND;
            let gens = Generators::create::<CS>(l + 1, Some(api));
            let bgens = Generators::create::<CS>(1, Some(&[b"BLIND_", api].concat()));
            let q1 = gens.values[0];
            let mut hs: Vec<G1Projective> = gens.values[1..].to_vec();
            hs.push(bgens.values[0]);
            let dom = domain_over::<CS>(&pk, &q1, &hs, hdr.as_deref(), api);
            let mut m: Vec<Scalar> = BBSplusMessage::messages_to_scalar::<CS>(&msgs, api).unwrap().iter().map(|x| x.value).collect();
            m.push(Scalar::ZERO);
            let sg = bs.bbsPlusBlindSignature().clone();
            let (a, e) = (sg.A, sg.e);
            let d: Vec<usize> = vec![0];
            let dm = vec![msgs[0].clone()];
            let hidden: Vec<usize> = (1..l + 1).collect(); // includes the blind position L
            let mut runb = |h: &mut H, class: &str, ci: &[usize], cm: &[Vec<u8>], cci: &[usize], ccm: &[Vec<u8>], resp: &[usize], want_ok: bool| {
                let mut all_i: Vec<usize> = ci.to_vec();
                all_i.extend(cci.iter().map(|j| j + l + 1));
                let mut all_m: Vec<Vec<u8>> = cm.to_vec();
                all_m.extend(ccm.iter().cloned());
                let pb = crafted_holder_proof::<CS>(h, &a, &e, &gens.g1_base_point, &q1, &hs, &dom, &m, &all_i, &all_m, resp, ph.as_deref(), api);
                h.stat(&format!("C04.holder_blind.{}", class));
                if let Ok(p) = Pok::<CS>::from_bytes(&pb) {
                    let v = blindproofverify::<CS>(h, &pk, &p, hdr.as_deref(), ph.as_deref(), Some(l), Some(cm), Some(ccm), Some(ci), Some(cci));
                    if want_ok {
                        h.expect(v.is_ok(), "C04.holder_blind_selfcheck", "the crafted holder proof of an honest blind statement is rejected (harness prover wrong?)", &[h.last()]);
                    } else {
                        h.expect(!v.is_ok(), &format!("C04.holder_blind_{}", class), "a holder of a genuine blind signature got an unsigned statement accepted", &[h.last()]);
                    }
                }
            };
            runb(h, "honest", &d, &dm, &[], &[], &hidden, true);
            // claim a disclosed COMMITTED message (commitment index 0 -> position L+1, one past the end) that
            // was never committed; the prover blind (0) at position L is left without response
            let forged = vec![b"never committed".to_vec()];
            runb(h, "claimed_committed_message", &d, &dm, &[0], &forged, &hidden[..hidden.len() - 1], false);
            runb(h, "claimed_committed_message_all_responses", &d, &dm, &[0], &forged, &hidden, false);
            runb(h, "claimed_committed_message_far", &d, &dm, &[3], &forged, &hidden[..hidden.len() - 1], false);
            runb(h, "blind_response_missing", &d, &dm, &[], &[], &hidden[..hidden.len() - 1], false);
        }
    }
}

/// Degenerate-element forgeries assembled from public information only (DESIGN F1).
fn forgeries<CS: BbsCiphersuite>(h: &mut H)
where
    CS::Expander: for<'a> ExpandMsg<'a>,
{
    let (_sk, pk) = rand_keypair::<CS>(h);
    let api = CS::API_ID;
    for (r, u) in [(0usize, 0usize), (1, 0), (2, 3), (0, 4), (3, 1)] {
        let l = r + u;
        let d: Vec<usize> = (0..r).map(|i| i * l / r.max(1)).collect();
        let undisclosed: Vec<usize> = (0..l).filter(|i| !d.contains(i)).collect();
        let dm: Vec<Vec<u8>> = (0..r).map(|i| format!("claimed message {}", i).into_bytes()).collect();
        let hdr = rand_header(h);
        let ph = rand_header(h);
        let (bv, domain, hs) = verifier_bv::<CS>(&pk, hdr.as_deref(), l, &d, &dm, api);
        let p1 = Generators::create::<CS>(1, Some(api)).g1_base_point;
        let q1 = Generators::create::<CS>(1, Some(api)).values[0];
        let id = G1Projective::IDENTITY;
        let cands: Vec<(&str, G1Projective)> = vec![("O", id), ("Bv", bv), ("P1", p1), ("Q1", q1), ("-Bv", -bv)];
        for (an, abar) in &cands {
            for (bn, bbar) in &cands {
                for (dn, dp) in &cands {
                    // keep the family small: all combinations involving an identity, plus diagonals
                    let interesting = *an == "O" || *bn == "O" || *dn == "O" || (an == bn && bn == dn);
                    if !interesting {
                        continue;
                    }
                    let e_cap = Scalar::from(7u64);
                    let r1_cap = Scalar::from(11u64);
                    let m_cap: Vec<Scalar> = (0..u).map(|j| Scalar::from(13u64 + j as u64)).collect();
                    // strategy A (F1): T2 independent of c: r3^ = -c cancels c*Bv when D = Bv
                    // T1 = c*Bbar + e^*Abar + r1^*D ; with Bbar = O it does not depend on c either
                    // we solve by fixing T1, T2 from c-free terms, hashing, then setting r3^.
                    let t2_free: G1Projective = undisclosed.iter().zip(m_cap.iter()).fold(id, |acc, (&j, m)| acc + hs[j] * m);
                    let t1_free = abar * e_cap + dp * r1_cap;
                    // guess: T1 = t1_free (exact when Bbar = O), T2 = t2_free (exact when D = Bv and r3^ = -c,
                    // or when D = O and Bv-term is ignored)
                    let c = challenge::<CS>(&d, &dm, [abar, bbar, dp, &t1_free, &t2_free], &domain, ph.as_deref(), api);
                    for r3_cap in [-c, Scalar::ZERO, c] {
                        let mut pb: Vec<u8> = Vec::new();
                        pb.extend_from_slice(&abar.to_affine().to_compressed());
                        pb.extend_from_slice(&bbar.to_affine().to_compressed());
                        pb.extend_from_slice(&dp.to_affine().to_compressed());
                        pb.extend_from_slice(&e_cap.to_be_bytes());
                        pb.extend_from_slice(&r1_cap.to_be_bytes());
                        pb.extend_from_slice(&r3_cap.to_be_bytes());
                        for m in &m_cap {
                            pb.extend_from_slice(&m.to_be_bytes());
                        }
                        pb.extend_from_slice(&c.to_be_bytes());
                        h.stat(&format!("C04.forgery.{}{}{}", an, bn, dn));
                        // (a) through serde, which never runs the decoder's checks
                        let raw = RawProof { abar: *abar, bbar: *bbar, d: *dp, e_cap, r1_cap, r3_cap, m_cap: m_cap.clone(), c };
                        if let Some(v) = proofverify_raw::<CS>(h, &pk, &raw, hdr.as_deref(), ph.as_deref(), None, Some(&dm), None, Some(&d), None) {
                            let vid = h.last();
                            h.expect(!v.is_ok(), "C04.forgery_serde", "a proof object assembled from public information alone (serde path) was accepted", &[vid]);
                        }
                        // (b) through the octet decoder
                        let dd = dec(h, "proof", &pb);
                        let did = h.last();
                        if dd.is_ok() {
                            if let Ok(p) = Pok::<CS>::from_bytes(&pb) {
                                let v = proofverify::<CS>(h, &pk, &p, hdr.as_deref(), ph.as_deref(), Some(&dm), Some(&d));
                                let vid = h.last();
                                h.expect(!v.is_ok(), "C04.forgery", "a proof assembled from public information alone was accepted", &[did, vid]);
                            }
                        }
                    }
                }
            }
        }
    }
}

pub fn c04<CS: BbsCiphersuite>(h: &mut H)
where
    CS::Expander: for<'a> ExpandMsg<'a>,
{
    let thorough = h.tier_thorough;
    forgeries::<CS>(h);
    holder_forgeries::<CS>(h);
    let nproofs = if thorough { 8 } else { 2 };
    for k in 0..nproofs {
        let (sk, pk) = rand_keypair::<CS>(h);
        let (_sk2, pk2) = rand_keypair::<CS>(h);
        let l = [4usize, 2, 6, 1, 5, 3, 8, 7][k % 8];
        let msgs = distinct_msgs(h, l);
        let hdr = rand_header(h);
        let ph = rand_header(h);
        let s = match sign::<CS>(h, &sk, &pk, hdr.as_deref(), Some(&msgs)).ok() {
            Some(s) => s.to_bytes(),
            None => continue,
        };
        let mut d = rand_subset(h, l);
        if d.is_empty() && l > 1 {
            d.push(0);
        }
        if d.len() == l && l > 1 {
            d.pop();
        }
        let p = match honest_proof::<CS>(h, &pk, &s, hdr.as_deref(), ph.as_deref(), &msgs, &d, true) {
            Some(p) => p,
            None => continue,
        };
        let pb = p.to_bytes();
        let dm = pick_msgs(&msgs, &d);
        let u = l - d.len();
        // the serde path yields the same decisions as the octet path
        let raw = RawProof::from_proof_bytes(&pb);
        if let Some(v) = proofverify_raw::<CS>(h, &pk, &raw, hdr.as_deref(), ph.as_deref(), None, Some(&dm), None, Some(&d), None) {
            h.expect(v.is_ok(), "C04.serde_honest", "honest proof rebuilt through serde does not verify", &[h.last()]);
        }
        for which in 0..3 {
            let mut r2 = RawProof::from_proof_bytes(&pb);
            match which { 0 => r2.abar = G1Projective::IDENTITY, 1 => r2.bbar = G1Projective::IDENTITY, _ => r2.d = G1Projective::IDENTITY }
            if let Some(v) = proofverify_raw::<CS>(h, &pk, &r2, hdr.as_deref(), ph.as_deref(), None, Some(&dm), None, Some(&d), None) {
                h.expect(!v.is_ok(), "C04.identity_serde", "proof object with an identity point accepted", &[h.last()]);
            }
            if let Some(v) = proofverify_raw::<CS>(h, &pk, &r2, hdr.as_deref(), ph.as_deref(), Some(Some(l)), Some(&dm), None, Some(&d), None) {
                h.expect(!v.is_ok(), "C04.identity_serde_blind", "proof object with an identity point accepted by blind_proof_verify", &[h.last()]);
            }
        }
        // each of the three points shifted by a point of order 3 outside G1
        for (pi, off) in [0usize, 48, 96].iter().enumerate() {
            if let Some(a2) = crate::gen::with_small_order_component(&pb[*off..*off + 48], 0) {
                let mut fb = pb.clone();
                fb[*off..*off + 48].copy_from_slice(&a2);
                let dd = dec(h, "proof", &fb);
                h.stat("C04.small_order_point");
                h.expect(!dd.is_ok(), "C04.small_order_decode", &format!("proof decoder accepted point {} outside the prime-order group", pi), &[h.last()]);
                if dd.is_ok() {
                    expect_reject::<CS>(h, "small_order_point", &pk, &fb, hdr.as_deref(), ph.as_deref(), &dm, &d);
                }
            }
        }
        // statement edits
        for i in 0..d.len() {
            let mut m = dm.clone();
            m[i].push(1);
            expect_reject::<CS>(h, "dmsg_edit", &pk, &pb, hdr.as_deref(), ph.as_deref(), &m, &d);
            // move the message to an undisclosed position
            if let Some(&free) = (0..l).filter(|x| !d.contains(x)).collect::<Vec<_>>().first() {
                let mut d2 = d.clone();
                d2[i] = free;
                let mut pairs: Vec<(usize, Vec<u8>)> = d2.iter().cloned().zip(dm.iter().cloned()).collect();
                pairs.sort();
                let d3: Vec<usize> = pairs.iter().map(|p| p.0).collect();
                let m3: Vec<Vec<u8>> = pairs.iter().map(|p| p.1.clone()).collect();
                expect_reject::<CS>(h, "index_move", &pk, &pb, hdr.as_deref(), ph.as_deref(), &m3, &d3);
            }
            if d.len() > 1 && i + 1 < d.len() {
                let mut m = dm.clone();
                m.swap(i, i + 1);
                expect_reject::<CS>(h, "dmsg_swap", &pk, &pb, hdr.as_deref(), ph.as_deref(), &m, &d);
            }
        }
        if !d.is_empty() {
            // drop one disclosed message (changes R, hence L = U + R)
            expect_reject::<CS>(h, "drop_disclosed", &pk, &pb, hdr.as_deref(), ph.as_deref(), &dm[1..].to_vec(), &d[1..].to_vec());
        }
        // repeated / unsorted indexes carrying an extra, unsigned message
        if !d.is_empty() {
            let forged = b"never signed".to_vec();
            for pos in 0..d.len() {
                // duplicate index d[pos] with a forged message placed after, before, and at the end
                for place in 0..3 {
                    let mut i2 = d.clone();
                    let mut m2 = dm.clone();
                    match place {
                        0 => { i2.insert(pos + 1, d[pos]); m2.insert(pos + 1, forged.clone()); }
                        1 => { i2.insert(pos, d[pos]); m2.insert(pos, forged.clone()); }
                        _ => { i2.push(d[pos]); m2.push(forged.clone()); }
                    }
                    expect_reject::<CS>(h, "dup_index_forged_msg", &pk, &pb, hdr.as_deref(), ph.as_deref(), &m2, &i2);
                    let mut i3 = i2.clone();
                    let mut m3 = m2.clone();
                    i3.reverse();
                    m3.reverse();
                    expect_reject::<CS>(h, "dup_index_forged_msg_rev", &pk, &pb, hdr.as_deref(), ph.as_deref(), &m3, &i3);
                }
            }
            // the same index twice with the SAME (genuine) message: whatever the code decides, the model must agree
            let mut i2 = d.clone();
            let mut m2 = dm.clone();
            i2.push(d[0]);
            m2.push(dm[0].clone());
            if let Ok(pp) = Pok::<CS>::from_bytes(&pb) {
                proofverify::<CS>(h, &pk, &pp, hdr.as_deref(), ph.as_deref(), Some(&m2), Some(&i2));
                // more messages than indexes / fewer
                let v = proofverify::<CS>(h, &pk, &pp, hdr.as_deref(), ph.as_deref(), Some(&m2), Some(&d));
                h.expect(!v.is_ok(), "C04.extra_message", "proof_verify accepted more disclosed messages than indexes", &[h.last()]);
                let v = proofverify::<CS>(h, &pk, &pp, hdr.as_deref(), ph.as_deref(), Some(&dm[..dm.len() - 1].to_vec()), Some(&d));
                h.expect(!v.is_ok(), "C04.missing_message", "proof_verify accepted fewer disclosed messages than indexes", &[h.last()]);
            }
        }
        // Fiat-Shamir-consistent proofs with no signature of this issuer behind them: proof_gen does not
        // check the signature it is given, so everything below passes the challenge comparison and is
        // refused by the pairing equation alone
        {
            let (sk3, pk3) = rand_keypair::<CS>(h);
            let other_msgs = distinct_msgs(h, l);
            let mut unsigned: Vec<(&str, Vec<u8>)> = Vec::new();
            if let Some(s3) = sign::<CS>(h, &sk3, &pk3, hdr.as_deref(), Some(&msgs)).ok() {
                unsigned.push(("other_key", s3.to_bytes().to_vec()));
            }
            if let Some(s4) = sign::<CS>(h, &sk, &pk, hdr.as_deref(), Some(&other_msgs)).ok() {
                unsigned.push(("other_messages", s4.to_bytes().to_vec()));
            }
            let mut h9 = hdr.clone().unwrap_or_default();
            h9.push(9);
            if let Some(s5) = sign::<CS>(h, &sk, &pk, Some(&h9), Some(&msgs)).ok() {
                unsigned.push(("other_header", s5.to_bytes().to_vec()));
            }
            // the genuine signature with e + 1, and with A replaced by another valid point
            let mut s6 = s.to_vec();
            let mut arr = [0u8; 32];
            arr.copy_from_slice(&s6[48..80]);
            let e1 = Scalar::from_be_bytes(&arr).unwrap() + Scalar::ONE;
            s6[48..80].copy_from_slice(&e1.to_be_bytes());
            unsigned.push(("e_plus_1", s6));
            if let Some((_, other)) = unsigned.first().cloned() {
                let mut s7 = s.to_vec();
                s7[..48].copy_from_slice(&other[..48]);
                unsigned.push(("foreign_A", s7));
            }
            for (nm, sg) in unsigned {
                let tape = rand_tape(h, 5 + u);
                let (p, _) = proofgen::<CS>(h, &pk, &sg, hdr.as_deref(), ph.as_deref(), Some(&msgs), Some(&d), tape);
                let gid = h.last();
                h.stat(&format!("C04.unsigned.{}", nm));
                if let Some(p) = p.ok() {
                    let v = proofverify::<CS>(h, &pk, &p, hdr.as_deref(), ph.as_deref(), Some(&dm), Some(&d));
                    h.expect(!v.is_ok(), "C04.unsigned", &format!("a challenge-consistent proof made without a signature of the issuer ({}) was accepted", nm), &[gid, h.last()]);
                    let v = blindproofverify::<CS>(h, &pk, &p, hdr.as_deref(), ph.as_deref(), Some(l), Some(&dm), None, Some(&d), None);
                    h.expect(!v.is_ok(), "C04.unsigned_blind_verify", &format!("a challenge-consistent proof made without a signature of the issuer ({}) was accepted by blind_proof_verify", nm), &[gid, h.last()]);
                }
                let tape = rand_tape(h, 5 + u);
                let (p, _) = blindproofgen::<CS>(h, &pk, &sg, hdr.as_deref(), ph.as_deref(), Some(&msgs), None, Some(&d), None, None, tape);
                let gid = h.last();
                if let Some(p) = p.ok() {
                    let v = blindproofverify::<CS>(h, &pk, &p, hdr.as_deref(), ph.as_deref(), Some(l), Some(&dm), None, Some(&d), None);
                    h.expect(!v.is_ok(), "C04.unsigned_blind", &format!("a challenge-consistent blind proof made without a signature of the issuer ({}) was accepted", nm), &[gid, h.last()]);
                }
            }
        }
        // messages and indexes that do not pair up: one of the two absent, or claimed messages on a proof that
        // discloses nothing
        if let Ok(pp) = Pok::<CS>::from_bytes(&pb) {
            let claim = vec![b"claimed, never signed".to_vec()];
            let combos: Vec<(&str, Option<&[Vec<u8>]>, Option<&[usize]>)> = vec![
                ("msgs_without_indexes", Some(&dm), None),
                ("indexes_without_msgs", None, Some(&d)),
                ("claimed_msgs_without_indexes", Some(&claim), None),
            ];
            for (nm, a, ia) in combos {
                if nm != "claimed_msgs_without_indexes" && d.is_empty() { continue; }
                let v = proofverify::<CS>(h, &pk, &pp, hdr.as_deref(), ph.as_deref(), a, ia);
                h.stat(&format!("C04.option_mismatch.{}", nm));
                h.expect(!v.is_ok(), "C04.option_mismatch", &format!("proof_verify accepted {}", nm), &[h.last()]);
            }
        }
        {
            // a proof that discloses NOTHING, verified with claimed messages but no indexes (plain and blind)
            let tape = rand_tape(h, 5 + l);
            let (p0, _) = proofgen::<CS>(h, &pk, &s, hdr.as_deref(), ph.as_deref(), Some(&msgs), Some(&[]), tape);
            if let Some(p0) = p0.ok() {
                let claim = vec![b"claimed, never signed".to_vec()];
                let v = proofverify::<CS>(h, &pk, &p0, hdr.as_deref(), ph.as_deref(), Some(&claim), None);
                h.expect(!v.is_ok(), "C04.option_mismatch", "proof_verify accepted claimed messages without indexes on a proof that discloses nothing", &[h.last()]);
                let v = proofverify::<CS>(h, &pk, &p0, hdr.as_deref(), ph.as_deref(), Some(&claim), Some(&[]));
                h.expect(!v.is_ok(), "C04.option_mismatch", "proof_verify accepted claimed messages with an empty index list", &[h.last()]);
                let v = proofverify::<CS>(h, &pk, &p0, hdr.as_deref(), ph.as_deref(), None, None);
                h.expect(v.is_ok(), "C03.verify_none", "a proof that discloses nothing does not verify with absent lists", &[h.last()]);
            }
        }
        let mut h1 = hdr.clone().unwrap_or_default();
        h1.push(7);
        expect_reject::<CS>(h, "hdr", &pk, &pb, Some(&h1), ph.as_deref(), &dm, &d);
        let mut p1 = ph.clone().unwrap_or_default();
        p1.push(7);
        expect_reject::<CS>(h, "ph", &pk, &pb, hdr.as_deref(), Some(&p1), &dm, &d);
        expect_reject::<CS>(h, "ph_hdr_swapped", &pk, &pb, Some(&p1), Some(&h1), &dm, &d);
        expect_reject::<CS>(h, "other_pk", &pk2, &pb, hdr.as_deref(), ph.as_deref(), &dm, &d);
        // truncation / extension by whole scalars
        if u > 0 {
            let mut t = pb[..240 + 32 * (u - 1)].to_vec();
            t.extend_from_slice(&pb[pb.len() - 32..]);
            expect_reject::<CS>(h, "truncate_scalar", &pk, &t, hdr.as_deref(), ph.as_deref(), &dm, &d);
        }
        let mut t = pb[..pb.len() - 32].to_vec();
        t.extend_from_slice(&[0u8; 32]);
        t.extend_from_slice(&pb[pb.len() - 32..]);
        expect_reject::<CS>(h, "extend_scalar", &pk, &t, hdr.as_deref(), ph.as_deref(), &dm, &d);
        // a whole 32-octet slot that is NOT a canonical scalar (r, r+1, ff..ff) inserted at every scalar boundary
        let r_be: [u8; 32] = [0x73, 0xed, 0xa7, 0x53, 0x29, 0x9d, 0x7d, 0x48, 0x33, 0x39, 0xd8, 0x08, 0x09, 0xa1, 0xd8, 0x05, 0x53, 0xbd, 0xa4, 0x02, 0xff, 0xfe, 0x5b, 0xfe, 0xff, 0xff, 0xff, 0xff, 0x00, 0x00, 0x00, 0x01];
        let mut r1_be = r_be;
        r1_be[31] = 2;
        for slot in [[0xffu8; 32], r_be, r1_be] {
            for off in (144..=pb.len()).step_by(32) {
                let mut t = pb[..off].to_vec();
                t.extend_from_slice(&slot);
                t.extend_from_slice(&pb[off..]);
                let dd = dec(h, "proof", &t);
                h.stat("C04.noncanonical_slot");
                h.expect(!dd.is_ok(), "C04.noncanonical_slot", "proof decoder accepted an inserted 32-octet slot that is not a canonical scalar", &[h.last()]);
                if dd.is_ok() {
                    expect_reject::<CS>(h, "noncanonical_slot_verifies", &pk, &t, hdr.as_deref(), ph.as_deref(), &dm, &d);
                }
            }
        }
        // +-k on every scalar
        for off in (144..pb.len()).step_by(32) {
            let mut arr = [0u8; 32];
            arr.copy_from_slice(&pb[off..off + 32]);
            let sc = Scalar::from_be_bytes(&arr).unwrap() + Scalar::ONE;
            let mut t = pb.clone();
            t[off..off + 32].copy_from_slice(&sc.to_be_bytes());
            expect_reject::<CS>(h, "scalar_plus_1", &pk, &t, hdr.as_deref(), ph.as_deref(), &dm, &d);
        }
        // bit flips
        let nbits = pb.len() * 8;
        let bits: Vec<usize> = if thorough {
            (0..nbits).collect()
        } else {
            let mut b = vec![0, 1, 2, 383, 384, 768, 1151, 1152, 1153, nbits - 1, nbits - 256];
            for _ in 0..29 {
                b.push(h.rng.below(nbits as u64) as usize);
            }
            b
        };
        for bit in bits {
            expect_reject::<CS>(h, "bitflip", &pk, &flip(&pb, bit), hdr.as_deref(), ph.as_deref(), &dm, &d);
        }
        // through the blind interface
        if let Ok(pp) = Pok::<CS>::from_bytes(&pb) {
            let v = blindproofverify::<CS>(h, &pk, &pp, hdr.as_deref(), ph.as_deref(), Some(l), Some(&dm), None, Some(&d), None);
            h.expect(!v.is_ok(), "C04.cross_iface", "plain proof verifies through the blind interface", &[h.last()]);
        }
    }
    // long header / presentation header / disclosed message altered WITHOUT changing its length, at the first
    // octet, around octet 32 and 64, and at the last octet -- each directly after the honest verification (so
    // that anything remembered from the honest statement is still warm)
    {
        let (sk, pk) = rand_keypair::<CS>(h);
        // (70000: also beyond 2^16 octets, for the disclosed message as well as for both headers)
        let lens: Vec<usize> = if thorough { vec![33, 64, 65, 100, 300, 70000] } else { vec![33, 100, 70000] };
        for hl in lens {
            let mut msgs = distinct_msgs(h, 3);
            msgs[1] = h.rng.bytes(hl);
            let hdr = h.rng.bytes(hl);
            let ph = h.rng.bytes(hl + 7);
            let s = match sign::<CS>(h, &sk, &pk, Some(&hdr), Some(&msgs)).ok() { Some(s) => s.to_bytes().to_vec(), None => continue };
            let d = vec![1usize, 2];
            let p = match honest_proof::<CS>(h, &pk, &s, Some(&hdr), Some(&ph), &msgs, &d, true) { Some(p) => p, None => continue };
            let dm = pick_msgs(&msgs, &d);
            let pb = p.to_bytes();
            let mut pos: Vec<usize> = vec![0, 31, 32, 63, 64, hl - 1];
            pos.retain(|&x| x < hl);
            pos.dedup();
            for x in pos {
                let v = proofverify::<CS>(h, &pk, &p, Some(&hdr), Some(&ph), Some(&dm), Some(&d));
                h.expect(v.is_ok(), "C03.verify", "honest proof with a long header does not verify", &[h.last()]);
                let mut h2 = hdr.clone();
                h2[x] ^= 0x20;
                expect_reject::<CS>(h, "hdr_same_length", &pk, &pb, Some(&h2), Some(&ph), &dm, &d);
                let v = proofverify::<CS>(h, &pk, &p, Some(&hdr), Some(&ph), Some(&dm), Some(&d));
                h.expect(v.is_ok(), "C03.verify", "honest proof with a long header does not verify", &[h.last()]);
                let mut p2 = ph.clone();
                p2[x] ^= 0x20;
                expect_reject::<CS>(h, "ph_same_length", &pk, &pb, Some(&hdr), Some(&p2), &dm, &d);
                let v = proofverify::<CS>(h, &pk, &p, Some(&hdr), Some(&ph), Some(&dm), Some(&d));
                h.expect(v.is_ok(), "C03.verify", "honest proof with a long header does not verify", &[h.last()]);
                let mut m2 = dm.clone();
                m2[0][x] ^= 0x20;
                expect_reject::<CS>(h, "dmsg_same_length", &pk, &pb, Some(&hdr), Some(&ph), &m2, &d);
            }
        }
    }
}
